//! F17 (fixed by bd38437): a model that declares only its own dimensions is accepted by every backend.
//! Fails on be31b26 (ndarray: "Unknown dimension: unconstrained_parameter"), passes on bd38437:
//!   cp findings/f17_ndarray_stat_dims.rs <worktree>/tests/ && cargo test --offline --features ndarray --test f17_ndarray_stat_dims
//! (funnel model taken from the demo of seed c14g)

use std::{collections::HashMap, time::Duration};

use nuts_rs::{
    CpuLogpFunc, CpuMath, CpuMathError, DiagNutsSettings, HashMapConfig, LogpError, Model, NdarrayConfig,
    Sampler, SamplerWaitResult,
};
use nuts_storable::HasDims;
use rand::{Rng, RngExt};
use thiserror::Error;

const DIM: usize = 6;
const NUM_CHAINS: usize = 4;
const NUM_TUNE: usize = 120;
const NUM_DRAWS: usize = 150;
const SEED: u64 = 2024;
/// Below this value of `v` the density refuses to evaluate (a recoverable error).
const NECK: f64 = -2.5;

#[derive(Clone)]
struct Funnel;

#[derive(Error, Debug)]
enum FunnelError {
    #[error("the neck of the funnel is too narrow (v = {0})")]
    Neck(f64),
}

impl LogpError for FunnelError {
    fn is_recoverable(&self) -> bool {
        true
    }
}

impl HasDims for Funnel {
    fn dim_sizes(&self) -> HashMap<String, u64> {
        HashMap::from([("dim".to_string(), DIM as u64)])
    }
}

impl CpuLogpFunc for Funnel {
    type LogpError = FunnelError;
    type FlowParameters = ();
    type ExpandedVector = Vec<f64>;

    fn dim(&self) -> usize {
        DIM
    }

    /// v ~ N(0, 3), x_i ~ N(0, exp(v / 2))
    fn logp(&mut self, position: &[f64], grad: &mut [f64]) -> Result<f64, Self::LogpError> {
        let v = position[0];
        if v < NECK {
            return Err(FunnelError::Neck(v));
        }
        let n = (position.len() - 1) as f64;
        let prec = (-v).exp();
        let mut sum_sq = 0f64;
        for i in 1..position.len() {
            sum_sq += position[i] * position[i];
            grad[i] = -position[i] * prec;
        }
        grad[0] = -v / 9.0 - 0.5 * n + 0.5 * sum_sq * prec;
        Ok(-v * v / 18.0 - 0.5 * n * v - 0.5 * sum_sq * prec)
    }

    fn expand_vector<R>(
        &mut self,
        _rng: &mut R,
        array: &[f64],
    ) -> Result<Self::ExpandedVector, CpuMathError>
    where
        R: Rng + ?Sized,
    {
        Ok(array.to_vec())
    }
}

struct FunnelModel;

impl Model for FunnelModel {
    type Math<'model> = CpuMath<Funnel>;

    fn math<R: Rng + ?Sized>(&self, _rng: &mut R) -> anyhow::Result<Self::Math<'_>> {
        Ok(CpuMath::new(Funnel))
    }

    fn init_position<R: Rng + ?Sized>(
        &self,
        rng: &mut R,
        position: &mut [f64],
    ) -> anyhow::Result<()> {
        position
            .iter_mut()
            .for_each(|x| *x = rng.random_range(-1.0..1.0));
        Ok(())
    }
}


fn settings() -> DiagNutsSettings {
    DiagNutsSettings { seed: SEED, num_chains: 2, num_tune: 20, num_draws: 10, ..Default::default() }
}

#[test]
fn hashmap_backend_accepts_the_model() -> anyhow::Result<()> {
    let mut sampler = Sampler::new(FunnelModel, settings(), HashMapConfig::new(), 2, None)?;
    loop {
        match sampler.wait_timeout(Duration::from_secs(1)) {
            SamplerWaitResult::Trace(_) => return Ok(()),
            SamplerWaitResult::Timeout(s) => sampler = s,
            SamplerWaitResult::Err(err, _) => return Err(err),
        }
    }
}

#[test]
fn ndarray_backend_accepts_the_model() -> anyhow::Result<()> {
    let mut sampler = Sampler::new(FunnelModel, settings(), NdarrayConfig::new(), 2, None)?;
    loop {
        match sampler.wait_timeout(Duration::from_secs(1)) {
            SamplerWaitResult::Trace(_) => return Ok(()),
            SamplerWaitResult::Timeout(s) => sampler = s,
            SamplerWaitResult::Err(err, _) => return Err(err),
        }
    }
}

//! F19 reproduction (harness of the round-6 seed c07l): the initial doubling/halving search must leave the chain with
//! a step size whose one-step acceptance brackets `target_accept` - for every
//! configuration, including a chain that is run without warmup
//! (`num_tune == 0`), where the search result is the only thing that ever
//! determines the step size.
//!
//! Target: isotropic Gaussian with standard deviation `sd`, started exactly
//! one standard deviation away from the mean in every coordinate.  The
//! gradient based initial mass matrix (`stds = |grad|^-1/2 = sd^1/2`) turns
//! this into a quadratic potential with curvature `omega^2 = 1 / sd` in the
//! whitened space.  In the scaled step size `s = eps * omega` one leapfrog step
//! of a quadratic potential changes the energy by
//!     dH = s^2 / 8 * (|q1|^2 - |q0|^2),   q1 = q0 (1 - s^2 / 2) + s p,
//! with |q0|^2 = dim = 10 and p ~ N(0, I):
//!   * s <= 0.2: dH < 0.03, acceptance > 0.95,
//!   * s >  2  : the integrator is unstable, dH >> 1, acceptance ~ 0.
//! With `target_accept = 0.8` a search that starts at `initial_step = 0.1` and
//! ends with a bracketing step size therefore
//!   * has to double until `s >= 0.4` (and cannot pass `s = 4`) if
//!     `0.1 * omega <= 0.2`,
//!   * has to halve until `s <= 2` (and stops before `s < 0.19`) if
//!     `0.1 * omega > 2`.
//! A chain that simply keeps sampling with 0.1 does not bracket the target in
//! either case.  (Scales with `0.1 * omega > 3.5` are left out: there the very
//! first probe has an energy error above 1000, is classified as a divergence
//! and the search gives up by design.)
//!
//! With `num_tune == 0` the first `draw()` reports exactly the step size the
//! search ended with (there is no dual-averaging update in between).

use std::collections::HashMap;

use nuts_rs::{
    Chain, CpuLogpFunc, CpuMath, CpuMathError, DiagNutsSettings, HasDims, LogpError,
    LowRankNutsSettings, Settings,
};
use rand::SeedableRng;
use thiserror::Error;

#[derive(Error, Debug)]
enum NeverError {}

impl LogpError for NeverError {
    fn is_recoverable(&self) -> bool {
        true
    }
}

#[derive(Clone)]
struct Normal {
    dim: usize,
    mu: f64,
    sd: f64,
}

impl HasDims for Normal {
    fn dim_sizes(&self) -> HashMap<String, u64> {
        HashMap::from([("unconstrained_parameter".to_string(), self.dim as u64)])
    }
}

impl CpuLogpFunc for Normal {
    type LogpError = NeverError;
    type FlowParameters = ();
    type ExpandedVector = Vec<f64>;

    fn dim(&self) -> usize {
        self.dim
    }

    fn logp(&mut self, position: &[f64], grad: &mut [f64]) -> Result<f64, NeverError> {
        let mut logp = 0.0;
        for (x, g) in position.iter().zip(grad.iter_mut()) {
            let z = (x - self.mu) / self.sd;
            logp -= 0.5 * z * z;
            *g = -z / self.sd;
        }
        Ok(logp)
    }

    fn expand_vector<R: rand::Rng + ?Sized>(
        &mut self,
        _rng: &mut R,
        array: &[f64],
    ) -> Result<Vec<f64>, CpuMathError> {
        Ok(array.to_vec())
    }
}

const DIM: usize = 10;

fn start(mu: f64, sd: f64) -> Vec<f64> {
    (0..DIM)
        .map(|i| if i % 2 == 0 { mu + sd } else { mu - sd })
        .collect()
}

/// Step size the chain samples with right after `set_position`.
fn step_after_init<S: Settings>(settings: S, sd: f64, seed: u64) -> f64 {
    let mu = 3.0 * sd;
    let math = CpuMath::new(Normal { dim: DIM, mu, sd });
    let mut rng = rand::rngs::StdRng::seed_from_u64(seed);
    let mut chain = settings.new_chain(0, math, &mut rng);
    chain.set_position(&start(mu, sd)).unwrap();
    let (_, progress) = chain.draw().unwrap();
    progress.step_size
}

fn check(step: f64, sd: f64, what: &str) {
    let omega = (1.0 / sd).sqrt();
    let s0 = 0.1 * omega;
    let s = step * omega;
    println!("{what}: step size after init = {step} (scaled: {s}, initial scaled: {s0})");
    assert!(step.is_finite() && step > 0.0);
    if s0 <= 0.2 {
        assert!(
            s >= 0.4 * (1.0 - 1e-9) && s < 4.0,
            "{what}: step size {step} (scaled {s}) cannot bracket target_accept: \
             the acceptance up to a scaled step of 0.2 is above 0.95 > 0.8, the search must have doubled"
        );
    } else {
        assert!(s0 > 2.0, "test case must be clearly on one side");
        assert!(
            s <= 2.0 && s >= 0.19,
            "{what}: step size {step} (scaled {s}) cannot bracket target_accept: \
             the integrator is unstable at this step size, the search must have halved"
        );
    }
}

/// Narrow targets: the first probe of the search diverges (energy error > 1000). The search must halve
/// until the step is stable; on HEAD it gives up and keeps `initial_step`.
#[test]
fn search_halves_when_the_first_probe_diverges() {
    for (sd, seed) in [(1e-4, 1u64), (1e-5, 2), (1e-6, 3), (5e-4, 4)] {
        let mut settings = DiagNutsSettings {
            num_tune: 0,
            num_draws: 10,
            ..Default::default()
        };
        settings.adapt_options.step_size_settings.jitter = None;
        let step = step_after_init(settings, sd, seed);
        check(step, sd, &format!("diag, no warmup, sd={sd}, seed={seed}"));
    }
}

/// Control: moderately narrow and wide targets (the search works on HEAD).
#[test]
fn search_brackets_for_moderate_scales() {
    for (sd, seed) in [(1.0, 1u64), (1e-3, 2), (1e3, 3), (25.0, 5), (1.5e-3, 6)] {
        let mut settings = DiagNutsSettings {
            num_tune: 0,
            num_draws: 10,
            ..Default::default()
        };
        settings.adapt_options.step_size_settings.jitter = None;
        let step = step_after_init(settings, sd, seed);
        check(step, sd, &format!("diag, no warmup, sd={sd}, seed={seed}"));
    }
}

//! F20 reproduction: a rejected low-rank estimate must not be reported as a change of the transformation.
//!
//! Model: a standard normal in x0 and a direction x1 in which the density is log-linear (its gradient is constant).
//! Every low-rank estimate of such a window is invalid (the gradient has zero variance in x1, the scale is
//! not finite) and `LowRankMassMatrix::update` leaves the previous transformation in place - the transformation
//! id never changes. The step-size search must then never be re-run during warmup: "the first transformation
//! change re-runs the step-size search", and there is no change.
//!
//! Observable through the public API: the search evaluates the density between two draws; a draw itself
//! evaluates it once per leapfrog step (`Progress::num_steps`). Any evaluation beyond that, after the first
//! draw, is a search.

use std::{
    collections::HashMap,
    sync::{
        Arc,
        atomic::{AtomicU64, Ordering},
    },
};

use nuts_rs::{Chain, CpuLogpFunc, CpuMath, CpuMathError, HasDims, LogpError, LowRankNutsSettings, Settings};
use rand::SeedableRng;
use thiserror::Error;

#[derive(Error, Debug)]
enum NeverError {}

impl LogpError for NeverError {
    fn is_recoverable(&self) -> bool {
        true
    }
}

#[derive(Clone)]
struct FlatDirection {
    evals: Arc<AtomicU64>,
    flat: bool,
}

impl HasDims for FlatDirection {
    fn dim_sizes(&self) -> HashMap<String, u64> {
        HashMap::from([("unconstrained_parameter".to_string(), 2)])
    }
}

impl CpuLogpFunc for FlatDirection {
    type LogpError = NeverError;
    type FlowParameters = ();
    type ExpandedVector = Vec<f64>;

    fn dim(&self) -> usize {
        2
    }

    fn logp(&mut self, x: &[f64], grad: &mut [f64]) -> Result<f64, NeverError> {
        self.evals.fetch_add(1, Ordering::SeqCst);
        grad[0] = -x[0];
        // "flat": linear in x1, i.e. a constant gradient (an exponential tail / a parameter that only enters linearly)
        grad[1] = if self.flat { -0.5 } else { -x[1] };
        Ok(-0.5 * x[0] * x[0] - if self.flat { 0.5 * x[1] } else { 0.5 * x[1] * x[1] })
    }

    fn expand_vector<R: rand::Rng + ?Sized>(&mut self, _rng: &mut R, array: &[f64]) -> Result<Vec<f64>, CpuMathError> {
        Ok(array.to_vec())
    }
}

/// (draws after which the density was evaluated outside a trajectory, draws at which the transformation id changed)
fn run(flat: bool) -> (Vec<u64>, Vec<u64>) {
    let evals = Arc::new(AtomicU64::new(0));
    let model = FlatDirection { evals: evals.clone(), flat };
    let mut settings = LowRankNutsSettings {
        num_tune: 150,
        num_draws: 10,
        ..Default::default()
    };
    settings.adapt_options.step_size_settings.jitter = None;
    let mut rng = rand::rngs::StdRng::seed_from_u64(42);
    let mut chain = settings.new_chain(0, CpuMath::new(model), &mut rng);
    chain.set_position(&[0.3, -0.2]).unwrap();

    let mut searches = Vec::new();
    let mut changes = Vec::new();
    let mut seen_id = None;
    for draw in 0..150u64 {
        let before = evals.load(Ordering::SeqCst);
        let (_, _, stats, progress) = chain.expanded_draw().unwrap();
        let used = evals.load(Ordering::SeqCst) - before;
        if let Some(id) = stats.hamiltonian.transformation.transformation_update_id {
            if seen_id.is_some() && seen_id != Some(id) {
                changes.push(draw);
            }
            seen_id = Some(id);
        }
        // `expand_vector` does not evaluate the density; a trajectory evaluates it once per step
        if used > progress.num_steps {
            searches.push(draw);
        }
    }
    (searches, changes)
}

#[test]
fn no_search_without_a_change_of_the_transformation() {
    let (searches, changes) = run(true);
    println!("flat direction: transformation changes at {changes:?}, extra density evaluations after draws {searches:?}");
    assert!(changes.is_empty(), "every estimate of this model is invalid, the transformation cannot change");
    assert!(
        searches.is_empty(),
        "the step-size search was re-run after draw(s) {searches:?} although the transformation never changed"
    );
}

/// Control: a proper target. The transformation changes, and the search is re-run exactly once, at the first change.
#[test]
fn search_reruns_once_at_the_first_change() {
    let (searches, changes) = run(false);
    println!("proper target: transformation changes at {:?}.., extra density evaluations after draws {searches:?}", &changes[..changes.len().min(3)]);
    assert!(!changes.is_empty());
    assert_eq!(searches, vec![changes[0]], "the search must be re-run at the first transformation change and only there");
}

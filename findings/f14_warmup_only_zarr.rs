//! F14 (fixed by c6eed9a): a run that ends in warm-up must keep its warm-up events in the Zarr store.
//! Reproduction used before the fix (fails on ca50211, passes on c6eed9a):
//!   cp findings/f14_warmup_only_zarr.rs <worktree>/tests/ && cargo test --offline --features zarr --test f14_warmup_only_zarr
//! (model and helpers taken from the demo of seed c14g)
//!
//! The model is Neal's funnel, which reliably produces divergences both while
//! tuning and while sampling, in different numbers for every chain. For each
//! chain the draw-indexed `diverging` flags tell us how many divergence events
//! were recorded in each phase; every `divergence_*` event array must be long
//! enough to hold all of them and must contain them in recording order.

use std::{collections::HashMap, sync::Arc, time::Duration};

use nuts_rs::{
    CpuLogpFunc, CpuMath, CpuMathError, DiagNutsSettings, LogpError, Model, Sampler,
    SamplerWaitResult, ZarrConfig,
};
use nuts_storable::HasDims;
use rand::{Rng, RngExt};
use thiserror::Error;
use zarrs::{
    array::{Array, ArraySubset},
    storage::{ReadableListableStorageTraits, store::MemoryStore},
};

const DIM: usize = 6;
const NUM_CHAINS: usize = 4;
const NUM_TUNE: usize = 120;
const NUM_DRAWS: usize = 0;
const SEED: u64 = 2024;
/// Below this value of `v` the density refuses to evaluate (a recoverable error).
const NECK: f64 = -2.5;

#[derive(Clone)]
struct Funnel;

#[derive(Error, Debug)]
enum FunnelError {
    #[error("the neck of the funnel is too narrow (v = {0})")]
    Neck(f64),
}

impl LogpError for FunnelError {
    fn is_recoverable(&self) -> bool {
        true
    }
}

impl HasDims for Funnel {
    fn dim_sizes(&self) -> HashMap<String, u64> {
        HashMap::from([
            ("unconstrained_parameter".to_string(), DIM as u64),
            ("dim".to_string(), DIM as u64),
        ])
    }
}

impl CpuLogpFunc for Funnel {
    type LogpError = FunnelError;
    type FlowParameters = ();
    type ExpandedVector = Vec<f64>;

    fn dim(&self) -> usize {
        DIM
    }

    /// v ~ N(0, 3), x_i ~ N(0, exp(v / 2))
    fn logp(&mut self, position: &[f64], grad: &mut [f64]) -> Result<f64, Self::LogpError> {
        let v = position[0];
        if v < NECK {
            return Err(FunnelError::Neck(v));
        }
        let n = (position.len() - 1) as f64;
        let prec = (-v).exp();
        let mut sum_sq = 0f64;
        for i in 1..position.len() {
            sum_sq += position[i] * position[i];
            grad[i] = -position[i] * prec;
        }
        grad[0] = -v / 9.0 - 0.5 * n + 0.5 * sum_sq * prec;
        Ok(-v * v / 18.0 - 0.5 * n * v - 0.5 * sum_sq * prec)
    }

    fn expand_vector<R>(
        &mut self,
        _rng: &mut R,
        array: &[f64],
    ) -> Result<Self::ExpandedVector, CpuMathError>
    where
        R: Rng + ?Sized,
    {
        Ok(array.to_vec())
    }
}

struct FunnelModel;

impl Model for FunnelModel {
    type Math<'model> = CpuMath<Funnel>;

    fn math<R: Rng + ?Sized>(&self, _rng: &mut R) -> anyhow::Result<Self::Math<'_>> {
        Ok(CpuMath::new(Funnel))
    }

    fn init_position<R: Rng + ?Sized>(
        &self,
        rng: &mut R,
        position: &mut [f64],
    ) -> anyhow::Result<()> {
        position
            .iter_mut()
            .for_each(|x| *x = rng.random_range(-1.0..1.0));
        Ok(())
    }
}

type Store = Arc<dyn ReadableListableStorageTraits>;

fn open(store: &Store, path: &str) -> Array<dyn ReadableListableStorageTraits> {
    Array::open(store.clone(), path).unwrap_or_else(|e| panic!("could not open {path}: {e}"))
}

/// Positions (per chain) at which the draw-indexed `diverging` flag is set.
fn diverging_positions(store: &Store, group: &str, num_draws: usize) -> Vec<Vec<usize>> {
    let array = open(store, &format!("/{group}/diverging"));
    assert_eq!(array.shape(), &[NUM_CHAINS as u64, num_draws as u64]);
    let flags: Vec<bool> = array
        .retrieve_array_subset(&ArraySubset::new_with_shape(array.shape().to_vec()))
        .unwrap();
    flags
        .chunks(num_draws)
        .map(|chain| {
            chain
                .iter()
                .enumerate()
                .filter_map(|(i, &d)| d.then_some(i))
                .collect()
        })
        .collect()
}

fn check_group(store: &Store, group: &str, num_draws: usize) -> Vec<usize> {
    let positions = diverging_positions(store, group, num_draws);
    let counts: Vec<usize> = positions.iter().map(|p| p.len()).collect();
    let max_count = *counts.iter().max().unwrap();

    // Scalar event fields: one entry per divergence of the chain.
    let draw = open(store, &format!("/{group}/divergence_draw"));
    assert_eq!(
        draw.shape(),
        &[NUM_CHAINS as u64, max_count as u64],
        "{group}/divergence_draw must hold the events of every chain (events per chain: {counts:?})"
    );
    let values: Vec<u64> = draw
        .retrieve_array_subset(&ArraySubset::new_with_shape(draw.shape().to_vec()))
        .unwrap();
    for (chain, expected) in positions.iter().enumerate() {
        // `divergence_draw` counts draws over both phases, possibly from a
        // different origin than the position in the group; compare spacing.
        let stored = &values[chain * max_count..chain * max_count + expected.len()];
        let stored: Vec<i64> = stored.iter().map(|&d| d as i64 - stored[0] as i64).collect();
        let expected: Vec<i64> = expected
            .iter()
            .map(|&i| i as i64 - expected[0] as i64)
            .collect();
        assert_eq!(stored, expected, "{group}/divergence_draw of chain {chain}");
    }

    let message = open(store, &format!("/{group}/divergence_message"));
    assert_eq!(
        message.shape(),
        &[NUM_CHAINS as u64, max_count as u64],
        "{group}/divergence_message must hold the events of every chain (events per chain: {counts:?})"
    );
    let messages: Vec<String> = message
        .retrieve_array_subset(&ArraySubset::new_with_shape(message.shape().to_vec()))
        .unwrap();
    for (chain, &count) in counts.iter().enumerate() {
        for (event, msg) in messages[chain * max_count..(chain + 1) * max_count]
            .iter()
            .enumerate()
        {
            assert_eq!(
                !msg.is_empty(),
                event < count,
                "{group}/divergence_message[{chain}, {event}] = {msg:?}"
            );
        }
    }

    // Vector event fields share the event axis.
    for name in ["divergence_start", "divergence_end"] {
        let array = open(store, &format!("/{group}/{name}"));
        assert_eq!(
            array.shape(),
            &[NUM_CHAINS as u64, max_count as u64, DIM as u64],
            "{group}/{name} must hold the events of every chain (events per chain: {counts:?})"
        );
    }

    counts
}

#[test]
fn warmup_only_run_keeps_its_warmup_events() -> anyhow::Result<()> {
    let settings = DiagNutsSettings {
        seed: SEED,
        num_chains: NUM_CHAINS,
        num_tune: NUM_TUNE as u64,
        num_draws: 0,
        store_divergences: true,
        ..Default::default()
    };
    let store = Arc::new(MemoryStore::new());
    let config = ZarrConfig::new(store.clone()).with_chunk_size(16);
    let mut sampler = Sampler::new(FunnelModel, settings, config, NUM_CHAINS, None)?;
    loop {
        match sampler.wait_timeout(Duration::from_secs(1)) {
            SamplerWaitResult::Trace(()) => break,
            SamplerWaitResult::Timeout(s) => sampler = s,
            SamplerWaitResult::Err(err, _) => return Err(err),
        }
    }
    let store: Store = store;
    let warmup = check_group(&store, "warmup_sample_stats", NUM_TUNE);
    println!("divergences per chain in warmup: {warmup:?}");
    assert!(warmup.iter().any(|&c| c > 0));
    Ok(())
}

//! F16 (fixed by be31b26): a chain error must not be lost when the caller stops the sampler with `abort()` instead of `wait_timeout()`.
//! Fails on 2c48650, passes on be31b26: cp findings/f16_abort_reports_chain_errors.rs <worktree>/tests/ && cargo test --offline --test f16_abort_reports_chain_errors
//! (model with injected faults taken from the demo of seed c13j)

use std::{
    collections::HashMap,
    sync::{
        Arc,
        atomic::{AtomicUsize, Ordering},
    },
    thread,
    time::Duration,
};

use anyhow::{Result, bail};
use nuts_rs::{
    CpuLogpFunc, CpuMath, CpuMathError, DiagNutsSettings, HasDims, HashMapConfig, LogpError,
    Model, Sampler, SamplerWaitResult,
};
use rand::{Rng, RngExt};
use thiserror::Error;

const DIM: usize = 2;
const NUM_CHAINS: usize = 2;
const WATCHDOG: Duration = Duration::from_secs(90);

#[derive(Debug, Error)]
enum DensityError {
    #[error("injected unrecoverable density failure")]
    Unrecoverable,
}

impl LogpError for DensityError {
    fn is_recoverable(&self) -> bool {
        false
    }
}

#[derive(Clone, Copy, Debug, PartialEq)]
enum Fault {
    None,
    /// every density evaluation fails (unrecoverable)
    BrokenDensity,
    /// `Model::math` fails from its second call on (the first call is the controller's)
    ModelConstructionInChains,
    /// `Model::init_position` fails
    InitPosition,
}

#[derive(Clone)]
struct Density {
    fault: Fault,
    logp_calls: Arc<AtomicUsize>,
}

impl HasDims for Density {
    fn dim_sizes(&self) -> HashMap<String, u64> {
        HashMap::from([
            ("unconstrained_parameter".to_string(), DIM as u64),
            ("dim".to_string(), DIM as u64),
        ])
    }
}

impl CpuLogpFunc for Density {
    type LogpError = DensityError;
    type FlowParameters = ();
    type ExpandedVector = Vec<f64>;

    fn dim(&self) -> usize {
        DIM
    }

    fn logp(&mut self, x: &[f64], grad: &mut [f64]) -> Result<f64, DensityError> {
        self.logp_calls.fetch_add(1, Ordering::SeqCst);
        if self.fault == Fault::BrokenDensity {
            return Err(DensityError::Unrecoverable);
        }
        let mut logp = 0.0;
        for (xi, gi) in x.iter().zip(grad.iter_mut()) {
            logp -= 0.5 * xi * xi;
            *gi = -xi;
        }
        Ok(logp)
    }

    fn expand_vector<R: Rng + ?Sized>(
        &mut self,
        _rng: &mut R,
        array: &[f64],
    ) -> Result<Vec<f64>, CpuMathError> {
        Ok(array.to_vec())
    }
}

struct TestModel {
    fault: Fault,
    math_calls: AtomicUsize,
    logp_calls: Arc<AtomicUsize>,
}

impl Model for TestModel {
    type Math<'model>
        = CpuMath<Density>
    where
        Self: 'model;

    fn math<R: Rng + ?Sized>(&self, _rng: &mut R) -> Result<Self::Math<'_>> {
        let call = self.math_calls.fetch_add(1, Ordering::SeqCst);
        if self.fault == Fault::ModelConstructionInChains && call >= 1 {
            bail!("injected model construction failure");
        }
        Ok(CpuMath::new(Density {
            fault: self.fault,
            logp_calls: self.logp_calls.clone(),
        }))
    }

    fn init_position<R: Rng + ?Sized>(&self, rng: &mut R, position: &mut [f64]) -> Result<()> {
        if self.fault == Fault::InitPosition {
            bail!("injected init_position failure");
        }
        position
            .iter_mut()
            .for_each(|x| *x = rng.random::<f64>() - 0.5);
        Ok(())
    }
}


fn run_abort_only(fault: Fault, num_draws: u64) -> Result<(Option<String>, usize)> {
    let logp_calls = Arc::new(AtomicUsize::new(0));
    let model = TestModel { fault, math_calls: AtomicUsize::new(0), logp_calls: logp_calls.clone() };
    let settings = DiagNutsSettings { num_tune: 0, num_draws, num_chains: NUM_CHAINS, seed: 2026, ..Default::default() };
    let sampler = Sampler::new(model, settings, HashMapConfig::new(), NUM_CHAINS, None)?;
    // give every chain ample time to fail (500 initialisation attempts take milliseconds)
    thread::sleep(Duration::from_millis(1500));
    let (err, trace) = sampler.abort()?;
    Ok((err.map(|e| format!("{e:#}")), trace.len()))
}

#[test]
fn abort_reports_a_chain_that_failed() {
    let (err, chains) = run_abort_only(Fault::None, 5).unwrap();
    assert!(err.is_none(), "healthy run: {err:?}");
    assert_eq!(chains, NUM_CHAINS);
    for fault in [Fault::BrokenDensity, Fault::ModelConstructionInChains, Fault::InitPosition] {
        match run_abort_only(fault, 5) {
            Err(e) => eprintln!("{fault:?}: abort() -> Err({e:#})"),
            Ok((Some(e), _)) => eprintln!("{fault:?}: abort() -> Ok((Some({e}), trace))"),
            Ok((None, chains)) => panic!("{fault:?}: every chain failed, but abort() reported success: Ok((None, trace with {chains} chains))"),
        }
    }
}

#!/usr/bin/env python3
"""Debug helper: print MIR / HIR facts of bodies whose path contains a substring."""
import json
import os
import sys

sys.path.insert(0, os.path.dirname(os.path.dirname(os.path.abspath(__file__))))
from rules import extract as X
from rules.facts import Facts, vt_str, loc


def op_s(b, o):
    return vt_str(b.value(o))


def pl_s(pl):
    s = "_%d" % pl["l"]
    for e in pl["p"]:
        if e == "*":
            s = "(*%s)" % s
        elif isinstance(e, dict) and "f" in e:
            s += ".%s" % (e["n"] if e["n"] is not None else e["f"])
        elif isinstance(e, dict) and "d" in e:
            s = "(%s as %s)" % (s, e["d"])
        else:
            s += "[%s]" % json.dumps(e)
    return s


def raw_op(o):
    if o["k"] == "const":
        c = o["const"]
        return "const " + (c.get("v") or c["c"])[:60]
    return ("move " if o["k"] == "move" else "") + pl_s(o["pl"])


def rv_s(rv):
    k = rv["k"]
    if k == "use":
        return raw_op(rv["op"])
    if k == "ref":
        return "&%s %s" % (rv["bk"], pl_s(rv["pl"]))
    if k == "bin":
        return "%s(%s, %s)" % (rv["op"], raw_op(rv["a"]), raw_op(rv["b"]))
    if k == "un":
        return "%s(%s)" % (rv["op"], raw_op(rv["a"]))
    if k == "discr":
        return "discr(%s)" % pl_s(rv["pl"])
    if k == "agg":
        what = rv.get("adt", rv.get("closure", rv["ak"]))
        if rv.get("variant"):
            what += "::" + rv["variant"]
        return "%s{%s}" % (what, ", ".join(raw_op(o) for o in rv["ops"]))
    if k == "cast":
        return "cast(%s)" % raw_op(rv["op"])
    return json.dumps(rv)[:120]


def dump_mir(b):
    print("== MIR %s  (%s) args=%d" % (b.path, b.loc(), b.arg_count))
    for i, l in enumerate(b.locals):
        if l.get("name") or i <= b.arg_count:
            print("   _%d: %s  %s" % (i, l["ty"][:100], l.get("name") or ""))
    rb = b.reachable_blocks()
    for i, blk in enumerate(b.blocks):
        if blk["cleanup"] or i not in rb:
            continue
        print(" bb%d:" % i)
        for st in blk["stmts"]:
            if st["k"] == "assign":
                print("    %s = %s   @%s" % (pl_s(st["pl"]), rv_s(st["rv"]), st["span"]["line"]))
            elif st["k"] == "setdiscr":
                print("    discr(%s) = %s" % (pl_s(st["pl"]), st["variant"]))
        t = blk["term"]
        k = t["k"]
        if k == "call":
            c = t["callee"]
            name = c.get("resolved") or c.get("path") or ("indirect " + raw_op(c["indirect"]))
            print("    %s = CALL %s(%s) -> bb%s   @%s" % (pl_s(t["dest"]), name, ", ".join(raw_op(a) for a in t["args"]), t["target"], t["span"]["line"]))
        elif k == "switch":
            arms = ", ".join("%s%s->bb%d" % (a["val"], ("/" + a["name"]) if a["name"] else "", a["target"]) for a in t["arms"])
            print("    SWITCH %s [%s] else bb%d   %s" % (raw_op(t["discr"]), arms, t["otherwise"], ("on " + pl_s(t["enum_place"])) if "enum_place" in t else ""))
        elif k == "goto":
            print("    goto bb%d" % t["target"])
        elif k == "drop":
            print("    drop %s -> bb%d" % (pl_s(t["pl"]), t["target"]))
        elif k == "assert":
            print("    assert %s == %s -> bb%d" % (raw_op(t["cond"]), t["expected"], t["target"]))
        else:
            print("    %s" % k)


def hir_s(n, ind=0):
    pad = "  " * ind
    if n is None:
        return
    if isinstance(n, list):
        for x in n:
            hir_s(x, ind)
        return
    if not isinstance(n, dict):
        return
    k = n.get("k")
    head = k or ""
    for key in ("op", "method", "name", "callee", "src"):
        if key in n and isinstance(n[key], str):
            head += " %s=%s" % (key, n[key])
    if "lit" in n:
        head += " " + str(n["lit"].get("v"))
    if "res" in n:
        r = n["res"]
        head += " -> " + (r.get("def") or r.get("name") or str(r))
    if "span" in n and k:
        head += "   @%s" % n["span"]["line"]
    if k:
        print(pad + head)
    for key, v in n.items():
        if key in ("span", "res", "lit", "ty"):
            continue
        if isinstance(v, dict) and ("k" in v or key in ("pat",)):
            print(pad + " ." + key + ":")
            hir_s(v, ind + 2)
        elif isinstance(v, list) and v and isinstance(v[0], dict):
            print(pad + " ." + key + "[]:")
            for x in v:
                if "k" in x:
                    hir_s(x, ind + 2)
                else:
                    for kk, vv in x.items():
                        if isinstance(vv, dict) and "k" in vv:
                            print(pad + "   ." + kk + ":")
                            hir_s(vv, ind + 3)
                        elif isinstance(vv, str) and kk == "name":
                            print(pad + "   name=" + vv)


def main():
    sub = sys.argv[1]
    what = sys.argv[2] if len(sys.argv) > 2 else "mir"
    repo = sys.argv[3] if len(sys.argv) > 3 else "/repo"
    d, m = X.extract(repo, "all")
    F = Facts(d, m)
    for p, b in sorted(F.bodies.items()):
        if sub in p:
            if what in ("mir", "both"):
                dump_mir(b)
            if what in ("hir", "both"):
                print("== HIR %s" % p)
                hir_s(b.hir["value"] if b.hir else None)
            if what == "json":
                print(json.dumps(b.r)[:20000])


if __name__ == "__main__":
    main()

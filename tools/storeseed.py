#!/usr/bin/env python3
"""storeseed.py <seed dir> <id> <property> <caught_by text> -- copy a confirmed seed into /verif/seeded/<id>/ with meta.json.
Refuses unless /tmp/seedwork/confirm_results.txt holds a confirming line (suite rc 0, demo fails with / passes without the change)."""
import json, os, re, shutil, sys
sd, sid, prop, caught = sys.argv[1:5]
V = os.path.dirname(os.path.dirname(os.path.abspath(__file__)))
lines = [l.strip() for l in open("/tmp/seedwork/confirm_results.txt") if l.startswith(sid + ":")]
good = [l for l in lines if "suite_with_change_rc=0" in l and re.search(r"demo_with_change_rc=(?!0 )\d+", l) and "demo_without_change_rc=0" in l]
if not good:
    sys.exit("%s: no confirming run in confirm_results.txt (%s)" % (sid, lines[-1:] or "no run"))
dst = os.path.join(V, "seeded", sid)
os.makedirs(dst, exist_ok=True)
for f in os.listdir(sd):
    if f in ("patch.diff", "demo.diff", "demo_cmd.txt", "notes.md") or f.endswith(".rs"):
        shutil.copy(os.path.join(sd, f), os.path.join(dst, f))
notes = open(os.path.join(sd, "notes.md")).read() if os.path.exists(os.path.join(sd, "notes.md")) else ""
m = re.search(r"(?im)^#+\s*(what it needs.*|needs to manifest.*|trigger.*)\n+(.+?)(\n#|\Z)", notes, re.S)
meta = {"id": sid, "property": prop, "round": (7 if sid[-1] in "m" else 6 if sid[-1] in "kl" else 5 if sid[-1] in "ij" else 4 if sid[-1] in "gh" else 3 if sid[-1] in "ef" else 2),
        "needs_to_manifest": (m.group(2).strip()[:600] if m else "see notes.md"),
        "caught_by": caught,
        "confirmed": {"how": "tools/confirm_seed.sh: scratch worktree of /repo HEAD under /tmp; suite with the change; demo with the change; demo without the change; worktree removed",
                      "result": good[-1], "all_runs": lines},
        "source": "independent sub-agent given only the property text and its own worktree"}
json.dump(meta, open(os.path.join(dst, "meta.json"), "w"), indent=1)
print("stored", dst)

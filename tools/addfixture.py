#!/usr/bin/env python3
"""addfixture.py <prop[,prop..]> <name> <M|R> <patch> [--expect KEY] [--why TEXT]  -- register a patch as self-validation fixture."""
import argparse, json, os, shutil
ap = argparse.ArgumentParser()
ap.add_argument("props"); ap.add_argument("name"); ap.add_argument("kind"); ap.add_argument("patch")
ap.add_argument("--expect", default=None); ap.add_argument("--why", default="")
a = ap.parse_args()
V = os.path.dirname(os.path.dirname(os.path.abspath(__file__)))
dst = os.path.join(V, "fixtures", "patches", a.name + ".diff")
if os.path.abspath(a.patch) != dst:
    shutil.copy(a.patch, dst)
for prop in a.props.split(","):
    p = os.path.join(V, "fixtures", prop.lower() + ".json")
    fx = json.load(open(p)) if os.path.exists(p) else []
    fx = [x for x in fx if x["name"] != a.name]
    e = {"name": a.name, "kind": a.kind, "patch_file": a.name + ".diff", "edits": [], "why": a.why}
    if a.kind == "M":
        e["expect"] = a.expect or prop.upper()
    fx.append(e)
    json.dump(fx, open(p, "w"), indent=1)
    print("added", a.name, "to", p)

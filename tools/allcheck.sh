#!/bin/sh
# usage: allcheck.sh <patch.diff>  -- apply a patch to /repo, run every quick check, print violations, undo the patch.
P="$1"
cd /repo || exit 2
git apply --check "$P" 2>/dev/null || { echo "PATCH DOES NOT APPLY: $P"; exit 3; }
git apply "$P"
cd /verif
for id in C01 C02 C03 C05 C06 C07 C08 C09 C10 C11 C12 C13 C14 C15 C16 C17 C18 C19; do
  out=$(./check $id --tier quick 2>&1)
  rc=$?
  if [ $rc -ne 0 ]; then
    echo "--- $id rc=$rc"
    echo "$out" | grep -E "rule=|does not build|Traceback|Error" | cut -c1-330 | head -6
  fi
done
git -C /repo checkout -- .
git -C /repo clean -fdq -e target 2>/dev/null
git -C /repo status --short | head -3
echo "done $P"

#!/bin/sh
# usage: allcheck.sh <patch.diff> [Cxx ...] -- apply a patch to a scratch copy of /repo (never to /repo itself), run the quick checks on it, delete the copy.
P="$1"; shift
IDS="$@"
[ -z "$IDS" ] && IDS="C01 C02 C03 C05 C06 C07 C08 C09 C10 C11 C12 C13 C14 C15 C16 C17 C18 C19"
mkdir -p /var/tmp/nuts-verif
S=$(mktemp -d /var/tmp/nuts-verif/allcheck.XXXXXX)
rsync -a --exclude target --exclude .git /repo/ "$S"/
if ! patch -p1 -s -f -d "$S" -i "$P" >/dev/null 2>&1; then echo "PATCH DOES NOT APPLY: $P"; rm -rf "$S"; exit 3; fi
[ -d /var/tmp/nuts-verif/target-ac ] || cp -a /var/tmp/nuts-verif/target-all /var/tmp/nuts-verif/target-ac 2>/dev/null
cd /verif
# one extraction first (fact cache), then the rule engines in parallel; evidence of this run goes to a scratch directory
python3 -c "
import sys, os
sys.path.insert(0, '/verif')
os.environ['NUTS_VERIF_TARGET_TAG'] = 'ac'
from rules import extract as X
try:
    X.extract('$S', 'all')
except X.BuildFailed as e:
    print('does not build'); print(e.log[-1500:])
" 2>&1 | grep -v "^WARNING conda"
for id in $IDS; do
  ( out=$(NUTS_VERIF_TARGET_TAG=ac ./check $id --tier quick --repo "$S" 2>&1); rc=$?
    if [ $rc -ne 0 ]; then
      echo "--- $id rc=$rc"
      echo "$out" | grep -E "rule=|does not build|Traceback|Error" | cut -c1-330 | head -8
    fi ) &
done
wait
rm -rf "$S"
git -C /verif checkout -- evidence 2>/dev/null
echo "done $P"

#!/bin/sh
# usage: refcheck.sh [pattern]  -- run every behaviour-preserving refactoring kept under /verif/refactors (and every R fixture patch) through all
# quick checks on scratch copies; prints only alarms. None of these may raise one.
cd /verif
for p in refactors/${1:-*}.diff features/${1:-*}.diff; do
  tools/allcheck.sh /verif/$p 2>&1 | grep -v "^WARNING conda" | grep -v "^done " | sed "s#^#[$p] #"
done
echo "refcheck finished"

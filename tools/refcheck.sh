#!/bin/sh
# usage: refcheck.sh [pattern]  -- run every behaviour-preserving refactoring kept under /verif/refactors and every correct change under
# /verif/features through all quick checks on scratch copies; prints only alarms. None of these may raise one, except the re-designs listed in
# features/KNOWN-FAIL-CLOSED.txt (documented anchor alarms, DESIGN.md 12.13), which are skipped.
cd /verif
for p in refactors/${1:-*}.diff features/${1:-*}.diff; do
  [ -f "$p" ] || continue
  if grep -q "^$(basename $p) " features/KNOWN-FAIL-CLOSED.txt 2>/dev/null; then continue; fi
  tools/allcheck.sh /verif/$p 2>&1 | grep -v "^WARNING conda" | grep -v "^done " | sed "s#^#[$p] #"
done
echo "refcheck finished"

#!/bin/sh
# usage: seedcheck.sh <patch.diff> <prop> [<prop>...]  -- apply a seeded patch to /repo, run quick checks, undo.
P="$1"; shift
cd /repo || exit 2
git apply --check "$P" || { echo "PATCH DOES NOT APPLY"; exit 3; }
git apply "$P"
for id in "$@"; do (cd /verif && ./check $id --tier quick 2>&1 | grep -E "VIOLATION|rule=|tier=" | cut -c1-400); done
git -C /repo checkout -- .
git -C /repo status --short | head -3

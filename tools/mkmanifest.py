#!/usr/bin/env python3
"""Regenerate MANIFEST.json from the rule modules that exist (rules/cXX.py) and the NA table."""
import importlib
import json
import os
import sys

VERIF = os.path.dirname(os.path.dirname(os.path.abspath(__file__)))
sys.path.insert(0, VERIF)

NA = {
    "C04": "End-to-end posterior means/variances/coverage and absence of divergences are statistics of long runs over seeds; "
           "no static argument bounds them. Its one structural clause (fresh standard-normal momentum per trajectory) is decided by rule C01-R6.",
}
PENDING = "check not built yet (planned rules: DESIGN.md section 4)"

props = [json.loads(l) for l in open(os.path.join(VERIF, "properties.jsonl"))]
checks = []
na = []
for p in props:
    pid = p["id"]
    modp = os.path.join(VERIF, "rules", pid.lower() + ".py")
    if pid in NA:
        na.append({"property_id": pid, "reason": NA[pid]})
        continue
    if not os.path.exists(modp):
        na.append({"property_id": pid, "reason": PENDING})
        continue
    mod = importlib.import_module("rules." + pid.lower())
    checks.append({
        "property_id": pid,
        "quick_cmd": "./check %s --tier quick" % pid,
        "thorough_cmd": "./check %s --tier thorough" % pid,
        "evidence_file": "/verif/evidence/%s.json" % pid,
        "replay_cmd_template": "./check %s --explain {path}" % pid,
        "engine": "nutsfacts+rules",
        "level_claimed": {"category": "other", "text": mod.LEVEL, "design_ref": "DESIGN.md section 4, " + pid},
        "level_note": getattr(mod, "NOTE", "Trusted: rustc nightly front end and MIR construction at -Zmir-opt-level=0, the nutsfacts extractor, the rule code; "
                              "library semantics listed under assumptions in the evidence file. Decides structural necessary conditions only, not the behavioural statement."),
        "technique": getattr(mod, "TECHNIQUE", "static analysis: custom rules over rustc HIR/MIR facts (dominance, slices, sibling agreement)"),
    })

m = {
    "version": 1,
    "setup_cmd": "./setup.sh",
    "hooks": {
        "guard": "nuts_rs_verif",
        "enable": "none needed: static analysis reads /repo's source through a rustc driver (RUSTC_WORKSPACE_WRAPPER under cargo +nightly check); no hooks are compiled in",
        "baseline_off_cmd": "cd /repo && cargo test --workspace --no-fail-fast --offline",
        "source_commits": [],
        "add_only": True,
    },
    "engines": [
        {"name": "nutsfacts", "path": "extractor/", "serves_properties": [c["property_id"] for c in checks],
         "kind_free_text": "rustc_private driver exporting HIR/MIR/ADT/impl/capture facts of the workspace crates as JSON lines"},
        {"name": "rules", "path": "rules/", "serves_properties": [c["property_id"] for c in checks],
         "kind_free_text": "Python rule engine: CFG dominance / control dependence / backward slices / call graph / sibling (mirror) comparison / abstract interpretation over the facts"},
    ],
    "checks": checks,
    "notes": "Static analysis only. Every check re-extracts facts from /repo's current working tree (cache keyed by a hash of the sources). "
             "Exit 2 = tree does not build (no verdict). known_findings.json lists genuine defects recorded rather than repaired.",
    "not_applicable": na,
}
json.dump(m, open(os.path.join(VERIF, "MANIFEST.json"), "w"), indent=1)
print("checks:", [c["property_id"] for c in checks], "na:", [n["property_id"] for n in na])

#!/bin/bash
# usage: confirm_seed.sh <seed dir containing patch.diff, demo files, demo_cmd.txt> <name>
# Confirms a seeded change in a scratch worktree of /repo HEAD:
#   suite passes with the change, demo fails with it, demo passes without it.
# Writes <seed dir>/confirm.log and prints a one-line verdict. Removes the worktree afterwards.
SD="$1"; NAME="$2"
WT=/tmp/wt-confirm-$NAME
LOG="$SD/confirm.log"
: > "$LOG"
git -C /repo worktree remove --force "$WT" >/dev/null 2>&1
git -C /repo worktree add -q --detach "$WT" HEAD || { echo "$NAME: cannot create worktree"; exit 2; }
cd "$WT" || exit 2
export CARGO_NET_OFFLINE=true
if ! git apply --check "$SD/patch.diff" 2>>"$LOG"; then
  if ! git apply --3way "$SD/patch.diff" >>"$LOG" 2>&1; then
    echo "$NAME: PATCH-DOES-NOT-APPLY"; cd /; git -C /repo worktree remove --force "$WT"; exit 3
  fi
else
  git apply "$SD/patch.diff"
fi
echo "== suite with change" >>"$LOG"
timeout 1500 cargo test --workspace --no-fail-fast --offline -j 6 >>"$LOG" 2>&1
SUITE=$?
# demo files: every .rs in the seed dir goes to tests/
for f in "$SD"/*.rs; do [ -f "$f" ] && cp "$f" tests/; done
DEMOS=$(for f in "$SD"/*.rs; do [ -f "$f" ] && basename "$f" .rs; done)
FEAT=""
grep -q -- "--features" "$SD/demo_cmd.txt" 2>/dev/null && FEAT=$(grep -o -- "--features[ =][a-z,]*" "$SD/demo_cmd.txt" | head -1)
run_demos() {
  rc=0
  for d in $DEMOS; do
    timeout 1500 cargo test --offline -j 6 $FEAT --test "$d" >>"$LOG" 2>&1 || rc=1
  done
  return $rc
}
echo "== demo with change" >>"$LOG"
run_demos; WITH=$?
git checkout -q -- .
echo "== demo without change" >>"$LOG"
run_demos; WITHOUT=$?
cd /
git -C /repo worktree remove --force "$WT"
echo "$NAME: suite_with_change_rc=$SUITE demo_with_change_rc=$WITH demo_without_change_rc=$WITHOUT" | tee -a "$LOG"

#!/bin/bash
# usage: confirm_seed.sh <seed dir containing patch.diff, demo (*.rs and/or demo.diff), demo_cmd.txt> <name>
# Confirms a seeded change in a scratch worktree of /repo HEAD (or of the commit $SEED_BASE the seed was written against):
#   suite passes with the change, demo fails with it, demo passes without it.
# Writes <seed dir>/confirm.log and prints a one-line verdict. Removes the worktree afterwards.
SD="$1"; NAME="$2"
WT=/tmp/wt-confirm-$NAME
LOG="$SD/confirm.log"
: > "$LOG"
git -C /repo worktree remove --force "$WT" >/dev/null 2>&1
git -C /repo worktree add -q --detach "$WT" "${SEED_BASE:-HEAD}" || { echo "$NAME: cannot create worktree"; exit 2; }
cd "$WT" || exit 2
export CARGO_NET_OFFLINE=true
apply_patch() {
  if git apply --check "$1" 2>>"$LOG"; then git apply "$1"; else git apply --3way "$1" >>"$LOG" 2>&1 || return 1; fi
}
apply_patch "$SD/patch.diff" || { echo "$NAME: PATCH-DOES-NOT-APPLY"; cd /; git -C /repo worktree remove --force "$WT"; exit 3; }
echo "== suite with change" >>"$LOG"
timeout 1500 cargo test --workspace --no-fail-fast --offline -j 6 >>"$LOG" 2>&1
SUITE=$?
git diff > /tmp/$NAME.applied.diff
# demo: integration test files and/or a demo patch
install_demo() {
  for f in "$SD"/*.rs; do [ -f "$f" ] && cp "$f" tests/; done
  if [ -f "$SD/demo.diff" ]; then git apply "$SD/demo.diff" >>"$LOG" 2>&1 || echo "DEMO-DIFF-DOES-NOT-APPLY" >>"$LOG"; fi
}
CMD=$(grep -m1 -E "^\s*cargo " "$SD/demo_cmd.txt" | sed 's/^\s*//')
[ -z "$CMD" ] && CMD=$(grep -m1 -oE "cargo test[^\`]*" "$SD/demo_cmd.txt")
run_demo() { timeout 1500 bash -c "$CMD" >>"$LOG" 2>&1; }
install_demo
echo "== demo with change: $CMD" >>"$LOG"
run_demo; WITH=$?
git checkout -q -- . ; git clean -fdq -e target
install_demo
echo "== demo without change" >>"$LOG"
run_demo; WITHOUT=$?
cd /
git -C /repo worktree remove --force "$WT"
rm -f /tmp/$NAME.applied.diff
echo "$NAME: suite_with_change_rc=$SUITE demo_with_change_rc=$WITH demo_without_change_rc=$WITHOUT cmd=[$CMD]" | tee -a "$LOG"

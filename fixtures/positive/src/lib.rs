//! Positive controls. This crate is *not* nuts-rs; it is compiled with the same extractor so that
//! rules whose expected number of matches on nuts-rs is zero can show on every run that they do match
//! the forbidden construct when it is present. Function names say which rule must report them.
#![allow(dead_code, unused)]

use std::cell::Cell;
use std::collections::{HashMap, HashSet};
use std::sync::atomic::{AtomicU64, Ordering};
use std::sync::Mutex;

// ---- C10-R1: ambient nondeterminism -------------------------------------------------------
pub static COUNTER: AtomicU64 = AtomicU64::new(0); // interior-mutable static
pub static mut RAW: u64 = 0; // static mut
thread_local! { pub static TL: Cell<u64> = Cell::new(0); } // thread local

pub fn c10_clock_seed() -> u64 {
    let t = std::time::SystemTime::now();
    t.duration_since(std::time::UNIX_EPOCH).map(|d| d.as_nanos() as u64).unwrap_or(0)
}

pub fn c10_random_state() -> u64 {
    use std::hash::{BuildHasher, Hasher};
    let s = std::collections::hash_map::RandomState::new();
    s.build_hasher().finish()
}

pub fn c10_instant_into_value() -> u64 {
    let t = std::time::Instant::now();
    t.elapsed().as_nanos() as u64
}

pub fn c10_thread_id() -> String {
    format!("{:?}", std::thread::current().id())
}

pub fn c10_env() -> Option<String> {
    std::env::var("SEED").ok()
}

pub fn c10_counter() -> u64 {
    COUNTER.fetch_add(1, Ordering::SeqCst)
}

// ---- C14-R3 / C10-R4: order-sensitive iteration over a default-hasher map -------------------
pub fn c14_first_of_map(m: &HashMap<String, Vec<u64>>) -> usize {
    // first-wins: depends on hash order
    m.values().next().map(|v| v.len()).unwrap_or(0)
}

pub fn c14_push_in_hash_order(m: &HashMap<String, u64>) -> Vec<u64> {
    let mut out = Vec::new();
    for (_k, v) in m.iter() {
        out.push(*v);
    }
    out
}

pub fn c14_first_wins_filter(m: &HashMap<String, (String, u64)>) -> HashMap<String, u64> {
    let mut seen = HashSet::new();
    let mut out = HashMap::new();
    for (k, (dim, n)) in m.iter() {
        if seen.insert(dim.clone()) {
            out.insert(dim.clone(), *n);
        }
    }
    out
}

// ---- C03-R5: unsafe inventory ----------------------------------------------------------------
pub fn c03_unsafe_block(p: *const u64) -> u64 {
    unsafe { *p }
}

// ---- C11-R2: blocking while a guard is live ---------------------------------------------------
pub fn c11_recv_under_lock(m: &Mutex<u64>, rx: &std::sync::mpsc::Receiver<u64>) -> u64 {
    let g = m.lock().unwrap();
    let v = rx.recv().unwrap_or(0);
    *g + v
}

// ---- C11-R1: lock-order cycle -----------------------------------------------------------------
pub struct A(pub u64);
pub struct B(pub u64);
pub fn c11_lock_ab(a: &Mutex<A>, b: &Mutex<B>) -> u64 {
    let ga = a.lock().unwrap();
    let gb = b.lock().unwrap();
    ga.0 + gb.0
}
pub fn c11_lock_ba(a: &Mutex<A>, b: &Mutex<B>) -> u64 {
    let gb = b.lock().unwrap();
    let ga = a.lock().unwrap();
    ga.0 + gb.0
}

// ---- C11-R6: timing-dependent try_lock ------------------------------------------------------------
pub fn c11_try_lock_skips(m: &Mutex<Option<u64>>) -> Option<u64> {
    let mut g = m.try_lock().ok()?;
    g.take()
}

// ---- C14-R9: writing past a BufWriter ---------------------------------------------------------------
pub fn c14_bufwriter_bypass(w: &mut std::io::BufWriter<std::fs::File>) -> std::io::Result<()> {
    use std::io::Write;
    let mut f = w.get_ref();
    f.write_all(w.buffer())?;
    f.flush()
}

// ---- C15-R6: lexicographic maximum of a pair of counts ------------------------------------------------
pub fn c15_pair_max(a: (u64, u64), b: (u64, u64)) -> (u64, u64) {
    a.max(b)
}

// ---- C05-R11: persistent state moved out of self, not restored on the error path ----------------------
pub struct C05Chain {
    pub state: Vec<f64>,
}

impl C05Chain {
    pub fn c05_state_moved_out(&mut self, f: &dyn Fn(&[f64]) -> Result<f64, String>) -> Result<Vec<f64>, String> {
        let current = std::mem::replace(&mut self.state, Vec::new());
        let v = f(&current)?;
        let mut next = current;
        next.push(v);
        Ok(next)
    }

    pub fn c05_state_moved_out_restored(&mut self, f: &dyn Fn(&[f64]) -> Result<f64, String>) -> Result<(), String> {
        let current = std::mem::replace(&mut self.state, Vec::new());
        let r = f(&current);
        self.state = current;
        let v = r?;
        self.state.push(v);
        Ok(())
    }
}

// ---- C08-R12: narrowing a value of the numeric path to single precision --------------------------------
pub fn c08_narrow(x: f64) -> f32 {
    x as f32
}

// ---- C13-R9: divisions that panic on a zero divisor -------------------------------------------------------
pub fn c13_int_div(total: u64, n: u64) -> u64 {
    total / n
}

pub fn c13_duration_div(d: std::time::Duration, n: u32) -> std::time::Duration {
    d / n
}

pub fn c13_int_div_guarded(total: u64, n: u64) -> u64 {
    if n > 0 { total / n } else { 0 }
}

// ---- C13-R11: float-to-integer conversions that can panic --------------------------------------------------
pub trait ToPrimitive {
    fn to_u64(&self) -> Option<u64>;
}
impl ToPrimitive for f64 {
    fn to_u64(&self) -> Option<u64> {
        if *self >= 0.0 && *self < 1.8e19 { Some(*self as u64) } else { None }
    }
}

pub fn c13_ratio_to_u64_unwrap(target: f64, step: f64) -> u64 {
    (target / step).ceil().to_u64().unwrap()
}

pub fn c13_log2_to_u64_unwrap(steps: u64) -> u64 {
    (steps as f64).log2().floor().to_u64().unwrap()
}

pub fn c13_ratio_to_u64_checked(target: f64, step: f64) -> u64 {
    (target / step).ceil().to_u64().unwrap_or(0)
}

// ---- C13-R13: byte offsets into strings -------------------------------------------------------------------
pub fn c13_string_truncate(mut message: String, n: usize) -> String {
    message.truncate(n);
    message
}

pub fn c13_str_slice(message: &str, n: usize) -> &str {
    &message[..n]
}

pub fn c13_string_truncate_on_boundary(mut message: String, n: usize) -> String {
    let mut end = n.min(message.len());
    while !message.is_char_boundary(end) {
        end -= 1;
    }
    message.truncate(end);
    message
}

// ---- C13-R10: errors collected into an accumulator that nobody reads --------------------------------------
pub fn c13_collected_error_dropped(items: Vec<Result<u32, std::io::Error>>) -> Result<(Option<std::io::Error>, u32), String> {
    let mut first_error = None;
    let mut sum = 0;
    for it in items {
        match it {
            Err(e) => {
                first_error.get_or_insert(e);
            }
            Ok(v) => sum += v,
        }
    }
    Ok((None, sum))
}

pub fn c13_collected_error_returned(items: Vec<Result<u32, std::io::Error>>) -> Result<(Option<std::io::Error>, u32), String> {
    let mut first_error = None;
    let mut sum = 0;
    for it in items {
        match it {
            Err(e) => {
                first_error.get_or_insert(e);
            }
            Ok(v) => sum += v,
        }
    }
    Ok((first_error, sum))
}

// ---- C02-R12: two same-typed values handed down in each other's position --------------------------------
pub fn c02_whiten(position: &[f64], gradient: &[f64], out: &mut [f64]) {
    for ((o, p), g) in out.iter_mut().zip(position).zip(gradient) {
        *o = *p - *g;
    }
}

pub fn c02_swapped_caller(position: &[f64], gradient: &[f64], out: &mut [f64]) {
    c02_whiten(gradient, position, out)
}


// ---- C13-R15 / C05-R14: panicking extraction from the record of a density fault -----------------------------
pub struct DivergenceInfo {
    pub end_location: Option<Box<[f64]>>,
    pub energy_error: Option<f64>,
}

pub fn c13_fault_record_expect(info: Option<&DivergenceInfo>) -> Option<Vec<f64>> {
    info.filter(|d| d.energy_error.is_some()).map(|d| {
        let end = d.end_location.as_ref();
        end.expect("Energy divergence without end point").to_vec()
    })
}

pub fn c13_fault_record_unwrap(d: &DivergenceInfo) -> f64 {
    d.energy_error.unwrap()
}

pub fn c13_fault_record_guarded(d: &DivergenceInfo) -> f64 {
    if d.energy_error.is_some() {
        d.energy_error.unwrap()
    } else {
        0.0
    }
}

pub fn c13_fault_record_total(d: &DivergenceInfo) -> f64 {
    d.energy_error.unwrap_or(f64::NAN)
}

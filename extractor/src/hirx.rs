// HIR export: typed expression tree with resolved paths and method callees.
use crate::json::J;
use crate::{obj, Cx};
use rustc_hir as hir;
use rustc_hir::def::{DefKind, Res};
use rustc_hir::def_id::LocalDefId;
use rustc_middle::ty::{self, TyCtxt, TypeckResults};

struct H<'a, 'tcx> {
    cx: &'a Cx<'tcx>,
    tcx: TyCtxt<'tcx>,
    tc: &'tcx TypeckResults<'tcx>,
}

pub fn hir_json<'tcx>(cx: &Cx<'tcx>, ldid: LocalDefId) -> J {
    let tcx = cx.tcx;
    // closures are exported inline in their parent's tree; still give each its own tree
    let Some(body) = tcx.hir_maybe_body_owned_by(ldid) else {
        return J::Null;
    };
    let tc = tcx.typeck(ldid);
    let h = H { cx, tcx, tc };
    let params: Vec<J> = body.params.iter().map(|p| h.pat(p.pat)).collect();
    obj! {"params": J::Arr(params), "value": h.expr(body.value)}
}

fn hid(id: hir::HirId) -> J {
    J::s(format!("{}.{}", id.owner.def_id.local_def_index.as_u32(), id.local_id.as_u32()))
}

impl<'a, 'tcx> H<'a, 'tcx> {
    fn res(&self, res: Res) -> J {
        match res {
            Res::Local(id) => {
                let name = self.tcx.hir_name(id).to_string();
                obj! {"local": hid(id), "name": J::s(name)}
            }
            Res::Def(kind, did) => {
                let mut v: Vec<(&'static str, J)> = vec![
                    ("def", J::s(self.cx.path(did))),
                    ("dk", J::s(format!("{:?}", kind))),
                    ("name", J::s(self.cx.name(did))),
                ];
                // variant / ctor -> the enum / struct
                match kind {
                    DefKind::Ctor(..) => {
                        let p = self.tcx.parent(did);
                        v.push(("ctor_of", J::s(self.cx.path(p))));
                        if self.tcx.def_kind(p) == DefKind::Variant {
                            v.push(("enum", J::s(self.cx.path(self.tcx.parent(p)))));
                        }
                    }
                    DefKind::Variant => {
                        v.push(("enum", J::s(self.cx.path(self.tcx.parent(did)))));
                    }
                    DefKind::AssocFn | DefKind::AssocConst { .. } => {
                        let p = self.tcx.parent(did);
                        if self.tcx.def_kind(p) == DefKind::Trait {
                            v.push(("trait", J::s(self.cx.path(p))));
                        }
                    }
                    _ => {}
                }
                J::Obj(v)
            }
            Res::SelfCtor(did) => obj! {"selfctor": J::s(self.cx.path(did))},
            Res::SelfTyAlias { alias_to, .. } => obj! {"selfty": J::s(self.cx.path(alias_to))},
            Res::SelfTyParam { .. } => obj! {"selfty": J::s("Self")},
            Res::PrimTy(p) => obj! {"prim": J::s(p.name_str())},
            other => obj! {"res": J::s(format!("{:?}", other))},
        }
    }

    fn qpath(&self, qp: &hir::QPath<'tcx>, id: hir::HirId) -> J {
        let res = self.tc.qpath_res(qp, id);
        let mut j = self.res(res);
        if let J::Obj(v) = &mut j {
            if let Some(args) = self.tc.node_args_opt(id) {
                v.push((
                    "gargs",
                    J::Arr(args.iter().map(|a| J::s(a.to_string())).collect()),
                ));
            }
            // source text of path segments (for diagnostics only)
            let segs = match qp {
                hir::QPath::Resolved(_, p) => {
                    p.segments.iter().map(|s| s.ident.to_string()).collect::<Vec<_>>()
                }
                hir::QPath::TypeRelative(_, seg) => vec![seg.ident.to_string()],
            };
            v.push(("segs", J::s(segs.join("::"))));
        }
        j
    }

    fn lit(&self, l: &hir::Lit) -> J {
        use rustc_ast::LitKind;
        match &l.node {
            LitKind::Str(s, _) => obj! {"lk": J::s("str"), "v": J::s(s.to_string())},
            LitKind::Int(n, _) => obj! {"lk": J::s("int"), "v": J::s(n.get().to_string())},
            LitKind::Float(s, _) => {
                // normalise the textual float
                let txt = s.to_string().replace('_', "");
                let val = txt.trim_end_matches("f64").trim_end_matches("f32").parse::<f64>();
                match val {
                    Ok(f) => obj! {"lk": J::s("float"), "v": J::s(format!("{:?}", f))},
                    Err(_) => obj! {"lk": J::s("float"), "v": J::s(txt)},
                }
            }
            LitKind::Bool(b) => obj! {"lk": J::s("bool"), "v": J::s(b.to_string())},
            LitKind::Char(c) => obj! {"lk": J::s("char"), "v": J::s(c.to_string())},
            other => obj! {"lk": J::s("other"), "v": J::s(format!("{:?}", other))},
        }
    }

    fn block(&self, b: &hir::Block<'tcx>) -> J {
        let mut stmts = vec![];
        for s in b.stmts {
            match &s.kind {
                hir::StmtKind::Let(l) => {
                    stmts.push(obj! {
                        "k": J::s("Let"),
                        "pat": self.pat(l.pat),
                        "init": match l.init { Some(e) => self.expr(e), None => J::Null },
                        "els": match l.els { Some(b) => self.block(b), None => J::Null },
                        "src": J::s(format!("{:?}", l.source)),
                        "span": self.cx.span(l.span),
                    });
                }
                hir::StmtKind::Item(_) => {}
                hir::StmtKind::Expr(e) => {
                    stmts.push(obj! {"k": J::s("ExprStmt"), "e": self.expr(e)});
                }
                hir::StmtKind::Semi(e) => {
                    stmts.push(obj! {"k": J::s("Semi"), "e": self.expr(e)});
                }
            }
        }
        obj! {
            "k": J::s("Block"),
            "stmts": J::Arr(stmts),
            "expr": match b.expr { Some(e) => self.expr(e), None => J::Null },
            "unsafe": J::Bool(!matches!(b.rules, hir::BlockCheckMode::DefaultBlock)),
            "span": self.cx.span(b.span),
        }
    }

    fn pat_expr(&self, pe: &hir::PatExpr<'tcx>) -> J {
        match &pe.kind {
            hir::PatExprKind::Lit { lit, negated } => {
                obj! {"k": J::s("PLit"), "lit": self.lit(lit), "neg": J::Bool(*negated)}
            }
            hir::PatExprKind::Path(qp) => {
                obj! {"k": J::s("PPath"), "res": self.qpath(qp, pe.hir_id)}
            }
        }
    }

    fn pat(&self, p: &hir::Pat<'tcx>) -> J {
        let ty = self.tc.pat_ty(p);
        let mut v: Vec<(&'static str, J)> = vec![];
        match &p.kind {
            hir::PatKind::Wild => v.push(("k", J::s("Wild"))),
            hir::PatKind::Missing => v.push(("k", J::s("Wild"))),
            hir::PatKind::Never => v.push(("k", J::s("Never"))),
            hir::PatKind::Binding(mode, id, ident, sub) => {
                v.push(("k", J::s("Binding")));
                v.push(("id", hid(*id)));
                v.push(("name", J::s(ident.to_string())));
                v.push(("mode", J::s(format!("{:?}", mode))));
                if let Some(s) = sub {
                    v.push(("sub", self.pat(s)));
                }
            }
            hir::PatKind::Struct(qp, fields, rest) => {
                v.push(("k", J::s("Struct")));
                v.push(("res", self.qpath(qp, p.hir_id)));
                let fs: Vec<J> = fields
                    .iter()
                    .map(|f| obj! {"name": J::s(f.ident.to_string()), "pat": self.pat(f.pat)})
                    .collect();
                v.push(("fields", J::Arr(fs)));
                v.push(("rest", J::Bool(rest.is_some())));
            }
            hir::PatKind::TupleStruct(qp, pats, dd) => {
                v.push(("k", J::s("TupleStruct")));
                v.push(("res", self.qpath(qp, p.hir_id)));
                v.push(("pats", J::Arr(pats.iter().map(|x| self.pat(x)).collect())));
                v.push(("dd", match dd.as_opt_usize() { Some(n) => J::Int(n as i128), None => J::Null }));
            }
            hir::PatKind::Or(pats) => {
                v.push(("k", J::s("Or")));
                v.push(("pats", J::Arr(pats.iter().map(|x| self.pat(x)).collect())));
            }
            hir::PatKind::Tuple(pats, dd) => {
                v.push(("k", J::s("Tuple")));
                v.push(("pats", J::Arr(pats.iter().map(|x| self.pat(x)).collect())));
                v.push(("dd", match dd.as_opt_usize() { Some(n) => J::Int(n as i128), None => J::Null }));
            }
            hir::PatKind::Box(x) => {
                v.push(("k", J::s("Box")));
                v.push(("pat", self.pat(x)));
            }
            hir::PatKind::Deref(x) => {
                v.push(("k", J::s("Deref")));
                v.push(("pat", self.pat(x)));
            }
            hir::PatKind::Ref(x, _, m) => {
                v.push(("k", J::s("Ref")));
                v.push(("mut", J::Bool(m.is_mut())));
                v.push(("pat", self.pat(x)));
            }
            hir::PatKind::Expr(pe) => {
                v.push(("k", J::s("PExpr")));
                v.push(("e", self.pat_expr(pe)));
            }
            hir::PatKind::Guard(x, e) => {
                v.push(("k", J::s("Guard")));
                v.push(("pat", self.pat(x)));
                v.push(("cond", self.expr(e)));
            }
            hir::PatKind::Range(lo, hi, end) => {
                v.push(("k", J::s("Range")));
                v.push(("lo", match lo { Some(x) => self.pat_expr(x), None => J::Null }));
                v.push(("hi", match hi { Some(x) => self.pat_expr(x), None => J::Null }));
                v.push(("end", J::s(format!("{:?}", end))));
            }
            hir::PatKind::Slice(a, m, b) => {
                v.push(("k", J::s("Slice")));
                v.push(("before", J::Arr(a.iter().map(|x| self.pat(x)).collect())));
                v.push(("mid", match m { Some(x) => self.pat(x), None => J::Null }));
                v.push(("after", J::Arr(b.iter().map(|x| self.pat(x)).collect())));
            }
            hir::PatKind::Err(_) => v.push(("k", J::s("Err"))),
        }
        v.push(("ty", self.cx.ty(ty)));
        J::Obj(v)
    }

    fn exprs(&self, es: &[hir::Expr<'tcx>]) -> J {
        J::Arr(es.iter().map(|e| self.expr(e)).collect())
    }

    fn expr(&self, e: &hir::Expr<'tcx>) -> J {
        let mut v: Vec<(&'static str, J)> = vec![];
        match &e.kind {
            hir::ExprKind::ConstBlock(_) => v.push(("k", J::s("ConstBlock"))),
            hir::ExprKind::Array(es) => {
                v.push(("k", J::s("Array")));
                v.push(("es", self.exprs(es)));
            }
            hir::ExprKind::Call(f, args) => {
                v.push(("k", J::s("Call")));
                v.push(("f", self.expr(f)));
                v.push(("args", self.exprs(args)));
                // overloaded call through Fn* traits
                if let Some(d) = self.tc.type_dependent_def_id(e.hir_id) {
                    v.push(("callee", J::s(self.cx.path(d))));
                }
            }
            hir::ExprKind::MethodCall(seg, recv, args, _) => {
                v.push(("k", J::s("MethodCall")));
                v.push(("method", J::s(seg.ident.to_string())));
                if let Some(d) = self.tc.type_dependent_def_id(e.hir_id) {
                    v.push(("callee", J::s(self.cx.path(d))));
                    if let Some(p) = self.tcx.opt_parent(d) {
                        match self.tcx.def_kind(p) {
                            DefKind::Trait => v.push(("trait", J::s(self.cx.path(p)))),
                            DefKind::Impl { .. } => {
                                let st = self.tcx.type_of(p).instantiate_identity().skip_norm_wip();
                                v.push(("impl_self_adt", self.cx.ty_adt(st)));
                            }
                            _ => {}
                        }
                    }
                }
                if let Some(args) = self.tc.node_args_opt(e.hir_id) {
                    v.push((
                        "gargs",
                        J::Arr(args.iter().map(|a| J::s(a.to_string())).collect()),
                    ));
                }
                v.push(("recv", self.expr(recv)));
                v.push(("recv_ty", self.cx.ty(self.tc.expr_ty_adjusted(recv))));
                v.push(("recv_adt", self.cx.ty_adt(self.tc.expr_ty_adjusted(recv))));
                v.push(("args", self.exprs(args)));
            }
            hir::ExprKind::Use(x, _) => {
                v.push(("k", J::s("Use")));
                v.push(("e", self.expr(x)));
            }
            hir::ExprKind::Tup(es) => {
                v.push(("k", J::s("Tup")));
                v.push(("es", self.exprs(es)));
            }
            hir::ExprKind::Binary(op, a, b) => {
                v.push(("k", J::s("Binary")));
                v.push(("op", J::s(op.node.as_str())));
                v.push(("a", self.expr(a)));
                v.push(("b", self.expr(b)));
                if let Some(d) = self.tc.type_dependent_def_id(e.hir_id) {
                    v.push(("callee", J::s(self.cx.path(d))));
                }
            }
            hir::ExprKind::Unary(op, a) => {
                v.push(("k", J::s("Unary")));
                v.push(("op", J::s(op.as_str())));
                v.push(("a", self.expr(a)));
                if let Some(d) = self.tc.type_dependent_def_id(e.hir_id) {
                    v.push(("callee", J::s(self.cx.path(d))));
                }
            }
            hir::ExprKind::Lit(l) => {
                v.push(("k", J::s("Lit")));
                v.push(("lit", self.lit(l)));
            }
            hir::ExprKind::Cast(x, _) => {
                v.push(("k", J::s("Cast")));
                v.push(("e", self.expr(x)));
            }
            hir::ExprKind::Type(x, _) => {
                v.push(("k", J::s("Type")));
                v.push(("e", self.expr(x)));
            }
            hir::ExprKind::DropTemps(x) => {
                // transparent
                return self.expr(x);
            }
            hir::ExprKind::Let(l) => {
                v.push(("k", J::s("LetExpr")));
                v.push(("pat", self.pat(l.pat)));
                v.push(("init", self.expr(l.init)));
            }
            hir::ExprKind::If(c, t, el) => {
                v.push(("k", J::s("If")));
                v.push(("cond", self.expr(c)));
                v.push(("then", self.expr(t)));
                v.push(("else", match el { Some(x) => self.expr(x), None => J::Null }));
            }
            hir::ExprKind::Loop(b, label, src, _) => {
                v.push(("k", J::s("Loop")));
                v.push(("src", J::s(format!("{:?}", src))));
                v.push(("label", match label { Some(l) => J::s(l.ident.to_string()), None => J::Null }));
                v.push(("id", hid(e.hir_id)));
                v.push(("body", self.block(b)));
            }
            hir::ExprKind::Match(scrut, arms, src) => {
                v.push(("k", J::s("Match")));
                v.push(("src", J::s(format!("{:?}", src))));
                v.push(("scrut", self.expr(scrut)));
                v.push(("scrut_ty", self.cx.ty(self.tc.expr_ty(scrut))));
                v.push(("scrut_adt", self.cx.ty_adt(self.tc.expr_ty(scrut))));
                let arms_j: Vec<J> = arms
                    .iter()
                    .map(|a| {
                        obj! {
                            "pat": self.pat(a.pat),
                            "guard": match a.guard { Some(g) => self.expr(g), None => J::Null },
                            "body": self.expr(a.body),
                            "span": self.cx.span(a.span),
                        }
                    })
                    .collect();
                v.push(("arms", J::Arr(arms_j)));
            }
            hir::ExprKind::Closure(c) => {
                v.push(("k", J::s("Closure")));
                v.push(("def", J::s(self.cx.path(c.def_id.to_def_id()))));
                // inline the closure body, typed with the closure's own typeck results
                let body = self.tcx.hir_body(c.body);
                let tc = self.tcx.typeck(c.def_id);
                let h = H { cx: self.cx, tcx: self.tcx, tc };
                v.push(("params", J::Arr(body.params.iter().map(|p| h.pat(p.pat)).collect())));
                v.push(("body", h.expr(body.value)));
            }
            hir::ExprKind::Block(b, label) => {
                let mut j = self.block(b);
                if let J::Obj(bv) = &mut j {
                    bv.push(("ty", self.cx.ty(self.tc.expr_ty(e))));
                    if let Some(l) = label {
                        bv.push(("label", J::s(l.ident.to_string())));
                        bv.push(("id", hid(e.hir_id)));
                    }
                }
                return j;
            }
            hir::ExprKind::Assign(l, r, _) => {
                v.push(("k", J::s("Assign")));
                v.push(("l", self.expr(l)));
                v.push(("r", self.expr(r)));
            }
            hir::ExprKind::AssignOp(op, l, r) => {
                v.push(("k", J::s("AssignOp")));
                v.push(("op", J::s(op.node.as_str())));
                v.push(("l", self.expr(l)));
                v.push(("r", self.expr(r)));
                if let Some(d) = self.tc.type_dependent_def_id(e.hir_id) {
                    v.push(("callee", J::s(self.cx.path(d))));
                }
            }
            hir::ExprKind::Field(x, ident) => {
                v.push(("k", J::s("Field")));
                v.push(("name", J::s(ident.to_string())));
                v.push(("e", self.expr(x)));
                v.push(("of_adt", self.cx.ty_adt(self.tc.expr_ty_adjusted(x))));
            }
            hir::ExprKind::Index(x, i, _) => {
                v.push(("k", J::s("Index")));
                v.push(("e", self.expr(x)));
                v.push(("i", self.expr(i)));
            }
            hir::ExprKind::Path(qp) => {
                v.push(("k", J::s("Path")));
                v.push(("res", self.qpath(qp, e.hir_id)));
            }
            hir::ExprKind::AddrOf(_, m, x) => {
                v.push(("k", J::s("AddrOf")));
                v.push(("mut", J::Bool(m.is_mut())));
                v.push(("e", self.expr(x)));
            }
            hir::ExprKind::Break(dest, x) => {
                v.push(("k", J::s("Break")));
                v.push(("target", match dest.target_id { Ok(id) => hid(id), Err(_) => J::Null }));
                v.push(("e", match x { Some(x) => self.expr(x), None => J::Null }));
            }
            hir::ExprKind::Continue(dest) => {
                v.push(("k", J::s("Continue")));
                v.push(("target", match dest.target_id { Ok(id) => hid(id), Err(_) => J::Null }));
            }
            hir::ExprKind::Ret(x) => {
                v.push(("k", J::s("Ret")));
                v.push(("e", match x { Some(x) => self.expr(x), None => J::Null }));
            }
            hir::ExprKind::Struct(qp, fields, tail) => {
                v.push(("k", J::s("Struct")));
                v.push(("res", self.qpath(qp, e.hir_id)));
                v.push(("adt", self.cx.ty_adt(self.tc.expr_ty(e))));
                let fs: Vec<J> = fields
                    .iter()
                    .map(|f| obj! {"name": J::s(f.ident.to_string()), "e": self.expr(f.expr), "shorthand": J::Bool(f.is_shorthand)})
                    .collect();
                v.push(("fields", J::Arr(fs)));
                match tail {
                    hir::StructTailExpr::Base(b) => v.push(("base", self.expr(b))),
                    _ => v.push(("base", J::Null)),
                }
            }
            hir::ExprKind::Repeat(x, _) => {
                v.push(("k", J::s("Repeat")));
                v.push(("e", self.expr(x)));
            }
            hir::ExprKind::Yield(x, _) => {
                v.push(("k", J::s("Yield")));
                v.push(("e", self.expr(x)));
            }
            hir::ExprKind::Become(x) => {
                v.push(("k", J::s("Become")));
                v.push(("e", self.expr(x)));
            }
            hir::ExprKind::InlineAsm(_) => v.push(("k", J::s("InlineAsm"))),
            hir::ExprKind::OffsetOf(..) => v.push(("k", J::s("OffsetOf"))),
            hir::ExprKind::UnsafeBinderCast(_, x, _) => {
                v.push(("k", J::s("UnsafeBinderCast")));
                v.push(("e", self.expr(x)));
            }
            hir::ExprKind::Err(_) => v.push(("k", J::s("Err"))),
        }
        v.push(("ty", self.cx.ty(self.tc.expr_ty(e))));
        v.push(("span", self.cx.span(e.span)));
        // auto-deref / overloaded adjustments matter for Deref-based access (e.g. Rc)
        let adj = self.tc.expr_adjustments(e);
        if !adj.is_empty() {
            let mut over = vec![];
            for a in adj {
                if let ty::adjustment::Adjust::Deref(ty::adjustment::DerefAdjustKind::Overloaded(_)) = a.kind {
                    over.push(J::s(a.target.to_string()));
                }
            }
            if !over.is_empty() {
                v.push(("overloaded_deref", J::Arr(over)));
            }
        }
        J::Obj(v)
    }
}

#![feature(rustc_private)]
#![allow(clippy::all)]

extern crate rustc_abi;
extern crate rustc_ast;
extern crate rustc_data_structures;
extern crate rustc_driver;
extern crate rustc_hir;
extern crate rustc_interface;
extern crate rustc_middle;
extern crate rustc_session;
extern crate rustc_span;

mod json;
mod hirx;
mod mirx;

use json::J;
use rustc_driver::Compilation;
use rustc_hir as hir;
use rustc_hir::def::DefKind;
use rustc_hir::def_id::{DefId, LocalDefId};
use rustc_middle::ty::{self, TyCtxt};
use rustc_span::Span;
use std::io::Write;

pub struct Cx<'tcx> {
    pub tcx: TyCtxt<'tcx>,
}

impl<'tcx> Cx<'tcx> {
    pub fn path(&self, did: DefId) -> String {
        self.tcx.def_path_str(did)
    }
    /// item name that never ICEs (anon consts, closures, impls have none)
    pub fn name(&self, did: DefId) -> String {
        cx_name(self.tcx, did)
    }
    pub fn span(&self, sp: Span) -> J {
        let sm = self.tcx.sess.source_map();
        let exp = sp.from_expansion();
        // outermost call site so that macro-generated code points into the crate
        let sp2 = sp.source_callsite();
        let lo = sm.lookup_char_pos(sp2.lo());
        let hi = sm.lookup_char_pos(sp2.hi());
        let file = match &lo.file.name {
            rustc_span::FileName::Real(r) => match r.local_path() {
                Some(p) => p.to_string_lossy().to_string(),
                None => format!("{:?}", r),
            },
            other => format!("{:?}", other),
        };
        let mut v = vec![
            ("file", J::s(file)),
            ("line", J::Int(lo.line as i128)),
            ("col", J::Int(lo.col.0 as i128)),
            ("hi_line", J::Int(hi.line as i128)),
            ("hi_col", J::Int(hi.col.0 as i128)),
            ("exp", J::Bool(exp)),
        ];
        if exp {
            let ed = sp.ctxt().outer_expn_data();
            v.push(("macro", J::s(format!("{:?}", ed.kind))));
            if let Some(m) = ed.macro_def_id {
                v.push(("macro_def", J::s(self.path(m))));
                v.push(("macro_local", J::Bool(m.is_local())));
            }
        }
        J::Obj(v)
    }
    pub fn ty(&self, t: ty::Ty<'tcx>) -> J {
        J::s(t.to_string())
    }
    /// def path of the ADT obtained by peeling references / raw pointers
    pub fn ty_adt(&self, t: ty::Ty<'tcx>) -> J {
        let mut t = t;
        loop {
            match t.kind() {
                ty::Ref(_, inner, _) => t = *inner,
                ty::RawPtr(inner, _) => t = *inner,
                _ => break,
            }
        }
        match t.kind() {
            ty::Adt(def, _) => J::s(self.path(def.did())),
            ty::Closure(did, _) => J::s(self.path(*did)),
            _ => J::Null,
        }
    }
    pub fn attrs(&self, hir_id: hir::HirId) -> J {
        let mut out = vec![];
        for a in self.tcx.hir_attrs(hir_id) {
            match a {
                hir::Attribute::Unparsed(item) => {
                    let p: Vec<String> =
                        item.path.segments.iter().map(|s| s.to_string()).collect();
                    out.push(obj! {"path": J::s(p.join("::")), "text": J::s(format!("{:?}", item.args))});
                }
                hir::Attribute::Parsed(p) => {
                    let s = format!("{:?}", p);
                    // doc comments are noise
                    if s.starts_with("DocComment") {
                        continue;
                    }
                    let head: String = s.chars().take(160).collect();
                    out.push(obj! {"parsed": J::s(head)});
                }
            }
        }
        J::Arr(out)
    }
}

pub fn cx_name<'tcx>(tcx: TyCtxt<'tcx>, did: DefId) -> String {
    match tcx.opt_item_name(did) {
        Some(s) => s.to_string(),
        None => "_".to_string(),
    }
}

struct Cb {
    out_dir: String,
}

impl rustc_driver::Callbacks for Cb {
    fn after_analysis<'tcx>(
        &mut self,
        _compiler: &rustc_interface::interface::Compiler,
        tcx: TyCtxt<'tcx>,
    ) -> Compilation {
        let crate_name = tcx.crate_name(rustc_hir::def_id::LOCAL_CRATE).to_string();
        let mut lines: Vec<String> = Vec::new();
        ty::print::with_no_trimmed_paths!({
            let cx = Cx { tcx };
            extract(&cx, &crate_name, &mut lines);
        });
        let mut buf = String::new();
        for l in &lines {
            buf.push_str(l);
            buf.push('\n');
        }
        let path = format!("{}/{}.facts.jsonl", self.out_dir, crate_name);
        let tmp = format!("{}.tmp.{}", path, std::process::id());
        let mut f = std::fs::File::create(&tmp).expect("create facts file");
        f.write_all(buf.as_bytes()).expect("write facts");
        drop(f);
        std::fs::rename(&tmp, &path).expect("rename facts");
        Compilation::Continue
    }
}

fn push(lines: &mut Vec<String>, j: J) {
    let mut s = String::new();
    j.write(&mut s);
    lines.push(s);
}

fn extract<'tcx>(cx: &Cx<'tcx>, crate_name: &str, lines: &mut Vec<String>) {
    let tcx = cx.tcx;
    let mut cfgs: Vec<String> = tcx
        .sess
        .config
        .iter()
        .filter_map(|(k, v)| {
            if k.as_str() == "feature" {
                v.map(|v| v.to_string())
            } else {
                None
            }
        })
        .collect();
    cfgs.sort();
    push(
        lines,
        obj! {"k": J::s("crate"), "name": J::s(crate_name), "features": J::Arr(cfgs.into_iter().map(J::s).collect())},
    );

    // items: adts, impls, traits, statics
    for id in tcx.hir_free_items() {
        let item = tcx.hir_item(id);
        let did = item.owner_id.to_def_id();
        match &item.kind {
            hir::ItemKind::Struct(..) | hir::ItemKind::Enum(..) | hir::ItemKind::Union(..) => {
                let adt = tcx.adt_def(did);
                let mut variants = vec![];
                for v in adt.variants() {
                    let mut fields = vec![];
                    for f in v.fields.iter() {
                        let fty = tcx.type_of(f.did).instantiate_identity().skip_norm_wip();
                        let attrs = match f.did.as_local() {
                            Some(l) => cx.attrs(tcx.local_def_id_to_hir_id(l)),
                            None => J::Arr(vec![]),
                        };
                        fields.push(obj! {
                            "name": J::s(f.name.to_string()),
                            "ty": cx.ty(fty),
                            "adt": cx.ty_adt(fty),
                            "pub": J::Bool(f.vis.is_public()),
                            "attrs": attrs,
                        });
                    }
                    let vattrs = match v.def_id.as_local() {
                        Some(l) => cx.attrs(tcx.local_def_id_to_hir_id(l)),
                        None => J::Arr(vec![]),
                    };
                    variants.push(obj! {
                        "name": J::s(v.name.to_string()),
                        "fields": J::Arr(fields),
                        "attrs": vattrs,
                    });
                }
                let generics: Vec<J> = tcx
                    .generics_of(did)
                    .own_params
                    .iter()
                    .map(|p| J::s(p.name.to_string()))
                    .collect();
                push(
                    lines,
                    obj! {
                        "k": J::s("adt"),
                        "path": J::s(cx.path(did)),
                        "kind": J::s(if adt.is_enum() {"enum"} else if adt.is_union() {"union"} else {"struct"}),
                        "variants": J::Arr(variants),
                        "generics": J::Arr(generics),
                        "attrs": cx.attrs(item.hir_id()),
                        "pub": J::Bool(tcx.visibility(did).is_public()),
                        "span": cx.span(item.span),
                    },
                );
            }
            hir::ItemKind::Impl(imp) => {
                let trait_ref = tcx.impl_opt_trait_ref(did);
                let (tr, tr_args) = match trait_ref {
                    Some(t) => {
                        let t = t.instantiate_identity().skip_norm_wip();
                        (
                            J::s(cx.path(t.def_id)),
                            J::Arr(t.args.iter().map(|a| J::s(a.to_string())).collect()),
                        )
                    }
                    None => (J::Null, J::Arr(vec![])),
                };
                let self_ty = tcx.type_of(did).instantiate_identity().skip_norm_wip();
                let items: Vec<J> = imp
                    .items
                    .iter()
                    .map(|r| {
                        let d = r.owner_id.to_def_id();
                        obj! {"path": J::s(cx.path(d)), "name": J::s(cx.name(d)), "kind": J::s(format!("{:?}", tcx.def_kind(d)))}
                    })
                    .collect();
                let generics: Vec<J> = tcx
                    .generics_of(did)
                    .own_params
                    .iter()
                    .map(|p| J::s(p.name.to_string()))
                    .collect();
                push(
                    lines,
                    obj! {
                        "k": J::s("impl"),
                        "path": J::s(cx.path(did)),
                        "trait": tr,
                        "trait_args": tr_args,
                        "self_ty": cx.ty(self_ty),
                        "self_adt": cx.ty_adt(self_ty),
                        "items": J::Arr(items),
                        "generics": J::Arr(generics),
                        "derived": J::Bool(item.span.from_expansion()),
                        "attrs": cx.attrs(item.hir_id()),
                        "span": cx.span(item.span),
                    },
                );
            }
            hir::ItemKind::Trait { .. } => {
                let mut items = vec![];
                for ai in tcx.associated_items(did).in_definition_order() {
                    let (inputs, output) = if matches!(ai.kind, ty::AssocKind::Fn { .. }) {
                        let sig = tcx.fn_sig(ai.def_id).instantiate_identity().skip_norm_wip().skip_binder();
                        (
                            J::Arr(sig.inputs().iter().map(|t| cx.ty(*t)).collect()),
                            cx.ty(sig.output()),
                        )
                    } else {
                        (J::Null, J::Null)
                    };
                    items.push(obj! {
                        "path": J::s(cx.path(ai.def_id)),
                        "name": J::s(ai.name().to_string()),
                        "kind": J::s(format!("{:?}", ai.kind)),
                        "has_default": J::Bool(ai.defaultness(tcx).has_value()),
                        "inputs": inputs,
                        "output": output,
                    });
                }
                push(
                    lines,
                    obj! {"k": J::s("trait"), "path": J::s(cx.path(did)), "items": J::Arr(items), "span": cx.span(item.span)},
                );
            }
            hir::ItemKind::Static(..) => {
                let t = tcx.type_of(did).instantiate_identity().skip_norm_wip();
                let env = ty::TypingEnv::post_analysis(tcx, did);
                push(
                    lines,
                    obj! {
                        "k": J::s("static"),
                        "path": J::s(cx.path(did)),
                        "ty": cx.ty(t),
                        "mutable": J::Bool(tcx.is_mutable_static(did)),
                        "thread_local": J::Bool(tcx.is_thread_local_static(did)),
                        "freeze": J::Bool(t.is_freeze(tcx, env)),
                        "span": cx.span(item.span),
                    },
                );
            }
            hir::ItemKind::Const(..) => {
                let t = tcx.type_of(did).instantiate_identity().skip_norm_wip();
                push(
                    lines,
                    obj! {"k": J::s("const"), "path": J::s(cx.path(did)), "ty": cx.ty(t), "span": cx.span(item.span)},
                );
            }
            _ => {}
        }
    }

    // bodies
    for ldid in tcx.hir_body_owners() {
        let did = ldid.to_def_id();
        let dk = tcx.def_kind(did);
        let kind = match dk {
            DefKind::Fn => "fn",
            DefKind::AssocFn => "method",
            DefKind::Closure => "closure",
            _ => continue,
        };
        if tcx.is_constructor(did) {
            continue;
        }
        let body_j = body_record(cx, ldid, kind);
        push(lines, body_j);
    }

    // concrete Stats type of every `Settings` impl (assoc-type normalisation)
    settings_stats(cx, lines);
}

fn parent_info<'tcx>(cx: &Cx<'tcx>, did: DefId) -> J {
    let tcx = cx.tcx;
    // walk up through closures to the enclosing fn
    let mut cur = did;
    while tcx.def_kind(cur) == DefKind::Closure {
        cur = tcx.parent(cur);
    }
    let parent = tcx.parent(cur);
    match tcx.def_kind(parent) {
        DefKind::Impl { of_trait } => {
            let self_ty = tcx.type_of(parent).instantiate_identity().skip_norm_wip();
            let tr = if of_trait {
                let t = tcx.impl_trait_ref(parent).instantiate_identity().skip_norm_wip();
                J::s(cx.path(t.def_id))
            } else {
                J::Null
            };
            obj! {"kind": J::s("impl"), "impl": J::s(cx.path(parent)), "trait": tr, "self_ty": cx.ty(self_ty), "self_adt": cx.ty_adt(self_ty), "fn": J::s(cx.path(cur)), "fn_name": J::s(cx.name(cur))}
        }
        DefKind::Trait => {
            obj! {"kind": J::s("trait"), "trait": J::s(cx.path(parent)), "fn": J::s(cx.path(cur)), "fn_name": J::s(cx.name(cur))}
        }
        _ => {
            obj! {"kind": J::s("free"), "fn": J::s(cx.path(cur)), "fn_name": J::s(cx.name(cur))}
        }
    }
}

fn body_record<'tcx>(cx: &Cx<'tcx>, ldid: LocalDefId, kind: &str) -> J {
    let tcx = cx.tcx;
    let did = ldid.to_def_id();
    let mut rec: Vec<(&'static str, J)> = vec![
        ("k", J::s("body")),
        ("path", J::s(cx.path(did))),
        ("kind", J::s(kind)),
        ("parent", parent_info(cx, did)),
        ("span", cx.span(tcx.def_span(did))),
    ];
    if kind != "closure" {
        rec.push(("pub", J::Bool(tcx.visibility(did).is_public())));
        let sig = tcx.fn_sig(did).instantiate_identity().skip_norm_wip().skip_binder();
        rec.push((
            "inputs",
            J::Arr(sig.inputs().iter().map(|t| cx.ty(*t)).collect()),
        ));
        rec.push(("output", cx.ty(sig.output())));
        rec.push((
            "safety",
            J::s(format!("{:?}", sig.safety())),
        ));
    } else {
        // captures
        let mut caps = vec![];
        for c in tcx.closure_captures(ldid) {
            caps.push(obj! {
                "place": J::s(c.to_string(tcx)),
                "ty": cx.ty(c.place.ty()),
                "adt": cx.ty_adt(c.place.ty()),
                "by": J::s(format!("{:?}", c.info.capture_kind)),
                "var": J::s(c.var_ident.to_string()),
            });
        }
        rec.push(("captures", J::Arr(caps)));
    }
    rec.push(("mir", mirx::mir_json(cx, ldid)));
    rec.push(("hir", hirx::hir_json(cx, ldid)));
    J::Obj(rec)
}

fn settings_stats<'tcx>(cx: &Cx<'tcx>, lines: &mut Vec<String>) {
    let tcx = cx.tcx;
    // find the trait named `Settings` and `SamplerStats` in the local crate
    let mut settings_trait = None;
    let mut stats_assoc = None;
    for id in tcx.hir_free_items() {
        let item = tcx.hir_item(id);
        if let hir::ItemKind::Trait { .. } = item.kind {
            let did = item.owner_id.to_def_id();
            let name = cx_name(tcx, did);
            if name == "Settings" {
                settings_trait = Some(did);
            }
            if name == "SamplerStats" {
                for ai in tcx.associated_items(did).in_definition_order() {
                    if ai.name().as_str() == "Stats" {
                        stats_assoc = Some(ai.def_id);
                    }
                }
            }
        }
    }
    let (Some(st), Some(stats_assoc)) = (settings_trait, stats_assoc) else {
        return;
    };
    for (tr, impls) in tcx.all_local_trait_impls(()).iter() {
        if *tr != st {
            continue;
        }
        for imp in impls {
            let imp_did = imp.to_def_id();
            let self_ty = tcx.type_of(imp_did).instantiate_identity().skip_norm_wip();
            // find new_chain
            for ai in tcx.associated_items(imp_did).in_definition_order() {
                if ai.name().as_str() != "new_chain" {
                    continue;
                }
                let f = ai.def_id;
                let sig = tcx.fn_sig(f).instantiate_identity().skip_norm_wip();
                let out = sig.output().skip_binder();
                let env = ty::TypingEnv::post_analysis(tcx, f);
                let chain_ty = tcx
                    .try_normalize_erasing_regions(env, ty::Unnormalized::new_wip(out))
                    .unwrap_or(out);
                // M = first type param of new_chain
                let ids = ty::GenericArgs::identity_for_item(tcx, f);
                // the type parameter of new_chain that is bound by `Math` = first own type param
                let gens = tcx.generics_of(f);
                let m_ty = gens
                    .own_params
                    .iter()
                    .find(|p| matches!(p.kind, ty::GenericParamDefKind::Type { .. }))
                    .map(|p| ids.type_at(p.index as usize));
                let mut stats_s = J::Null;
                if let Some(m_ty) = m_ty {
                    let proj = ty::Ty::new_projection(
                        tcx,
                        stats_assoc,
                        [ty::GenericArg::from(chain_ty), ty::GenericArg::from(m_ty)],
                    );
                    if let Ok(t) = tcx
                        .try_normalize_erasing_regions(env, ty::Unnormalized::new_wip(proj))
                    {
                        stats_s = cx.ty(t);
                    }
                }
                push(
                    lines,
                    obj! {
                        "k": J::s("settings_stats"),
                        "impl": J::s(cx.path(imp_did)),
                        "self_ty": cx.ty(self_ty),
                        "chain_ty": cx.ty(chain_ty),
                        "stats_ty": stats_s,
                    },
                );
            }
        }
    }
}

fn main() {
    let mut args: Vec<String> = std::env::args().collect();
    // RUSTC_WORKSPACE_WRAPPER: argv[1] is the path of the real rustc
    if args.len() > 1 && (args[1].ends_with("rustc") || args[1].contains("/rustc")) {
        args.remove(1);
    }
    let out_dir = std::env::var("NUTSFACTS_OUT").unwrap_or_else(|_| ".".to_string());
    let is_query = args.iter().any(|a| a == "--print" || a.starts_with("--print=") || a == "-vV" || a == "--version");
    let crate_name = args
        .iter()
        .position(|a| a == "--crate-name")
        .and_then(|i| args.get(i + 1))
        .cloned()
        .unwrap_or_default();
    let skip = is_query
        || crate_name.starts_with("build_script")
        || crate_name.is_empty()
        || args.iter().any(|a| a == "proc-macro" || a == "--crate-type=proc-macro")
            && std::env::var("NUTSFACTS_PROC_MACRO").is_err();
    if skip {
        struct Nop;
        impl rustc_driver::Callbacks for Nop {}
        rustc_driver::run_compiler(&args, &mut Nop);
        return;
    }
    let mut cb = Cb { out_dir };
    rustc_driver::run_compiler(&args, &mut cb);
}

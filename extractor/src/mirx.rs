// MIR export: locals, blocks, statements, terminators with resolved callees.
use crate::json::J;
use crate::{obj, Cx};
use rustc_hir::def::DefKind;
use rustc_hir::def_id::{DefId, LocalDefId};
use rustc_middle::mir::{
    self, AggregateKind, BasicBlock, Body, Const, Operand, Place, PlaceElem, Rvalue,
    StatementKind, TerminatorKind,
};
use rustc_middle::ty::{self, GenericArgsRef, Ty, TyCtxt};

struct M<'a, 'tcx> {
    cx: &'a Cx<'tcx>,
    tcx: TyCtxt<'tcx>,
    body: &'a Body<'tcx>,
    owner: DefId,
    env: ty::TypingEnv<'tcx>,
    upvar_names: Vec<String>,
}

pub fn mir_json<'tcx>(cx: &Cx<'tcx>, ldid: LocalDefId) -> J {
    let tcx = cx.tcx;
    let did = ldid.to_def_id();
    if !tcx.is_mir_available(did) {
        return J::Null;
    }
    let body = tcx.optimized_mir(did);
    let upvar_names = if tcx.def_kind(did) == DefKind::Closure {
        tcx.closure_captures(ldid)
            .iter()
            .map(|c| c.to_string(tcx))
            .collect()
    } else {
        vec![]
    };
    let m = M {
        cx,
        tcx,
        body,
        owner: did,
        env: ty::TypingEnv::post_analysis(tcx, did),
        upvar_names,
    };
    m.run()
}

impl<'a, 'tcx> M<'a, 'tcx> {
    fn run(&self) -> J {
        let body = self.body;
        // user variable names
        let mut names: Vec<Option<String>> = vec![None; body.local_decls.len()];
        let mut var_places: Vec<J> = vec![];
        for vdi in &body.var_debug_info {
            if let mir::VarDebugInfoContents::Place(p) = &vdi.value {
                if p.projection.is_empty() {
                    names[p.local.as_usize()] = Some(vdi.name.to_string());
                } else {
                    var_places.push(obj! {"name": J::s(vdi.name.to_string()), "place": self.place(p)});
                }
            }
        }
        let mut locals = vec![];
        for (l, decl) in body.local_decls.iter_enumerated() {
            locals.push(obj! {
                "ty": self.cx.ty(decl.ty),
                "adt": self.cx.ty_adt(decl.ty),
                "name": J::opt_s(names[l.as_usize()].clone()),
                "mut": J::Bool(decl.mutability.is_mut()),
            });
        }
        let mut blocks = vec![];
        for (_bb, data) in body.basic_blocks.iter_enumerated() {
            let mut stmts = vec![];
            for st in &data.statements {
                if let Some(j) = self.stmt(st) {
                    stmts.push(j);
                }
            }
            let term = data.terminator();
            blocks.push(obj! {
                "cleanup": J::Bool(data.is_cleanup),
                "stmts": J::Arr(stmts),
                "term": self.term(term, data),
            });
        }
        obj! {
            "arg_count": J::Int(body.arg_count as i128),
            "locals": J::Arr(locals),
            "var_places": J::Arr(var_places),
            "blocks": J::Arr(blocks),
        }
    }

    fn bb(&self, b: BasicBlock) -> J {
        J::Int(b.as_usize() as i128)
    }

    fn place(&self, p: &Place<'tcx>) -> J {
        let tcx = self.tcx;
        let mut proj = vec![];
        let mut pty = mir::PlaceTy::from_ty(self.body.local_decls[p.local].ty);
        for elem in p.projection.iter() {
            let j = match elem {
                PlaceElem::Deref => J::s("*"),
                PlaceElem::Field(fidx, fty) => {
                    let mut name: Option<String> = None;
                    let mut owner_adt = J::Null;
                    match pty.ty.kind() {
                        ty::Adt(def, _) => {
                            let v = match pty.variant_index {
                                Some(v) => def.variant(v),
                                None => def.non_enum_variant(),
                            };
                            if let Some(f) = v.fields.get(fidx) {
                                name = Some(f.name.to_string());
                            }
                            owner_adt = J::s(self.cx.path(def.did()));
                        }
                        ty::Closure(..) => {
                            name = self.upvar_names.get(fidx.as_usize()).cloned();
                            if name.is_none() {
                                name = Some(format!("upvar{}", fidx.as_usize()));
                            }
                            owner_adt = J::s("closure");
                        }
                        ty::Tuple(_) => {
                            name = Some(format!("{}", fidx.as_usize()));
                            owner_adt = J::s("tuple");
                        }
                        _ => {}
                    }
                    obj! {
                        "f": J::Int(fidx.as_usize() as i128),
                        "n": J::opt_s(name),
                        "of": owner_adt,
                        "ty": self.cx.ty(fty),
                    }
                }
                PlaceElem::Index(l) => obj! {"idx": J::Int(l.as_usize() as i128)},
                PlaceElem::ConstantIndex { offset, from_end, .. } => {
                    obj! {"cidx": J::Int(offset as i128), "from_end": J::Bool(from_end)}
                }
                PlaceElem::Subslice { from, to, from_end } => {
                    obj! {"sub": J::Arr(vec![J::Int(from as i128), J::Int(to as i128)]), "from_end": J::Bool(from_end)}
                }
                PlaceElem::Downcast(name, vidx) => {
                    let n = match name {
                        Some(s) => s.to_string(),
                        None => match pty.ty.kind() {
                            ty::Adt(def, _) => def.variant(vidx).name.to_string(),
                            _ => format!("{}", vidx.as_usize()),
                        },
                    };
                    obj! {"d": J::s(n)}
                }
                PlaceElem::OpaqueCast(_) => J::s("opaque"),
                PlaceElem::UnwrapUnsafeBinder(_) => J::s("unbind"),
            };
            proj.push(j);
            pty = pty.projection_ty(tcx, elem);
        }
        obj! {"l": J::Int(p.local.as_usize() as i128), "p": J::Arr(proj), "ty": self.cx.ty(pty.ty)}
    }

    fn fn_ref(&self, did: DefId, args: GenericArgsRef<'tcx>) -> J {
        let tcx = self.tcx;
        let mut v: Vec<(&'static str, J)> = vec![("path", J::s(self.cx.path(did)))];
        v.push(("name", J::s(crate::cx_name(tcx, did))));
        v.push((
            "gargs",
            J::Arr(args.iter().map(|a| J::s(a.to_string())).collect()),
        ));
        // closures among the generic args
        let mut closures = vec![];
        for a in args.iter() {
            if let Some(t) = a.as_type() {
                let mut t = t;
                while let ty::Ref(_, inner, _) = t.kind() {
                    t = *inner;
                }
                if let ty::Closure(cdid, _) = t.kind() {
                    closures.push(J::s(self.cx.path(*cdid)));
                }
                if let ty::Coroutine(cdid, _) = t.kind() {
                    closures.push(J::s(self.cx.path(*cdid)));
                }
            }
        }
        v.push(("closures", J::Arr(closures)));
        v.push(("local", J::Bool(did.is_local())));
        v.push(("krate", J::s(tcx.crate_name(did.krate).to_string())));
        if let Some(parent) = tcx.opt_parent(did) {
            match tcx.def_kind(parent) {
                DefKind::Trait => {
                    v.push(("trait", J::s(self.cx.path(parent))));
                    if args.len() > 0 {
                        if let Some(t) = args[0].as_type() {
                            v.push(("self_ty", self.cx.ty(t)));
                            v.push(("self_adt", self.cx.ty_adt(t)));
                        }
                    }
                }
                DefKind::Impl { of_trait } => {
                    let st = tcx.type_of(parent).instantiate_identity().skip_norm_wip();
                    v.push(("impl_self", self.cx.ty(st)));
                    v.push(("impl_self_adt", self.cx.ty_adt(st)));
                    if of_trait {
                        let t = tcx.impl_trait_ref(parent).instantiate_identity().skip_norm_wip();
                        v.push(("impl_trait", J::s(self.cx.path(t.def_id))));
                    }
                }
                _ => {}
            }
        }
        // resolve through trait selection where possible
        if let Ok(Some(inst)) = ty::Instance::try_resolve(tcx, self.env, did, args) {
            let rd = inst.def_id();
            if rd != did {
                v.push(("resolved", J::s(self.cx.path(rd))));
                v.push(("resolved_local", J::Bool(rd.is_local())));
            }
        }
        J::Obj(v)
    }

    fn constant(&self, c: &mir::ConstOperand<'tcx>) -> J {
        let tcx = self.tcx;
        let ty = c.const_.ty();
        let mut v: Vec<(&'static str, J)> =
            vec![("c", J::s(format!("{}", c.const_))), ("ty", self.cx.ty(ty))];
        if let ty::FnDef(did, args) = ty.kind() {
            v.push(("fn", self.fn_ref(*did, args)));
        }
        let mut promoted_desc: Option<String> = None;
        if let Const::Unevaluated(u, _) = c.const_ {
            v.push(("named", J::s(self.cx.path(u.def))));
            if let Some(p) = u.promoted {
                // describe the promoted constant by the right-hand sides of its (tiny) MIR body, e.g. `Kind::Variant`
                let bodies = tcx.promoted_mir(u.def);
                if let Some(b) = bodies.get(p) {
                    let mut parts: Vec<String> = Vec::new();
                    for bb in b.basic_blocks.iter() {
                        for st in bb.statements.iter() {
                            if let StatementKind::Assign(asg) = &st.kind {
                                let (_pl, rv) = &**asg;
                                match rv {
                                    Rvalue::Ref(..) | Rvalue::RawPtr(..) => {}
                                    _ => parts.push(format!("{:?}", rv)),
                                }
                            }
                        }
                    }
                    let d: String = parts.join("; ").chars().take(300).collect();
                    promoted_desc = Some(d);
                }
            }
        }
        if let Some(d) = promoted_desc {
            v.push(("promoted", J::s(d.clone())));
            v.push(("v", J::s(d)));
        }
        // scalar evaluation
        if ty.is_bool() || ty.is_integral() || ty.is_floating_point() || ty.is_char() {
            if let Some(si) = c.const_.try_eval_scalar_int(tcx, self.env) {
                let s = scalar_to_string(ty, si);
                v.push(("v", J::s(s)));
            }
        }
        // named constants of tuple type (`const CLAMP: (f64, f64) = ..`): evaluate and export the scalar fields
        if let (Const::Unevaluated(u, _), ty::Tuple(tys)) = (c.const_, ty.kind()) {
            if u.promoted.is_none() && !tys.is_empty() {
                if let Ok(val) = c.const_.eval(tcx, self.env, c.span) {
                    if let Some(d) = tcx.try_destructure_mir_constant_for_user_output(val, ty) {
                        let mut fs: Vec<J> = Vec::new();
                        let mut all = true;
                        for (fv, fty) in d.fields.iter() {
                            match fv {
                                mir::ConstValue::Scalar(mir::interpret::Scalar::Int(si))
                                    if fty.is_bool() || fty.is_integral() || fty.is_floating_point() || fty.is_char() =>
                                {
                                    fs.push(obj! {"ty": self.cx.ty(*fty), "v": J::s(scalar_to_string(*fty, *si))});
                                }
                                _ => all = false,
                            }
                        }
                        if all {
                            v.push(("tuple_fields", J::Arr(fs)));
                        }
                    }
                }
            }
        }
        J::Obj(v)
    }

    fn operand(&self, o: &Operand<'tcx>) -> J {
        match o {
            Operand::Copy(p) => obj! {"k": J::s("copy"), "pl": self.place(p)},
            Operand::Move(p) => obj! {"k": J::s("move"), "pl": self.place(p)},
            Operand::Constant(c) => obj! {"k": J::s("const"), "const": self.constant(c)},
            #[allow(unreachable_patterns)]
            _ => obj! {"k": J::s("other"), "dbg": J::s(format!("{:?}", o))},
        }
    }

    fn rvalue(&self, rv: &Rvalue<'tcx>) -> J {
        match rv {
            Rvalue::Use(op, ..) => obj! {"k": J::s("use"), "op": self.operand(op)},
            Rvalue::Repeat(op, _) => obj! {"k": J::s("repeat"), "op": self.operand(op)},
            Rvalue::Ref(_, bk, p) => {
                let m = match bk {
                    mir::BorrowKind::Shared => "shared",
                    mir::BorrowKind::Fake(_) => "fake",
                    mir::BorrowKind::Mut { .. } => "mut",
                };
                obj! {"k": J::s("ref"), "bk": J::s(m), "pl": self.place(p)}
            }
            Rvalue::RawPtr(kind, p) => {
                obj! {"k": J::s("rawptr"), "bk": J::s(format!("{:?}", kind)), "pl": self.place(p)}
            }
            Rvalue::Cast(kind, op, ty) => {
                obj! {"k": J::s("cast"), "ck": J::s(format!("{:?}", kind)), "op": self.operand(op), "ty": self.cx.ty(*ty)}
            }
            Rvalue::BinaryOp(op, ops) => {
                obj! {"k": J::s("bin"), "op": J::s(format!("{:?}", op)), "a": self.operand(&ops.0), "b": self.operand(&ops.1)}
            }
            Rvalue::UnaryOp(op, a) => {
                obj! {"k": J::s("un"), "op": J::s(format!("{:?}", op)), "a": self.operand(a)}
            }
            Rvalue::Discriminant(p) => obj! {"k": J::s("discr"), "pl": self.place(p)},
            Rvalue::Aggregate(kind, ops) => {
                let ops_j: Vec<J> = ops.iter().map(|o| self.operand(o)).collect();
                match &**kind {
                    AggregateKind::Adt(did, vidx, _args, _, _) => {
                        let def = self.tcx.adt_def(*did);
                        let v = def.variant(*vidx);
                        let fnames: Vec<J> =
                            v.fields.iter().map(|f| J::s(f.name.to_string())).collect();
                        obj! {"k": J::s("agg"), "ak": J::s("adt"), "adt": J::s(self.cx.path(*did)), "variant": J::s(v.name.to_string()), "fields": J::Arr(fnames), "ops": J::Arr(ops_j)}
                    }
                    AggregateKind::Closure(did, _) => {
                        obj! {"k": J::s("agg"), "ak": J::s("closure"), "closure": J::s(self.cx.path(*did)), "ops": J::Arr(ops_j)}
                    }
                    AggregateKind::Coroutine(did, _) => {
                        obj! {"k": J::s("agg"), "ak": J::s("closure"), "closure": J::s(self.cx.path(*did)), "coroutine": J::Bool(true), "ops": J::Arr(ops_j)}
                    }
                    AggregateKind::Tuple => {
                        obj! {"k": J::s("agg"), "ak": J::s("tuple"), "ops": J::Arr(ops_j)}
                    }
                    AggregateKind::Array(_) => {
                        obj! {"k": J::s("agg"), "ak": J::s("array"), "ops": J::Arr(ops_j)}
                    }
                    other => {
                        obj! {"k": J::s("agg"), "ak": J::s(format!("{:?}", other)), "ops": J::Arr(ops_j)}
                    }
                }
            }
            Rvalue::CopyForDeref(p) => obj! {"k": J::s("use"), "op": obj!{"k": J::s("copy"), "pl": self.place(p)}},
            Rvalue::ThreadLocalRef(did) => {
                obj! {"k": J::s("tls"), "path": J::s(self.cx.path(*did))}
            }
            other => obj! {"k": J::s("other"), "dbg": J::s(format!("{:?}", other))},
        }
    }

    fn stmt(&self, st: &mir::Statement<'tcx>) -> Option<J> {
        match &st.kind {
            StatementKind::Assign(b) => {
                let (p, rv) = &**b;
                Some(obj! {
                    "k": J::s("assign"),
                    "pl": self.place(p),
                    "rv": self.rvalue(rv),
                    "span": self.cx.span(st.source_info.span),
                })
            }
            StatementKind::SetDiscriminant { place, variant_index } => Some(obj! {
                "k": J::s("setdiscr"),
                "pl": self.place(place),
                "variant": J::Int(variant_index.as_usize() as i128),
                "span": self.cx.span(st.source_info.span),
            }),
            StatementKind::StorageDead(l) => {
                Some(obj! {"k": J::s("dead"), "l": J::Int(l.as_usize() as i128)})
            }
            StatementKind::StorageLive(l) => {
                Some(obj! {"k": J::s("live"), "l": J::Int(l.as_usize() as i128)})
            }
            StatementKind::Intrinsic(i) => Some(obj! {
                "k": J::s("intrinsic"),
                "dbg": J::s(format!("{:?}", i)),
                "span": self.cx.span(st.source_info.span),
            }),
            _ => None,
        }
    }

    /// variant names for a switch on a discriminant read in the same block
    fn switch_variants(
        &self,
        discr: &Operand<'tcx>,
        data: &mir::BasicBlockData<'tcx>,
    ) -> Option<(Place<'tcx>, Ty<'tcx>)> {
        let p = discr.place()?;
        if !p.projection.is_empty() {
            return None;
        }
        for st in data.statements.iter().rev() {
            if let StatementKind::Assign(b) = &st.kind {
                let (lhs, rv) = &**b;
                if lhs.local == p.local && lhs.projection.is_empty() {
                    if let Rvalue::Discriminant(src) = rv {
                        let t = src.ty(self.body, self.tcx).ty;
                        return Some((*src, t));
                    }
                    return None;
                }
            }
        }
        None
    }

    fn term(&self, term: &mir::Terminator<'tcx>, data: &mir::BasicBlockData<'tcx>) -> J {
        let span = self.cx.span(term.source_info.span);
        match &term.kind {
            TerminatorKind::Goto { target } => {
                obj! {"k": J::s("goto"), "target": self.bb(*target)}
            }
            TerminatorKind::SwitchInt { discr, targets } => {
                let dty = discr.ty(self.body, self.tcx);
                let mut arms = vec![];
                let sv = self.switch_variants(discr, data);
                for (val, bb) in targets.iter() {
                    let mut name = J::Null;
                    if let Some((_, t)) = &sv {
                        if let ty::Adt(def, _) = t.kind() {
                            if def.is_enum() {
                                for (vidx, d) in def.discriminants(self.tcx) {
                                    if d.val == val {
                                        name = J::s(def.variant(vidx).name.to_string());
                                    }
                                }
                            }
                        }
                    } else if dty.is_bool() {
                        name = J::s(if val == 0 { "false" } else { "true" });
                    }
                    arms.push(obj! {"val": J::Int(val as i128), "name": name, "target": self.bb(bb)});
                }
                let mut v: Vec<(&'static str, J)> = vec![
                    ("k", J::s("switch")),
                    ("discr", self.operand(discr)),
                    ("discr_ty", self.cx.ty(dty)),
                    ("arms", J::Arr(arms)),
                    ("otherwise", self.bb(targets.otherwise())),
                    ("span", span),
                ];
                if let Some((src, t)) = sv {
                    v.push(("enum_place", self.place(&src)));
                    v.push(("enum_ty", self.cx.ty(t)));
                    v.push(("enum_adt", self.cx.ty_adt(t)));
                    if let ty::Adt(def, _) = t.kind() {
                        if def.is_enum() {
                            let all: Vec<J> = def
                                .variants()
                                .iter()
                                .map(|v| J::s(v.name.to_string()))
                                .collect();
                            v.push(("enum_variants", J::Arr(all)));
                        }
                    }
                }
                J::Obj(v)
            }
            TerminatorKind::Return => obj! {"k": J::s("return"), "span": span},
            TerminatorKind::Unreachable => obj! {"k": J::s("unreachable")},
            TerminatorKind::UnwindResume => obj! {"k": J::s("resume")},
            TerminatorKind::UnwindTerminate(_) => obj! {"k": J::s("terminate")},
            TerminatorKind::Drop { place, target, unwind, .. } => {
                obj! {"k": J::s("drop"), "pl": self.place(place), "target": self.bb(*target), "unwind": self.unwind(unwind), "span": span}
            }
            TerminatorKind::Call { func, args, destination, target, unwind, .. } => {
                let callee = match func.const_fn_def() {
                    Some((did, gargs)) => self.fn_ref(did, gargs),
                    None => obj! {"indirect": self.operand(func), "fn_ty": self.cx.ty(func.ty(self.body, self.tcx))},
                };
                let args_j: Vec<J> = args.iter().map(|a| self.operand(&a.node)).collect();
                obj! {
                    "k": J::s("call"),
                    "callee": callee,
                    "args": J::Arr(args_j),
                    "dest": self.place(destination),
                    "target": match target { Some(t) => self.bb(*t), None => J::Null },
                    "unwind": self.unwind(unwind),
                    "span": span,
                }
            }
            TerminatorKind::TailCall { func, args, .. } => {
                let callee = match func.const_fn_def() {
                    Some((did, gargs)) => self.fn_ref(did, gargs),
                    None => obj! {"indirect": self.operand(func)},
                };
                let args_j: Vec<J> = args.iter().map(|a| self.operand(&a.node)).collect();
                obj! {"k": J::s("tailcall"), "callee": callee, "args": J::Arr(args_j), "span": span}
            }
            TerminatorKind::Assert { cond, expected, target, unwind, msg } => {
                obj! {
                    "k": J::s("assert"),
                    "cond": self.operand(cond),
                    "expected": J::Bool(*expected),
                    "target": self.bb(*target),
                    "unwind": self.unwind(unwind),
                    "msg": J::s(format!("{:?}", msg).chars().take(120).collect::<String>()),
                    "span": span,
                }
            }
            TerminatorKind::FalseEdge { real_target, .. } => {
                obj! {"k": J::s("goto"), "target": self.bb(*real_target)}
            }
            TerminatorKind::FalseUnwind { real_target, .. } => {
                obj! {"k": J::s("goto"), "target": self.bb(*real_target)}
            }
            other => {
                let succ: Vec<J> = term.successors().map(|b| self.bb(b)).collect();
                obj! {"k": J::s("other"), "dbg": J::s(format!("{:?}", other).chars().take(200).collect::<String>()), "succ": J::Arr(succ), "span": span}
            }
        }
    }

    fn unwind(&self, u: &mir::UnwindAction) -> J {
        match u {
            mir::UnwindAction::Cleanup(b) => self.bb(*b),
            _ => J::Null,
        }
    }
}

fn scalar_to_string<'tcx>(ty: Ty<'tcx>, si: ty::ScalarInt) -> String {
    let size = si.size();
    let bits = si.to_bits(size);
    match ty.kind() {
        ty::Bool => (bits != 0).to_string(),
        ty::Float(ty::FloatTy::F64) => format!("{:?}", f64::from_bits(bits as u64)),
        ty::Float(ty::FloatTy::F32) => format!("{:?}", f32::from_bits(bits as u32)),
        ty::Int(_) => {
            let n = size.bits();
            let shift = 128 - n;
            let signed = ((bits << shift) as i128) >> shift;
            signed.to_string()
        }
        _ => bits.to_string(),
    }
}

#[allow(dead_code)]
fn _unused(_: DefId) {}

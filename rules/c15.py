"""C15 - flushed Zarr traces are complete at every flush point (structural clauses)."""
from .facts import path_ends, loc, strip_generics, hir_walk, vt_walk, vt_str
from . import common as K
from . import kernel as KN
from . import c10 as C10
from . import c12 as C12

LEVEL = ("Static structural conditions for both Zarr backends: flush, finalize and the first-post-warmup reset of record_sample each visit every buffer map "
         "of the chain storage, take a snapshot (flush) / the remaining chunk (finalize, reset) of every buffer and store it into the array family that "
         "push_draw / push_param use for that buffer map, on the warm-up or sampling side selected exactly as the pushes select it (R1); the async "
         "backend drains and checks every pending write before flush / finalize return Ok, and queue_write propagates the errors it reaps (R2); the "
         "controller's Flush arm flushes every chain unconditionally before it acknowledges, and ChainProcess::flush flushes under the trace guard (R3); "
         "a chunk is addressed by (chain, chunk index) and written with extent `len`; a string chunk starts at chunk_idx * full_at; a partial numeric "
         "chunk is written as a subset of extent len of chunk chunk_idx; is_full is full_at == len (R4); the buffer bookkeeping is consistent: "
         "finish_chunk advances the chunk index by one and empties the buffer, reset rewinds it to zero, push adds one entry and finishes the chunk "
         "exactly at full_at, total_pushed = current_chunk * full_at + len, copy_as_chunk cannot modify the buffer (R5). Chunk-index arithmetic against "
         "all sizes and the store contents after a crash are not decided."
         " Added: copy_as_chunk is a snapshot - no interior mutability in SampleBuffer, None only for an empty buffer (R5)."
         " Added (round 5): event arrays are trimmed to maxima, never minima (R6); finalisation keeps the events of the phase the chain ended in (R7 = C14-R13); no Zarr backend drops the Result of a chunk write (R8 = C13-R6 analysis); warm-up arrays are num_tune long, sampling arrays num_draws long (R9)."
         " Added (round 6): only finalisation empties a chain's trace slot (R10 = C11-R13); set_shape is called from TraceStorage::finalize only (R11); chunk grid and buffer length are one expression (R12).")
EXPLANATION = ("MIR loops over the buffer-map fields with the snapshot / reset call and the indexed array family on each side of the warm-up flag; sibling "
               "agreement with push_draw / push_param; symbolic evaluation (polynomials) of the subset start / shape expressions in HIR; field-writer inventory.")
TRUSTED = ["rustc nightly MIR/HIR", "nutsfacts extractor", "rules/c15.py", "zarrs: store_chunk / store_chunk_subset / store_array_subset write what they are given",
           "tokio JoinSet::join_next returns None only when no task is left"]
TECHNIQUE = "static analysis: coverage / lane / routing agreement between sibling storage functions on MIR + symbolic chunk-offset expressions + field-writer inventory"

SNAP = {"flush": "copy_as_chunk", "finalize": "reset", "record_sample": "reset"}


def chain_storages(F):
    out = []
    for p, a in F.adts.items():
        if a["kind"] != "struct" or not p.startswith("storage::zarr"):
            continue
        bufs = [f["name"] for f in a["variants"][0]["fields"] if "HashMap<" in f["ty"] and "SampleBuffer" in f["ty"]]
        if bufs:
            out.append((p, bufs))
    return sorted(out)


def array_families(F, adt, bufs):
    """From push_* : {buffer field: (array field used on the warm-up edge, array field on the sampling edge)}"""
    fam = {}
    for b in F.bodies.values():
        if b.kind == "closure" or b.parent.get("self_adt") != adt or not (b.fn_name or "").startswith("push"):
            continue
        used = [n[2] for bb, t in b.calls() for a in t["args"] for n in vt_walk(b.value(a)) if n[0] == "field" and n[2] in bufs]
        if not used:
            continue
        buf = used[0]
        sides = index_sides(b, lambda v: v[0] == "arg")
        if sides:
            fam[buf] = sides
    return fam


def index_sides(b, flag_pred=None, region=None):
    """Array-family fields indexed in body b, split by the edge of the boolean switch that controls them: [(field, controlling discr value tree, polarity, bb)]"""
    out = []
    for bb, t in b.calls():
        if region is not None and bb not in region:
            continue
        p = strip_generics(t["callee"].get("path", ""))
        if not p.endswith("Index::index"):
            continue
        v = b.value(t["args"][0])
        fields = [n[2] for n in vt_walk(v) if n[0] == "field"]
        fam = next((f for f in fields if f.endswith("_arrays")), None)
        if fam is None:
            continue
        pol = None
        dv = None
        for (a, s) in b.control_deps().get(bb, set()):
            tt = b.blocks[a]["term"]
            if tt["k"] == "switch" and tt.get("discr_ty") == "bool":
                val = None
                for arm in tt["arms"]:
                    if arm["target"] == s:
                        val = arm["val"] != 0
                if val is None and tt["otherwise"] == s:
                    val = not any(arm["val"] != 0 for arm in tt["arms"])
                pol = val
                dv = b.value(tt["discr"])
        out.append((fam, dv, pol, bb))
    return out


def loops_over(b, field):
    """Natural loops of b driven by an iterator over self.<field>: [(header, body blocks, next-call bb)]"""
    out = []
    loops = b.natural_loops()
    for bb, t in b.calls():
        p = strip_generics(t["callee"].get("path", ""))
        if p.endswith("Iterator::next") and t["args"]:
            v = b.value(t["args"][0])
            ity = b.local_ty(K.root_local(b, t["args"][0]) or 0)
            plain = ity.startswith(("std::collections::hash_map::Iter<", "std::collections::hash_map::IterMut<", "std::collections::hash_map::IntoIter<"))
            if any(n[0] == "field" and n[2] == field for n in vt_walk(v)) and plain:
                for h, body in loops.items():
                    if bb in body:
                        out.append((h, body, bb))
    # innermost per next-call
    best = {}
    for h, body, nb in out:
        if nb not in best or len(body) < len(best[nb][1]):
            best[nb] = (h, body, nb)
    return list(best.values())


def r1(F, R):
    R.rule("C15-R1", "buffer-map coverage, lanes and routing: flush / finalize / the first-post-warmup reset in record_sample loop over every SampleBuffer map of the chain "
                     "storage, call copy_as_chunk (flush) or reset (finalize, reset branch) on each element and store into the array family that push_* uses for that "
                     "map, warm-up side on the warm-up edge of last_sample_was_warmup (flush, finalize) / always the warm-up side (reset branch)")
    cs = chain_storages(F)
    if "zarr" in C10.features(F) and len(cs) < 2:
        R.missing("C15-R1", "Zarr chain storages with SampleBuffer maps (found %d, expected 2)" % len(cs))
    for adt, bufs in cs:
        fam = array_families(F, adt, bufs)
        short = adt.split("::")[-1]
        if set(fam) != set(bufs):
            R.bad("C15-R1", "%s:push-families" % short, adt, "cannot determine the array family of buffer maps %s from push_* (found %s)" % (sorted(set(bufs) - set(fam)), sorted(fam)))
            continue
        ref = {}
        for buf, sides in fam.items():
            w = {f for (f, dv, pol, bb) in sides if pol is True}
            s = {f for (f, dv, pol, bb) in sides if pol is False}
            if len(w) == 1 and len(s) == 1:
                ref[buf] = (list(w)[0], list(s)[0])
                R.ok("C15-R1", "%s:push:%s" % (short, buf), adt, "push: %s -> %s when warm-up, %s otherwise" % (buf, list(w)[0], list(s)[0]))
            else:
                R.bad("C15-R1", "%s:push:%s" % (short, buf), adt, "push of %s does not select one array family per side of the warm-up flag: %s" % (buf, sides))
        for fn, snap in SNAP.items():
            bs = [b for b in F.trait_method_impls("ChainStorage", fn) if b.parent.get("self_adt") == adt]
            if len(bs) != 1:
                R.bad("C15-R1", "%s:%s" % (short, fn), adt, "impl ChainStorage::%s not found" % fn)
                continue
            b = bs[0]
            for buf in bufs:
                key = "%s:%s:%s" % (short, fn, buf)
                site = "%s @%s" % (b.path, b.loc())
                ls = loops_over(b, buf)
                if not ls:
                    R.bad("C15-R1", key, site, "%s never iterates over self.%s: its buffered draws are not written (missing from the store until the chunk fills up)" % (fn, buf))
                    continue
                okl = False
                msgs = []
                for (h, body, nb) in ls:
                    snaps = [bb for bb, t in b.calls() if bb in body and t["callee"].get("name") == snap and "SampleBuffer" in t["callee"].get("path", "")]
                    if not snaps:
                        msgs.append("loop over %s does not call %s" % (buf, snap))
                        continue
                    # the snapshot must be taken for every element: not control-dependent on anything inside the loop except the iterator's Some edge
                    if not unconditional_in_iteration(b, nb, snaps[0]):
                        msgs.append("%s is called only for some elements of %s" % (snap, buf))
                        continue
                    sides = index_sides(b, region=body)
                    want = ref.get(buf)
                    if want is None:
                        continue
                    if fn == "record_sample":
                        fams = {f for (f, dv, pol, bb) in sides}
                        if fams == {want[0]}:
                            okl = True
                        else:
                            msgs.append("reset branch stores %s into %s, expected the warm-up family %s" % (buf, sorted(fams), want[0]))
                    else:
                        w = {f for (f, dv, pol, bb) in sides if pol is True and dv is not None and "last_sample_was_warmup" in vt_str(dv)}
                        s = {f for (f, dv, pol, bb) in sides if pol is False and dv is not None and "last_sample_was_warmup" in vt_str(dv)}
                        if w == {want[0]} and s == {want[1]}:
                            okl = True
                        else:
                            msgs.append("%s stores %s into %s on the warm-up edge and %s otherwise; push uses %s / %s" % (fn, buf, sorted(w), sorted(s), want[0], want[1]))
                    # a store call follows the snapshot inside the loop
                    stores = [bb for bb, t in b.calls() if bb in body and _is_store_call(F, t)]
                    if not stores:
                        okl = False
                        msgs.append("no store call in the loop over %s" % buf)
                if okl:
                    R.ok("C15-R1", key, site, "%s: every buffer of %s is %s and stored into the matching array family" % (fn, buf, "snapshotted" if fn == "flush" else "drained"))
                else:
                    R.bad("C15-R1", key, site, "; ".join(msgs) or "no conforming loop over %s" % buf)
            if fn == "record_sample":
                # the reset branch is the `last_sample_was_warmup && !tuning` branch and clears the flag
                adt_rec = adt
                ws = [(wb, bb, st, v, how) for (wb, bb, st, v, how) in K.field_writers(F, adt_rec, "last_sample_was_warmup") if wb.path == b.path]
                okf = len(ws) == 1 and ws[0][3][0] == "const" and ws[0][3][2] == "false"
                if okf:
                    R.ok("C15-R1", "%s:record_sample:flag" % short, "%s @%s" % (b.path, b.loc()), "warm-up flag cleared once, in the reset branch")
                else:
                    R.bad("C15-R1", "%s:record_sample:flag" % short, "%s @%s" % (b.path, b.loc()), "last_sample_was_warmup is written %d times in record_sample" % len(ws))
    R.floor("C15-R1", 14 if "zarr" in C10.features(F) else 0)


def unconditional_in_iteration(b, next_bb, target_bb):
    """Is target_bb reached from the Some edge of the iterator's next() without passing any branch (every element is treated alike)?"""
    nt = b.blocks[next_bb]["term"]
    some_t = None
    for bi, blk in enumerate(b.blocks):
        t = blk["term"]
        if t["k"] == "switch" and "enum_place" in t and t["enum_place"]["l"] == nt["dest"]["l"]:
            some_t = next((a["target"] for a in t["arms"] if a.get("name") == "Some"), None)
    if some_t is None:
        return False
    x = some_t
    for _ in range(60):
        if x == target_bb:
            return True
        ss = b.succ_map()[x]
        if len(ss) != 1:
            return False
        x = ss[0]
    return False


def _is_next_switch(b, sw_bb, next_bb):
    t = b.blocks[sw_bb]["term"]
    nt = b.blocks[next_bb]["term"]
    return t["k"] == "switch" and "enum_place" in t and t["enum_place"]["l"] == nt["dest"]["l"]


def r2(F, R):
    R.rule("C15-R2", "async backend: flush and finalize return Ok only after the JoinSet of pending writes was drained (join_next until None / join_all) with every task "
                     "result propagated by `?`; queue_write propagates the result of every write it reaps")
    adts = [a for a, _b in chain_storages(F) if "async" in a]
    for adt in adts:
        for fn, joiner in (("flush", "join_next"), ("finalize", "join_all")):
            bs = [b for b in F.trait_method_impls("ChainStorage", fn) if b.parent.get("self_adt") == adt]
            if len(bs) != 1:
                R.missing("C15-R2", "%s::%s" % (adt, fn))
                continue
            b = bs[0]
            site = "%s @%s" % (b.path, b.loc())
            key = "%s:%s" % (adt.split("::")[-1], fn)
            bos = [(bb, t) for bb, t in b.calls() if strip_generics(t["callee"].get("path", "")).endswith("Handle::block_on") and t["callee"].get("closures")]
            good = None
            for bb, t in bos:
                for cp in t["callee"]["closures"]:
                    cb = F.bodies.get(cp)
                    if cb is None:
                        continue
                    names = [strip_generics(tt["callee"].get("path", "")).split("::")[-1] for _b2, tt in cb.calls()]
                    if any(n == joiner for n in names):
                        # results propagated: a from_residual (the `?`) in the coroutine, and the block_on result itself goes through `?`
                        prop = "from_residual" in names
                        good = (bb, cb, prop)
            if good is None:
                R.bad("C15-R2", key, site, "%s does not wait for the pending writes (%s on the JoinSet not found)" % (fn, joiner))
                continue
            bb, cb, prop = good
            oks = [x for x in b.exits()]
            from .c05 import agg_blocks
            ok_blocks = [x[0] for x in agg_blocks(b, "Result", "Ok")]
            dom = ok_blocks and all(b.dominates(bb, o) for o in ok_blocks)
            # the block_on result is consumed by `?`
            l = b.blocks[bb]["term"]["dest"]["l"]
            consumed = any(strip_generics(t["callee"].get("path", "")).endswith("Try::branch") and any(a["k"] in ("copy", "move") and a["pl"]["l"] == l for a in t["args"])
                           for _bb, t in b.calls())
            if joiner == "join_next":
                # the drain loop leaves only on None
                loops = cb.natural_loops()
                jn = [x for x, tt in cb.calls() if strip_generics(tt["callee"].get("path", "")).endswith("join_next")]
                in_loop = any(any(j in body for body in loops.values()) for j in jn) or any("poll" in strip_generics(tt["callee"].get("path", "")) for _x, tt in cb.calls())
            else:
                in_loop = True
            if dom and prop and consumed and in_loop:
                R.ok("C15-R2", key, site, "%s: pending writes drained by %s, results propagated, before Ok" % (fn, joiner))
            else:
                R.bad("C15-R2", key, site, "%s may return Ok before / without checking the pending writes (dominates Ok: %s, task results propagated: %s, block_on result "
                      "checked: %s, drains in a loop: %s)" % (fn, bool(dom), prop, consumed, in_loop))
    qs = [b for b in F.bodies.values() if b.fn_name == "queue_write" and b.kind == "fn"]
    for b in qs:
        site = "%s @%s" % (b.path, b.loc())
        inner = K.all_closures_of(F, b.path)
        reaps = [c for c in inner if any(strip_generics(t["callee"].get("path", "")).endswith("join_next") for _bb, t in c.calls())]
        prop = any("from_residual" in [strip_generics(t["callee"].get("path", "")).split("::")[-1] for _bb, t in c.calls()] for c in reaps)
        l_ok = sum(1 for _bb, t in b.calls() if strip_generics(t["callee"].get("path", "")).endswith("Try::branch")) >= 2
        if reaps and prop and l_ok:
            R.ok("C15-R2", "queue_write", site, "errors of reaped writes and of the spawn task are propagated")
        else:
            R.bad("C15-R2", "queue_write", site, "queue_write drops the result of a reaped write (reaps: %d, propagated: %s, outer `?`: %s)" % (len(reaps), prop, l_ok))
    if adts:
        R.floor("C15-R2", 3)


def _is_store_call(F, t, depth=0):
    """A call that writes a chunk: store_zarr_chunk* / queue_write, or a call given a closure / async block that does
    (`handle.block_on(async move { store_zarr_chunk_async(..).await })` is store_zarr_chunk_sync written in place)."""
    c = t["callee"]
    if (c.get("name") or "").startswith(("store_zarr_chunk", "queue_write")):
        return True
    if depth < 2:
        for cp in c.get("closures") or []:
            cb = F.bodies.get(cp)
            if cb is not None and any(_is_store_call(F, t2, depth + 1) for _b2, t2 in cb.calls()):
                return True
    return False


def r3(F, R):
    R.rule("C15-R3", "the controller's Flush arm calls ChainProcess::flush for every chain handle, unconditionally, in a loop that dominates the acknowledgement; "
                     "ChainProcess::flush calls ChainStorage::flush while it holds the trace guard")
    C12.r4(F, R, rid="C15-R3", commands=(("Flush", "ChainProcess::flush"),), closure_adaptors=("for_each", "try_for_each"))
    cl = C12.controller_loop(F)
    ca = C12.command_arms(cl) if cl is not None else None
    if ca and "Flush" in ca[0]:
        arms, hdr, rbb = ca
        others = [t for c, t in arms.items() if c != "Flush"]
        reach = cl.reach_from(arms["Flush"], avoid=[hdr] + others)
        ops = [(bb, t) for bb, t in cl.calls() if bb in reach and path_ends(t["callee"].get("path", ""), "ChainProcess::flush")]
        loops = cl.natural_loops()
        for bb, t in ops:
            inner = [(h, body) for h, body in loops.items() if bb in body and h != hdr and h in reach]
            if not inner:
                continue
            h, body = min(inner, key=lambda x: len(x[1]))
            nxt = [x for x, tt in cl.calls() if x in body and strip_generics(tt["callee"].get("path", "")).endswith("Iterator::next")]
            site = "%s @%s" % (cl.path, loc(t["span"]))
            if not (nxt and unconditional_in_iteration(cl, nxt[0], bb)):
                R.bad("C15-R3", "controller:Flush:unconditional", site, "chain.flush() is skipped for some chains (conditional inside the loop): a finished or idle chain keeps its "
                      "last partial chunk in memory while flush() reports success")
            else:
                R.ok("C15-R3", "controller:Flush:unconditional", site, "every chain is flushed, no filter")
        if not ops:
            # closure form: chains.iter().try_for_each(|chain| chain.flush())
            for bb, t in cl.calls():
                c_ = t["callee"]
                if bb in reach and c_.get("closures") and strip_generics(c_.get("path", "")).split("::")[-1] in ("for_each", "try_for_each"):
                    for cp_ in c_["closures"]:
                        cb_ = F.bodies.get(cp_)
                        if cb_ is None:
                            continue
                        for b2, t2 in cb_.calls():
                            if path_ends(t2["callee"].get("path", ""), "ChainProcess::flush"):
                                site = "%s @%s" % (cb_.path, loc(t2["span"]))
                                cond = [a for (a, _s) in cb_.control_deps_trans(b2) if cb_.blocks[a]["term"]["k"] == "switch"]
                                if cond:
                                    R.bad("C15-R3", "controller:Flush:unconditional", site, "chain.flush() is skipped for some chains (conditional inside the closure)")
                                else:
                                    R.ok("C15-R3", "controller:Flush:unconditional", site, "every chain is flushed, no filter (closure form)")
    fl = F.inherent_methods("ChainProcess", "flush")
    for b in fl:
        bodies = [b] + K.all_closures_of(F, b.path)
        site = "%s @%s" % (b.path, b.loc())
        locks = [1 for bb, t in b.calls() if strip_generics(t["callee"].get("path", "")).endswith("Mutex::lock")]
        fl_call = [(x, t) for x in bodies for bb, t in x.calls() if path_ends(t["callee"].get("path", ""), "ChainStorage::flush")]
        errs = any(strip_generics(t["callee"].get("path", "")).endswith("Try::branch") for bb, t in b.calls())
        if locks and fl_call and errs:
            R.ok("C15-R3", "ChainProcess::flush", site, "locks the trace slot, flushes the storage, propagates its error")
        else:
            R.bad("C15-R3", "ChainProcess::flush", site, "ChainProcess::flush: lock %s, storage flush %s, error propagated %s" % (bool(locks), bool(fl_call), errs))
    R.floor("C15-R3", 3 if "parallel" in C10.features(F) and "zarr" in C10.features(F) else 0)


def _poly(node, env=None, F=None, depth=0):
    """Polynomial of an index expression; a call of a small workspace helper (e.g. a method of Chunk) is replaced by the polynomial of its body."""
    n = K.peel(node)
    while isinstance(n, dict) and n.get("k") in ("Cast", "Type"):
        n = K.peel(n["e"])
    if F is not None and depth < 2 and isinstance(n, dict) and n.get("k") in ("MethodCall", "Call"):
        cal = K.callee_of(n)
        hb = F.any_body(cal) if cal else None
        if hb is not None and hb.hir and hb.path.startswith(("storage::", "<storage::")):
            return _poly(hb.hir["value"], None, F, depth + 1)
    ev = KN.Eval(outer_env=env or {})
    return ev.ev(node)


def _follow_let(n, lets):
    lid = K.local_id(n)
    for _ in range(4):
        if lid is not None and lid in lets:
            n = lets[lid]["init"]
            lid = K.local_id(n)
        else:
            break
    return n


def r4(F, R):
    R.rule("C15-R4", "chunk addressing: the string path writes `len` entries starting at chunk_idx * full_at of the chain's row; the numeric path addresses chunk "
                     "(chain, chunk_idx, 0, ..) and, when the chunk is not full, writes a subset whose draw extent is len; Chunk::is_full is full_at == len")
    fns = [b for b in F.bodies.values() if b.kind == "fn" and b.path.startswith("storage::zarr") and b.fn_name in ("store_zarr_chunk", "store_zarr_chunk_async")]
    if "zarr" in C10.features(F) and len(fns) < 2:
        R.missing("C15-R4", "store_zarr_chunk / store_zarr_chunk_async (found %d)" % len(fns))
    for b in fns:
        site = "%s @%s" % (b.path, b.loc())
        h = b.hir["value"]
        lets = {}
        for x in hir_walk(h):
            if x.get("k") == "Let" and x["pat"].get("k") == "Binding" and x.get("init") is not None:
                lets[x["pat"]["id"]] = x
        # parameter names: (array, data, chain index)
        calls = [x for x in hir_walk(h) if x.get("k") == "Call" and (K.callee_of(x) or "").endswith("ArraySubset::new_with_start_shape")]
        key = "%s:string-offset" % b.path
        if not calls:
            R.bad("C15-R4", key, site, "string path (ArraySubset::new_with_start_shape) not found")
        for c in calls:
            start, shape = c["args"][0], c["args"][1]

            def arr(n):
                lid = K.local_id(n)
                src = lets[lid]["init"] if lid in lets else n
                a = [y for y in hir_walk(src) if y.get("k") == "Array"]
                return a[0]["es"] if a else None
            se, sh = arr(start), arr(shape)
            if not se or not sh or len(se) != 2 or len(sh) != 2:
                R.bad("C15-R4", key, site, "cannot read start / shape of the string subset")
                continue
            off = _poly(_follow_let(se[1], lets), None, F)
            ext = _poly(_follow_let(sh[1], lets), None, F)
            atoms_off = sorted(a[1] for m in off for a in m if a[0] == "var")
            good_off = len(off) == 1 and list(off.values())[0] == 1 and [a.split(".")[-1] for a in atoms_off] == ["chunk_idx", "full_at"]
            atoms_ext = sorted(a[1] for m in ext for a in m if a[0] == "var")
            good_ext = len(ext) == 1 and [a.split(".")[-1] for a in atoms_ext] == ["len"]
            row = _poly(se[0])
            if good_off and good_ext:
                R.ok("C15-R4", key, site, "string chunk: start = (%s, %s), extent %s" % (KN.pshow(row), KN.pshow(off), KN.pshow(ext)))
            else:
                R.bad("C15-R4", key, site, "string chunk is written at offset %s with extent %s (expected chunk_idx * full_at and len): a partial chunk after the first "
                      "overwrites earlier draws" % (KN.pshow(off), KN.pshow(ext)))
        # partial numeric chunk: shape[1] = data.len
        asg = [x for x in hir_walk(h) if x.get("k") == "Assign" and K.peel(x["l"]).get("k") == "Index"]
        ok1 = False
        for x in asg:
            idx = K.num_lit(K.peel(x["l"])["i"])
            if idx == 1.0:
                p = _poly(x["r"])
                at = sorted(a[1] for m in p for a in m if a[0] == "var")
                if [a.split(".")[-1] for a in at] == ["len"]:
                    ok1 = True
        k2 = "%s:partial-extent" % b.path
        if ok1:
            R.ok("C15-R4", k2, site, "partial chunk subset has draw extent len")
        else:
            R.bad("C15-R4", k2, site, "partial numeric chunk is not written with draw extent `len`")
        # chunk index vector = once(chain).chain(once(chunk_idx)).chain(zeros)
        onces = [x for x in hir_walk(h) if x.get("k") == "Call" and (K.callee_of(x) or "").endswith("iter::once")]
        vals = [KN.pshow(_poly(o["args"][0])) for o in onces[:2]]
        k3 = "%s:chunk-index" % b.path
        if len(vals) == 2 and vals[1].split(".")[-1] == "chunk_idx" and "chain" in vals[0]:
            R.ok("C15-R4", k3, site, "chunk grid index = (%s, %s, 0, ..)" % (vals[0], vals[1]))
        else:
            R.bad("C15-R4", k3, site, "chunk grid index is built from %s (expected chain index, chunk_idx)" % vals)
    for b in F.inherent_methods("Chunk", "is_full"):
        v = None
        ds = b.defs().get(0, [])
        if len(ds) == 1 and ds[0][0] == "stmt":
            v = b.rvalue_value(ds[0][3]["rv"])
        s = vt_str(v) if v else "?"
        if v and v[0] == "bin" and v[1] == "Eq" and {"full_at", "len"} == {n[2] for n in vt_walk(v) if n[0] == "field"}:
            R.ok("C15-R4", "Chunk::is_full", "%s @%s" % (b.path, b.loc()), "is_full = (full_at == len)")
        else:
            R.bad("C15-R4", "Chunk::is_full", "%s @%s" % (b.path, b.loc()), "is_full = %s" % s)
    R.floor("C15-R4", 7 if "zarr" in C10.features(F) else 0)


def r5(F, R):
    R.rule("C15-R5", "buffer bookkeeping: SampleBuffer.current_chunk is written only as += 1 (finish_chunk) and = 0 (reset); len only as = 0 (finish_chunk) and += 1 (push); "
                     "push finishes the chunk exactly under len == full_at; total_pushed = current_chunk * full_at + len; the chunk handed out carries the index, length and "
                     "capacity of the buffer it came from")
    adt = next((p for p in F.adts if path_ends(p, "storage::zarr::common::SampleBuffer")), None)
    if adt is None:
        if "zarr" in C10.features(F):
            R.missing("C15-R5", "SampleBuffer")
        return
    for fld, allowed in (("current_chunk", {"finish_chunk": "inc", "reset": "zero", "new": "zero"}), ("len", {"finish_chunk": "zero", "push": "inc", "new": "zero"})):
        for (wb, bb, st, v, how) in K.field_writers(F, adt, fld):
            s = vt_str(v)
            kind = "zero" if (v[0] == "const" and v[2] == "0") else ("inc" if ("AddWithOverflow" in s and ("." + fld) in s and s.rstrip(")0 .").endswith("1")) or
                                                                          ("AddWithOverflow" in s and "1" in s and fld in s) else "other")
            key = "%s:%s<-%s" % (wb.path, fld, kind)
            site = "%s @%s" % (wb.path, loc(st["span"]))
            if allowed.get(wb.fn_name) == kind:
                R.ok("C15-R5", key, site, "%s.%s %s" % (wb.fn_name, fld, "+= 1" if kind == "inc" else "= 0"))
            else:
                R.bad("C15-R5", key, site, "%s writes SampleBuffer.%s as %s" % (wb.fn_name, fld, s[:60]))
    # flush support: copy_as_chunk is a snapshot of what the buffer holds now; it cannot remember earlier flushes
    a_ = F.adts.get(adt) or {}
    for f_ in (a_.get("variants") or [{}])[0].get("fields", []):
        if any(x in f_["ty"] for x in ("cell::Cell<", "cell::RefCell<", "atomic::Atomic", "sync::Mutex<", "OnceCell<", "OnceLock<", "cell::UnsafeCell<")):
            R.bad("C15-R5", "SampleBuffer.%s:interior-mutability" % f_["name"], adt, "SampleBuffer.%s: %s can change behind `&self`: a snapshot taken for a flush may depend on earlier "
                  "flushes (a chunk that was flushed at the same fill level before is skipped)" % (f_["name"], f_["ty"]))
    for b in F.inherent_methods("SampleBuffer", "copy_as_chunk"):
        from . import rel as Rl
        nones = [(bi, st) for bi, blk in enumerate(b.blocks) if not blk["cleanup"] for st in blk["stmts"]
                 if st["k"] == "assign" and st["pl"]["l"] == 0 and not st["pl"]["p"] and st["rv"]["k"] == "agg" and st["rv"].get("variant") == "None"]
        site = "%s @%s" % (b.path, b.loc())
        okk = bool(nones)
        why = ""
        for bi, st in nones:
            rels = [(o, l, r) for (o, l, r, _s) in Rl.edge_relations(b, bi) if r is not None]
            fields = set()
            for (o, l, r) in rels:
                fields |= {n[2] for n in vt_walk(l) if n[0] == "field"} | {n[2] for n in vt_walk(r) if n[0] == "field"}
            empty = any(o == "Eq" and {n[2] for n in vt_walk(l) if n[0] == "field"} == {"len"} and r[0] == "const" and r[2] == "0" for (o, l, r) in rels)
            if not empty or fields - {"len"}:
                okk = False
                why = "None is returned under a condition on %s" % sorted(fields)
        if okk:
            R.ok("C15-R5", b.path + ":snapshot", site, "copy_as_chunk returns None exactly for an empty buffer")
        else:
            R.bad("C15-R5", b.path + ":snapshot", site, "copy_as_chunk does not hand out every non-empty buffer: %s" % (why or "no `None` for the empty buffer found"))
    for b in F.inherent_methods("SampleBuffer", "reset"):
        w = {}
        for (wb, bb, st, v, how) in K.field_writers(F, adt, "current_chunk"):
            if wb.path == b.path and v[0] == "const" and v[2] == "0":
                w[bb] = w.get(bb, 0) + 1
        rng_ = K.path_count_range(b, w)
        if rng_ is not None and rng_[0] >= 1:
            R.ok("C15-R5", b.path + ":rewinds", "%s @%s" % (b.path, b.loc()), "reset rewinds the chunk index on every path")
        else:
            R.bad("C15-R5", b.path + ":rewinds", "%s @%s" % (b.path, b.loc()), "a path through reset() leaves current_chunk unchanged (%s): the sampling phase continues at the warm-up chunk index" % (rng_,))
    for b in F.inherent_methods("SampleBuffer", "push"):
        fin = b.calls_to(lambda c: path_ends(c["path"], "SampleBuffer::finish_chunk"))
        from . import rel as Rl
        okk = False
        for bb, t in fin:
            for (o, l, r, _s) in Rl.edge_relations(b, bb):
                if r is not None and o == "Eq" and {"len", "full_at"} <= ({n[2] for n in vt_walk(l) if n[0] == "field"} | {n[2] for n in vt_walk(r) if n[0] == "field"}):
                    okk = True
        if okk and len(fin) == 1:
            R.ok("C15-R5", b.path + ":finish-at-capacity", "%s @%s" % (b.path, b.loc()), "chunk finished exactly when len == full_at")
        else:
            R.bad("C15-R5", b.path + ":finish-at-capacity", "%s @%s" % (b.path, b.loc()), "push does not finish the chunk under len == full_at")
    for b in F.inherent_methods("SampleBuffer", "total_pushed"):
        if b.hir:
            p = _poly(b.hir["value"])
            txt = KN.pshow(p)
            want = {(("var", "self.current_chunk"), ("var", "self.full_at")): 1, (("var", "self.len"),): 1}
            norm = {tuple(sorted(m, key=repr)): c for m, c in p.items()}
            wantn = {tuple(sorted(m, key=repr)): c for m, c in want.items()}
            if norm == wantn:
                R.ok("C15-R5", b.path, "%s @%s" % (b.path, b.loc()), "total_pushed = %s" % txt)
            else:
                R.bad("C15-R5", b.path, "%s @%s" % (b.path, b.loc()), "total_pushed = %s (expected current_chunk * full_at + len)" % txt)
    # chunk provenance in finish_chunk / copy_as_chunk
    for nm in ("finish_chunk", "copy_as_chunk"):
        for b in F.inherent_methods("SampleBuffer", nm):
            for bi, blk in enumerate(b.blocks):
                for st in blk["stmts"]:
                    if st["k"] == "assign" and st["rv"]["k"] == "agg" and st["rv"]["ak"] == "adt" and path_ends(st["rv"]["adt"], "Chunk"):
                        m = dict(zip(st["rv"]["fields"], [b.value(o) for o in st["rv"]["ops"]]))
                        want = {"chunk_idx": "current_chunk", "len": "len", "full_at": "full_at"}
                        bad = [k for k, f in want.items() if Rl_self_field(m.get(k)) != f]
                        key = "%s:chunk-fields" % b.path
                        if not bad:
                            R.ok("C15-R5", key, "%s @%s" % (b.path, loc(st["span"])), "Chunk{chunk_idx: current_chunk, len, full_at} of this buffer")
                        else:
                            R.bad("C15-R5", key, "%s @%s" % (b.path, loc(st["span"])), "Chunk fields %s are not taken from the buffer's current_chunk / len / full_at: %s" % (
                                bad, {k: vt_str(m.get(k)) for k in bad}))
    R.floor("C15-R5", 9)


def Rl_self_field(v):
    from . import rel as Rl
    if v is None:
        return None
    while v[0] in ("cast",):
        v = v[1]
    return Rl.self_field_name(v)


def r6(F, R):
    """Counts of several chains / phases are combined component by component."""
    R.rule("C15-R6", "no storage backend orders *tuples* of counts (`(warmup, sampling).max(..)`, min, cmp, sort of pairs): the order of tuples is lexicographic, so the "
                     "second component of the result is the one of the chain with the most warm-up events, not the largest; event arrays resized to it cut off "
                     "recorded entries of the other chains")
    P = K.positive_facts()

    def scan(FF, pred):
        out = []
        for b in sorted(FF.bodies.values(), key=lambda x: x.path):
            if not pred(b):
                continue
            for bb, t in b.calls():
                c = t["callee"]
                if c.get("name") in ("max", "min", "cmp", "partial_cmp", "clamp") and (c.get("trait") or "").endswith(("cmp::Ord", "cmp::PartialOrd")):
                    st = str(c.get("self_ty") or "")
                    if st.startswith("(") and "," in st:
                        out.append((b, t, st))
        return out
    n_calls = 0
    in_storage = lambda b: b.path.startswith(("storage::", "<storage::"))    # noqa: E731
    for b in F.bodies.values():
        if in_storage(b):
            n_calls += sum(1 for _ in b.calls())
    for (b, t, st) in scan(F, in_storage):
        R.bad("C15-R6", "%s:tuple-%s" % (b.path, t["callee"]["name"]), "%s @%s" % (b.path, loc(t["span"])), "%s of values of type %s is lexicographic, not component-wise" % (
            t["callee"]["name"], st))
    R.ok("C15-R6", "scan", "storage::*", "%d call sites of the storage backends scanned" % n_calls)
    # the size an event array is trimmed to is the largest count over the chains: a minimum cuts the events of every longer chain off
    for b in sorted(F.trait_method_impls("TraceStorage", "finalize"), key=lambda x: x.path):
        if "zarr" not in b.path:
            continue
        group = [b] + K.all_closures_of(F, b.path)
        mins = [(x, t) for x in group for _bb, t in x.calls() if t["callee"].get("name") in ("min", "min_by", "min_by_key") and
                ("u64" in str(t["callee"].get("gargs")) or "u64" in str(t["callee"].get("self_ty")) or strip_generics(t["callee"].get("path", "")).startswith(("std::iter::Iterator::min", "core::iter::Iterator::min")))]
        maxs = [(x, t) for x in group for _bb, t in x.calls() if t["callee"].get("name") == "max" and strip_generics(t["callee"].get("path", "")).endswith("Iterator::max")]
        key = "%s:event-array-size" % (b.parent.get("self_adt") or b.path).split("::")[-1]
        site = "%s @%s" % (b.path, b.loc())
        if mins:
            R.bad("C15-R6", key, "%s @%s" % (mins[0][0].path, loc(mins[0][1]["span"])), "an event array is resized to a *minimum* over the chains' event counts: the events of every "
                  "chain with more events are cut off, and what is stored for a chain depends on the other chains")
        elif len(maxs) >= 2:
            R.ok("C15-R6", key, site, "event arrays are trimmed to the maximum count over the chains (%d reductions)" % len(maxs))
        else:
            R.bad("C15-R6", key, site, "cannot find the maxima (warm-up and sampling) that size the event arrays (found %d)" % len(maxs))
    got = {b.path.split("::")[-1] for (b, _t, _s) in scan(P, lambda b: True)}
    if "c15_pair_max" in got:
        R.ok("C15-R6", "positive-control", "fixtures/positive", "matcher reports the planted (u64, u64)::max")
    else:
        R.bad("C15-R6", "positive-control", "fixtures/positive", "matcher failed to report the planted tuple maximum")
    R.floor("C15-R6", 2)



def r9(F, R):
    R.rule("C15-R9", "the arrays are as long as the phase they hold: every create_arrays call of the Zarr backends whose group name contains `warmup` is given "
                     "hint_num_tune() as its draw extent, every other one hint_num_draws() - zarrs accepts chunk writes beyond the declared shape, so a "
                     "too short array does not fail, it hides the draws beyond its shape from every reader (read off the source-level tree: in the async "
                     "backend the values live in the coroutine state)")
    n = 0
    for b in sorted(F.bodies.values(), key=lambda x: x.path):
        if not (b.path.startswith(("storage::zarr", "<storage::zarr")) and b.path.endswith("::new_trace")) or not b.hir:
            continue
        lets = {}
        for x in hir_walk(b.hir["value"]):
            if x.get("k") == "Let" and x["pat"].get("k") == "Binding" and x.get("init") is not None:
                lets[x["pat"]["id"]] = x["init"]
        for x in hir_walk(b.hir["value"]):
            if x.get("k") != "Call" or not isinstance(x.get("f"), dict) or not str((x["f"].get("res") or {}).get("def", "")).split("::")[-1].startswith("create_arrays"):
                continue
            args = x.get("args") or []
            if len(args) < 6:
                continue
            n += 1
            site = "%s @%s" % (b.path, loc(x["span"]))
            def lit_text(l):
                v = str(l.get("v"))
                if v.startswith("ByteStr(["):       # format_args! template: the literal pieces as bytes
                    try:
                        return bytes(int(t_) for t_ in v[len("ByteStr(["):v.index("]")].split(",") if t_.strip()).decode("latin-1")
                    except ValueError:
                        return v
                return v
            names = [lit_text(y["lit"]) for y in hir_walk(args[1]) if y.get("k") == "Lit"]
            names = [c for c in names if "posterior" in c or "sample_stats" in c]
            key = "%s:create_arrays#%d" % ("async" if "async" in b.path else "sync", n)
            if not names:
                R.bad("C15-R9", key + ":group", site, "cannot read the group name of this create_arrays call")
                continue
            warm = any("warmup" in c for c in names)
            exts = []
            for a_ in args:
                e = K.peel(a_)
                lid = K.local_id(e)
                src = lets.get(lid) if lid is not None else e
                if src is None:
                    continue
                ms = {y.get("method") for y in hir_walk(src) if y.get("k") == "MethodCall"}
                if ms & {"hint_num_tune", "hint_num_draws"}:
                    exts.append(sorted(ms & {"hint_num_tune", "hint_num_draws"}))
            want = "hint_num_tune" if warm else "hint_num_draws"
            if len(exts) == 1 and exts[0] == [want]:
                R.ok("C15-R9", key, site, "%s arrays (%s) are %s() long" % ("warm-up" if warm else "sampling", names[0][:40], want))
            else:
                R.bad("C15-R9", key, site, "%s arrays (%s) are created with extent %s, expected %s(): draws recorded beyond that length are invisible to readers" % (
                    "warm-up" if warm else "sampling", names[0][:40], exts, want))
    if n == 0:
        R.missing("C15-R9", "create_arrays calls in the Zarr new_trace functions")
    R.floor("C15-R9", 8)



def r11(F, R):
    R.rule("C15-R11", "the shape a reader sees is changed by finalisation only: `set_shape` on a stored array is called from TraceStorage::finalize of the Zarr backends "
                      "and nowhere else. While the run goes on the event arrays keep their full extent; shrinking the published shape earlier (from inspect, say) "
                      "hides every event flushed after that point from a reader of the store until the run is finalised")
    n = 0
    for b in sorted(F.bodies.values(), key=lambda x: x.path):
        for bb, t in b.calls():
            if t["callee"].get("name") != "set_shape":
                continue
            n += 1
            key = "%s:set_shape" % b.path
            site = "%s @%s" % (b.path, loc(t["span"]))
            root = b.path.split("::{closure")[0]
            if root.endswith("::finalize") or "TraceStorage>::finalize" in root:
                R.ok("C15-R11", key, site, "array resized in finalize")
            else:
                R.bad("C15-R11", key, site, "set_shape outside TraceStorage::finalize: the published extent of a stored array changes while chains still write to it")
    R.floor("C15-R11", 4 if "zarr" in str(feats_of(F)) else 0)


def feats_of(F):
    return (F.crates and [c for c in F.crates if c["name"] == "nuts_rs"][0]["features"]) or []


def _hir_shape(F, n, lets, depth=0):
    """Structure of a HIR expression with local bindings resolved through their `let` initialisers, spans / ids dropped."""
    if isinstance(n, list):
        return [_hir_shape(F, x, lets, depth) for x in n]
    if not isinstance(n, dict):
        return n
    n = K.peel(n)
    lid = K.local_id(n)
    if lid is not None and lid in lets and depth < 6:
        return _hir_shape(F, lets[lid], lets, depth + 1)
    out = {}
    for k, v in n.items():
        if k in ("span", "id", "hir_id", "ty"):
            continue
        if k == "res" and isinstance(v, dict):
            out[k] = {kk: vv for kk, vv in v.items() if kk in ("def", "name", "local")}
            if "local" in out[k]:
                out[k] = {"name": v.get("name")}
            continue
        out[k] = _hir_shape(F, v, lets, depth)
    return out


def r12(F, R, rid="C15-R12"):
    import json as _json
    R.rule(rid, "one chunk size: in the Zarr new_trace functions the chunk length given to every create_arrays call (the chunk grid of the stored arrays) and the "
                "`draw_chunk_size` put into the trace storage (the length at which a chain's buffers count as full and are written as one chunk) are the same "
                "expression. zarrs rejects a `full` chunk that is shorter than the grid's, so two different numbers make record_sample fail for runs where they "
                "differ (read off the source-level tree)")
    n = 0
    for b in sorted(F.bodies.values(), key=lambda x: x.path):
        if not (b.path.startswith(("storage::zarr", "<storage::zarr")) and b.path.endswith("::new_trace")) or not b.hir:
            continue
        lets = {}
        for x in hir_walk(b.hir["value"]):
            if x.get("k") == "Let" and x["pat"].get("k") == "Binding" and x.get("init") is not None:
                lets[x["pat"]["id"]] = x["init"]
        grid, buf = [], []
        for x in hir_walk(b.hir["value"]):
            if x.get("k") == "Call" and isinstance(x.get("f"), dict) and str((x["f"].get("res") or {}).get("def", "")).split("::")[-1].startswith("create_arrays") \
                    and len(x.get("args") or []) >= 6:
                # the chunk-length parameter of create_arrays, by its name (a later parameter may follow it)
                idx = -1
                cb = F.any_body(str((x["f"].get("res") or {}).get("def", "")))
                if cb is not None and cb.hir and cb.hir.get("params"):
                    names = [str((q or {}).get("name") or "") for q in cb.hir["params"]]
                    hits = [i_ for i_, nm_ in enumerate(names) if "chunk" in nm_]
                    if len(hits) == 1 and len(names) == len(x["args"]):
                        idx = hits[0]
                grid.append((x["args"][idx], x.get("span")))
            if x.get("k") == "Struct" and str((x.get("res") or {}).get("def", "")).endswith("TraceStorage"):
                for f in x.get("fields") or []:
                    if f.get("name") == "draw_chunk_size" and f.get("e") is not None:
                        buf.append((f["e"], x.get("span")))
        key = "%s:chunk-size" % ("async" if "async" in b.path else "sync")
        site = "%s @%s" % (b.path, b.loc())
        n += 1
        if len(grid) < 4 or len(buf) != 1:
            R.bad(rid, key, site, "expected four create_arrays calls and one draw_chunk_size field, found %d / %d" % (len(grid), len(buf)))
            continue
        shapes = {_json.dumps(_hir_shape(F, e, lets), sort_keys=True) for e, _sp in grid + buf}
        if len(shapes) == 1:
            R.ok(rid, key, site, "chunk grid of %d array groups and the buffer length are the same expression" % len(grid))
        else:
            R.bad(rid, key, "%s @%s" % (b.path, loc(buf[0][1])) if buf[0][1] else site, "the buffer length handed to the chains and the chunk length of the arrays are different "
                  "expressions (%d distinct): a buffer that is `full` at another length than the chunk grid's makes the chunk write fail" % len(shapes))
    R.floor(rid, 2 if "zarr" in str(feats_of(F)) else 0)

def run(F, R, config=None):
    feats = C10.features(F)
    if "zarr" not in feats:
        R.not_evaluated.append("C15: feature `zarr` is not compiled in this configuration")
        R.info("C15", "Zarr backends not compiled in this configuration")
        return
    r1(F, R)
    r2(F, R)
    if "parallel" in feats:
        r3(F, R)
    r4(F, R)
    r5(F, R)
    r6(F, R)
    r9(F, R)
    r11(F, R)
    r12(F, R)
    # a chunk write whose failure is dropped leaves fill values where recorded draws should be (C13-R6 analysis restricted to the backends)
    from . import c13

    def _storage_only(sub):
        c13.r6(F, sub)
        sub.obligations = [o for o in sub.obligations if "storage::zarr" in o["site"] or o["ok"]]
    K.borrow_rule(R, _storage_only, "C15-R8", "no Zarr backend drops the Result of a chunk write without looking at it (C13-R6 analysis): a failed write that is reaped "
                  "silently makes flush() / finalize() report success for draws that are not in the store", only_rules={"C13-R6"})
    # "data flushed earlier is never corrupted by finalisation": the event arrays of the phase a chain is in are not trimmed away (C14-R13 analysis)
    from . import c14
    K.borrow_rule(R, lambda sub: c14.r13(F, sub), "C15-R7", "finalisation keeps the events of the phase the chain ended in: the (warm-up, sampling) event counts a Zarr "
                  "chain storage reports depend on its phase flag, so a trace that ends in warm-up is not trimmed to zero warm-up events (C14-R13 analysis)",
                  only_rules={"C14-R13"})
    # "after flush returns, everything recorded so far is in the store": flush and finalize skip a chain whose slot is empty, so nothing but finalisation may empty it
    if "parallel" in feats:
        from . import c11
        c11.r13(F, R, rid="C15-R10")
    R.assume("zarrs writes exactly the subset / chunk it is given; tokio's JoinSet::join_next returns None only when the set is empty")
    R.assume("chunk arithmetic for all sizes and store contents after a crash are value questions, not decided")


FEATURE_RULES = {"C15-R1": "zarr", "C15-R2": "zarr", "C15-R3": "zarr", "C15-R4": "zarr", "C15-R5": "zarr", "C15-R6": "zarr", "C15-R7": "zarr", "C15-R8": "zarr", "C15-R9": "zarr"}
CONFIGS = ["all", "zarr"]
SELFTEST = True

"""MIR inlining on the fact representation.

`inlined(F, body, pred)` returns a new Body in which every call of a workspace function selected by `pred` is replaced by the callee's
blocks (parameters bound by assignments, the return place forwarded to the call's destination). Inlining is repeated up to `depth`
levels and never follows recursion. Rules that describe one role (the worker loop, the controller's command arms) use the inlined body,
so that extracting part of the loop into a helper function does not change what they see."""
import copy

from .facts import Body


def _map_place(pl, lo, ret_map=None):
    q = {"l": pl["l"] + lo, "p": []}
    if "ty" in pl:
        q["ty"] = pl["ty"]
    for e in pl["p"]:
        if isinstance(e, dict) and "idx" in e:
            e2 = dict(e)
            e2["idx"] = e["idx"] + lo
            q["p"].append(e2)
        else:
            q["p"].append(e)
    return q


def _map_operand(o, lo):
    if o["k"] in ("copy", "move"):
        return {"k": o["k"], "pl": _map_place(o["pl"], lo)}
    return o


def _map_rvalue(rv, lo):
    r = dict(rv)
    k = rv["k"]
    if k in ("use", "cast", "repeat"):
        r["op"] = _map_operand(rv["op"], lo)
    elif k in ("ref", "rawptr", "discr"):
        r["pl"] = _map_place(rv["pl"], lo)
    elif k == "bin":
        r["a"] = _map_operand(rv["a"], lo)
        r["b"] = _map_operand(rv["b"], lo)
    elif k == "un":
        r["a"] = _map_operand(rv["a"], lo)
    elif k == "agg":
        r["ops"] = [_map_operand(o, lo) for o in rv["ops"]]
    return r


def _map_stmt(st, lo):
    s = dict(st)
    if st["k"] == "assign":
        s["pl"] = _map_place(st["pl"], lo)
        s["rv"] = _map_rvalue(st["rv"], lo)
    elif st["k"] == "setdiscr":
        s["pl"] = _map_place(st["pl"], lo)
    elif st["k"] in ("live", "dead") and "l" in st:
        s["l"] = st["l"] + lo
    return s


def _map_term(t, lo, bo, ret_target, cleanup_target=None):
    k = t["k"]
    r = dict(t)
    if k == "goto":
        r["target"] = t["target"] + bo
    elif k == "switch":
        r["discr"] = _map_operand(t["discr"], lo)
        r["arms"] = [dict(a, target=a["target"] + bo) for a in t["arms"]]
        r["otherwise"] = t["otherwise"] + bo
        if "enum_place" in t:
            r["enum_place"] = _map_place(t["enum_place"], lo)
    elif k == "call":
        r["args"] = [_map_operand(a, lo) for a in t["args"]]
        r["dest"] = _map_place(t["dest"], lo)
        c = dict(t["callee"])
        if "indirect" in c:
            c["indirect"] = _map_operand(c["indirect"], lo)
        r["callee"] = c
        if t.get("target") is not None:
            r["target"] = t["target"] + bo
        if t.get("unwind") is not None:
            r["unwind"] = t["unwind"] + bo
    elif k == "drop":
        r["pl"] = _map_place(t["pl"], lo)
        r["target"] = t["target"] + bo
        if t.get("unwind") is not None:
            r["unwind"] = t["unwind"] + bo
    elif k == "assert":
        r["cond"] = _map_operand(t["cond"], lo)
        r["target"] = t["target"] + bo
        if t.get("unwind") is not None:
            r["unwind"] = t["unwind"] + bo
    elif k == "return":
        r = {"k": "goto", "target": ret_target}
    elif k == "other":
        r["succ"] = [x + bo for x in t.get("succ", [])]
    return r


def inlined(F, body, pred, depth=2, _stack=()):
    """New Body with calls to workspace functions satisfying pred(callee Body, call terminator) inlined."""
    if depth <= 0 or not body.blocks:
        return body
    mir = copy.deepcopy(body.mir)
    blocks = mir["blocks"]
    locals_ = mir["locals"]
    changed = False
    nblocks0 = len(blocks)
    for bi in range(nblocks0):
        t = blocks[bi]["term"]
        if t["k"] != "call" or blocks[bi]["cleanup"]:
            continue
        c = t["callee"]
        tgt = c.get("resolved") or c.get("path")
        cb = F.bodies.get(tgt) if tgt else None
        if cb is None or cb.path == body.path or cb.path in _stack or cb.kind == "closure" or not cb.blocks:
            continue
        if not pred(cb, t) or t.get("target") is None:
            continue
        if len(t["args"]) != cb.arg_count:
            continue
        cb2 = inlined(F, cb, pred, depth - 1, _stack + (body.path,))
        lo = len(locals_)
        bo = len(blocks)
        for li, l in enumerate(cb2.locals):
            l2 = dict(l)
            if 1 <= li <= cb2.arg_count:
                l2["inl_param"] = True      # bound once to the call's argument
            locals_.append(l2)
        # continuation block: forward the callee's return place to the call destination
        cont = bo + len(cb2.blocks)
        for blk in cb2.blocks:
            nb = {"cleanup": blk["cleanup"], "stmts": [_map_stmt(s, lo) for s in blk["stmts"]],
                  "term": _map_term(blk["term"], lo, bo, cont)}
            blocks.append(nb)
        blocks.append({"cleanup": False,
                       "stmts": [{"k": "assign", "pl": t["dest"], "rv": {"k": "use", "op": {"k": "move", "pl": {"l": lo, "p": []}}}, "span": t.get("span")}],
                       "term": {"k": "goto", "target": t["target"]}})
        # bind the parameters, then jump into the callee
        binds = []
        for i, a in enumerate(t["args"]):
            binds.append({"k": "assign", "pl": {"l": lo + 1 + i, "p": []}, "rv": {"k": "use", "op": a}, "span": t.get("span")})
        blocks[bi]["stmts"] = blocks[bi]["stmts"] + binds
        blocks[bi]["term"] = {"k": "goto", "target": bo, "inlined_call": c.get("path"), "inlined_args": t["args"], "span": t.get("span")}
        changed = True
    if not changed:
        return body
    rec = dict(body.r)
    rec["mir"] = mir
    nb = Body(rec, F)
    nb.inlined_from = body.path
    # parameters of inlined callees are ordinary locals of the caller: Body.is_arg only looks at arg_count, which is unchanged
    return nb


def sampler_helper(cb, t):
    """Helpers of the sampler module that are not anchors of a rule themselves."""
    p = cb.path
    if not p.startswith("sampler::"):
        return False
    if cb.parent.get("trait"):
        return False
    name = cb.fn_name or ""
    sa = cb.parent.get("self_adt") or ""
    # pause/resume are inlined too: the rules speak about "a Pause/Resume command is sent to the chain's mailbox", whichever function spells it
    anchors = {"flush", "progress", "finalize_many", "start", "update", "new", "abort", "wait_timeout", "inspect"}
    if (sa.endswith("ChainProcess") or sa.endswith("Sampler") or sa.endswith("ChainProgress")) and name in anchors:
        return False
    return True

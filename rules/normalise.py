"""Decomposition normalisation.

The rules were confirmed by hand against one decomposition of nuts-rs into functions (the list in baseline_fns.json, one entry per
function path with generic arguments stripped). A function that is not in that list is a helper introduced later; because inlining is
semantics-preserving, every statically resolved call of such a helper (free function or inherent method, no trait method, no recursion) is
replaced by the helper's body, so the rules evaluate the helper's code in the context of its callers, exactly as they would had it been
written there. The list decides only *what is inlined*; no verdict depends on it.

A helper all of whose uses are inlined calls is removed from the body table (its code is already seen at every call site). A helper that
is also used as a value (function pointer, closure argument) or has no caller stays, and is seen by every all-bodies rule as its own body."""
import json
import os

from .facts import strip_generics
from .inline import inlined

HERE = os.path.dirname(os.path.abspath(__file__))
_BASE = None


def baseline():
    global _BASE
    if _BASE is None:
        _BASE = set(json.load(open(os.path.join(HERE, "baseline_fns.json"))))
    return _BASE


def key(path):
    return strip_generics(path)


def short_key(body_or_path, is_method=None):
    """Position-independent identity of a function: `Type::method` for methods, the bare name for free functions, so that an item
    moved to another module of the crate is still the baseline function it was."""
    if isinstance(body_or_path, str):
        segs = [x for x in strip_generics(body_or_path).split("::") if x]
        return "::".join(segs[-2:]) if is_method else segs[-1]
    b = body_or_path
    segs = [x for x in strip_generics(b.path).split("::") if x]
    if b.kind == "method":
        return "::".join(segs[-2:])
    return segs[-1] if segs else b.path


_SHORT = None


def baseline_short():
    global _SHORT
    if _SHORT is None:
        _SHORT = set(json.load(open(os.path.join(HERE, "baseline_short.json"))))
    return _SHORT


def _fn_value_refs(body):
    """Paths of functions used as values (not as the callee of a call) in a body."""
    out = set()

    def op(o):
        if o and o.get("k") == "const":
            f = (o.get("const") or {}).get("fn")
            if f:
                out.add(f.get("resolved") or f.get("path"))
    for blk in body.blocks:
        for st in blk["stmts"]:
            if st["k"] != "assign":
                continue
            rv = st["rv"]
            for k in ("op", "a", "b"):
                if isinstance(rv.get(k), dict):
                    op(rv[k])
            for o in rv.get("ops", []) or []:
                op(o)
        t = blk["term"]
        if t["k"] == "call":
            for a in t["args"]:
                op(a)
    return out


def normalise(F):
    """Inline helpers outside the baseline decomposition into their callers (in place). Returns the list of inlined helper paths."""
    base = baseline()
    helpers = {}
    for p, b in F.bodies.items():
        if b.kind == "closure" or not b.blocks:
            continue
        if b.parent.get("trait") or b.parent.get("kind") == "trait":
            continue
        if key(p) in base or short_key(b) in baseline_short():
            continue
        helpers[p] = b
    F.inlined_helpers = []
    if not helpers:
        return []

    def pred(cb, t):
        return cb.path in helpers
    used_as_value = set()
    for b in F.bodies.values():
        used_as_value |= _fn_value_refs(b)
    called = set()
    new = {}
    for p, b in F.bodies.items():
        if p in helpers:
            continue
        nb = inlined(F, b, pred, depth=4)
        if nb is not b:
            new[p] = nb
            for blk in nb.blocks:
                c = blk["term"].get("inlined_call")
                if c:
                    called.add(c)
    # helpers called only from helpers are reached through the recursive inlining
    for p, b in helpers.items():
        for blk in b.blocks:
            t = blk["term"]
            if t["k"] == "call":
                c = t["callee"].get("resolved") or t["callee"].get("path")
                if c in helpers and c != p:
                    called.add(c)
    F.bodies.update(new)
    # a helper is removed when it was inlined somewhere, is not used as a value, and no body that stays still calls it
    removable = {p for p in helpers if p in called and p not in used_as_value}
    while True:
        keep_calls = set()
        for p, b in F.bodies.items():
            if p in removable:
                continue
            for blk in b.blocks:
                t = blk["term"]
                if t["k"] == "call":
                    keep_calls.add(t["callee"].get("resolved") or t["callee"].get("path"))
        drop = removable & keep_calls
        if not drop:
            break
        removable -= drop
    for p in removable:
        F.removed_helpers[p] = F.bodies.pop(p)
    # closures defined inside a removed helper stay (they are bodies of their own); re-parent nothing
    F.inlined_helpers = sorted(removable)
    F._cg = None
    return F.inlined_helpers

"""Decomposition normalisation.

The rules were confirmed by hand against one decomposition of nuts-rs into functions (the list in baseline_fns.json, one entry per
function path with generic arguments stripped). A function that is not in that list is a helper introduced later; because inlining is
semantics-preserving, every statically resolved call of such a helper (free function or inherent method, no trait method, no recursion) is
replaced by the helper's body, so the rules evaluate the helper's code in the context of its callers, exactly as they would had it been
written there. The list decides only *what is inlined*; no verdict depends on it.

A helper all of whose uses are inlined calls is removed from the body table (its code is already seen at every call site). A helper that
is also used as a value (function pointer, closure argument) or has no caller stays, and is seen by every all-bodies rule as its own body."""
import json
import os

from .facts import strip_generics
from .inline import inlined

HERE = os.path.dirname(os.path.abspath(__file__))
_BASE = None


def baseline():
    global _BASE
    if _BASE is None:
        _BASE = set(json.load(open(os.path.join(HERE, "baseline_fns.json"))))
    return _BASE


def key(path):
    return strip_generics(path)


def short_key(body_or_path, is_method=None):
    """Position-independent identity of a function: `Type::method` for methods, the bare name for free functions, so that an item
    moved to another module of the crate is still the baseline function it was."""
    if isinstance(body_or_path, str):
        segs = [x for x in strip_generics(body_or_path).split("::") if x]
        return "::".join(segs[-2:]) if is_method else segs[-1]
    b = body_or_path
    segs = [x for x in strip_generics(b.path).split("::") if x]
    if b.kind == "method":
        return "::".join(segs[-2:])
    return segs[-1] if segs else b.path


_SHORT = None


def baseline_short():
    global _SHORT
    if _SHORT is None:
        _SHORT = set(json.load(open(os.path.join(HERE, "baseline_short.json"))))
    return _SHORT


def _fn_value_refs(body):
    """Paths of functions used as values (not as the callee of a call) in a body."""
    out = set()

    def op(o):
        if o and o.get("k") == "const":
            f = (o.get("const") or {}).get("fn")
            if f:
                out.add(f.get("resolved") or f.get("path"))
    for blk in body.blocks:
        for st in blk["stmts"]:
            if st["k"] != "assign":
                continue
            rv = st["rv"]
            for k in ("op", "a", "b"):
                if isinstance(rv.get(k), dict):
                    op(rv[k])
            for o in rv.get("ops", []) or []:
                op(o)
        t = blk["term"]
        if t["k"] == "call":
            for a in t["args"]:
                op(a)
    return out


def _hir_nodes(n):
    """Every dict node of a HIR tree (pre-order)."""
    if isinstance(n, dict):
        yield n
        for v in n.values():
            if isinstance(v, (dict, list)):
                yield from _hir_nodes(v)
    elif isinstance(n, list):
        for x in n:
            yield from _hir_nodes(x)


def hir_inline(F, helpers):
    """Source-level counterpart of the MIR inlining: a call of a helper outside the baseline decomposition is replaced, in the HIR tree of every
    body, by the helper's body - parameters that receive a plain local are renamed to that local, the others are bound by a `let` in front.
    Only helpers whose body is a plain expression (simple binding parameters, no `return`, no `?`) are spliced in; the rules that read the
    source-level tree (kernel models, abstract interpretation of the scale updates, name tables) then see the helper's code where it is used."""
    import copy
    ok = {}
    for p, b in helpers.items():
        if not b.hir or b.kind not in ("fn", "method"):
            continue
        params = b.hir.get("params") or []
        if not all(isinstance(q, dict) and q.get("k") == "Binding" for q in params):
            continue
        if any(n.get("k") in ("Ret", "Yield") for n in _hir_nodes(b.hir["value"])):
            continue
        ok[strip_generics(p)] = b
    if not ok:
        return 0
    count = 0
    targets = list(F.bodies.values()) + list(F.removed_helpers.values())
    for _round in range(3):
        changed = 0
        for b in targets:
            if not b.hir:
                continue
            for n in list(_hir_nodes(b.hir["value"])):
                k = n.get("k")
                callee, args = None, None
                if k == "Call" and isinstance(n.get("f"), dict) and n["f"].get("k") == "Path":
                    callee = (n["f"].get("res") or {}).get("def")
                    args = n.get("args") or []
                elif k == "MethodCall" and n.get("callee"):
                    callee = n["callee"]
                    args = [n.get("recv")] + list(n.get("args") or [])
                if not callee:
                    continue
                hb = ok.get(strip_generics(callee))
                if hb is None or hb is b:
                    continue
                params = hb.hir["params"]
                if len(params) != len(args) or any(a is None for a in args):
                    continue
                body = copy.deepcopy(hb.hir["value"])
                rename = {}
                lets = []
                for q, a in zip(params, args):
                    a_ = a
                    while isinstance(a_, dict) and a_.get("k") in ("AddrOf",) and False:
                        a_ = a_.get("e")
                    if isinstance(a_, dict) and a_.get("k") == "Path" and (a_.get("res") or {}).get("local"):
                        rename[q["id"]] = a_["res"]
                    else:
                        lets.append({"k": "Let", "pat": copy.deepcopy(q), "init": a, "els": None, "src": "Normal", "span": n.get("span")})
                if rename:
                    for x in _hir_nodes(body):
                        if x.get("k") == "Path" and (x.get("res") or {}).get("local") in rename:
                            x["res"] = dict(rename[x["res"]["local"]])
                new = {"k": "Block", "stmts": lets, "expr": body, "unsafe": False, "span": n.get("span"), "ty": n.get("ty"), "inlined_from": callee}
                n.clear()
                n.update(new)
                changed += 1
        count += changed
        if not changed:
            break
    return count


def hir_flatten(F):
    """Source-level counterpart of Facts.transparent: `e.g.f` with `g` a regrouping field becomes `e.f`."""
    if not getattr(F, "transparent", None):
        return 0
    tys = {}
    for (xp, g) in F.transparent:
        for f in F.adts[xp]["variants"][0]["fields"]:
            if f["name"] == g:
                tys.setdefault(g, set()).add(strip_generics(f.get("adt") or ""))
    n = 0
    for b in list(F.bodies.values()) + list(F.removed_helpers.values()):
        if not b.hir:
            continue
        for x in _hir_nodes(b.hir["value"]):
            if x.get("k") == "Field" and isinstance(x.get("e"), dict):
                e = x["e"]
                while isinstance(e, dict) and e.get("k") == "Field" and e.get("name") in tys and \
                        strip_generics(str(e.get("ty") or "").replace("&mut ", "").replace("&", "").strip()) in tys[e["name"]]:
                    e = e["e"]
                    n += 1
                x["e"] = e
    return n


def normalise(F):
    """Inline helpers outside the baseline decomposition into their callers (in place). Returns the list of inlined helper paths."""
    base = baseline()
    helpers = {}
    for p, b in F.bodies.items():
        if b.kind == "closure" or not b.blocks:
            continue
        if b.parent.get("trait") or b.parent.get("kind") == "trait":
            continue
        if key(p) in base or short_key(b) in baseline_short():
            continue
        helpers[p] = b
    F.inlined_helpers = []
    if not helpers:
        return []
    F.hir_inlined = hir_inline(F, helpers)
    hir_flatten(F)

    def pred(cb, t):
        return cb.path in helpers
    used_as_value = set()
    for b in F.bodies.values():
        used_as_value |= _fn_value_refs(b)
    called = set()
    new = {}
    for p, b in F.bodies.items():
        if p in helpers:
            continue
        nb = inlined(F, b, pred, depth=4)
        if nb is not b:
            new[p] = nb
            for blk in nb.blocks:
                c = blk["term"].get("inlined_call")
                if c:
                    called.add(c)
    # helpers called only from helpers are reached through the recursive inlining
    for p, b in helpers.items():
        for blk in b.blocks:
            t = blk["term"]
            if t["k"] == "call":
                c = t["callee"].get("resolved") or t["callee"].get("path")
                if c in helpers and c != p:
                    called.add(c)
    F.bodies.update(new)
    # a helper is removed when it was inlined somewhere, is not used as a value, and no body that stays still calls it
    removable = {p for p in helpers if p in called and p not in used_as_value}
    while True:
        keep_calls = set()
        for p, b in F.bodies.items():
            if p in removable:
                continue
            for blk in b.blocks:
                t = blk["term"]
                if t["k"] == "call":
                    keep_calls.add(t["callee"].get("resolved") or t["callee"].get("path"))
        drop = removable & keep_calls
        if not drop:
            break
        removable -= drop
    for p in removable:
        F.removed_helpers[p] = F.bodies.pop(p)
    # closures defined inside a removed helper stay (they are bodies of their own); re-parent nothing
    F.inlined_helpers = sorted(removable)
    F._cg = None
    return F.inlined_helpers

"""Helpers shared by rule modules (HIR shape queries, field writers)."""
from .facts import path_ends, strip_generics, hir_walk, vt_walk, vt_str


# ---------------- HIR shape helpers ----------------
def peel(n):
    """Strip blocks without statements, references, derefs, casts-to-same, DropTemps."""
    while isinstance(n, dict):
        k = n.get("k")
        if k == "Block" and not n["stmts"] and n.get("expr"):
            n = n["expr"]
        elif k == "AddrOf":
            n = n["e"]
        elif k == "Unary" and n.get("op") == "*":
            n = n["a"]
        elif k in ("Use",):
            n = n["e"]
        else:
            break
    return n


def local_id(n):
    n = peel(n)
    if isinstance(n, dict) and n.get("k") == "Path" and "local" in n["res"]:
        return n["res"]["local"]
    return None


def local_name(n):
    n = peel(n)
    if isinstance(n, dict) and n.get("k") == "Path" and "local" in n["res"]:
        return n["res"]["name"]
    return None


def num_lit(n):
    n = peel(n)
    if not isinstance(n, dict):
        return None
    if n.get("k") == "Lit" and n["lit"]["lk"] in ("int", "float"):
        return float(n["lit"]["v"])
    if n.get("k") == "Unary" and n["op"] == "-":
        v = num_lit(n["a"])
        return -v if v is not None else None
    return None


def pat_variant(p):
    """Pattern that matches exactly one enum variant (no payload constraints) -> variant name."""
    k = p.get("k")
    if k == "PExpr" and p["e"]["k"] == "PPath":
        return p["e"]["res"].get("name")
    if k in ("TupleStruct", "Struct"):
        return p["res"].get("name")
    if k in ("Ref",):
        return pat_variant(p["pat"])
    return None


def tail_leaves(n, conds=()):
    """[(conds, leaf_expr)] for the value an expression evaluates to; conds = ((cond_node, polarity), ...)"""
    n0 = n
    n = peel(n)
    k = n.get("k")
    if k == "Block":
        return tail_leaves(n["expr"], conds) if n.get("expr") else [(conds, n)]
    if k == "If" and n.get("else"):
        return tail_leaves(n["then"], conds + ((n["cond"], True),)) + tail_leaves(n["else"], conds + ((n["cond"], False),))
    if k == "Match":
        out = []
        for a in n["arms"]:
            out += tail_leaves(a["body"], conds + ((n["scrut"], a["pat"]),))
        return out
    return [(conds, n)]


def param_bindings(b):
    """[(binding id, name)] of simple parameters, in order (self included)."""
    out = []
    for p in b.hir["params"]:
        q = p
        while q.get("k") in ("Ref",):
            q = q["pat"]
        if q.get("k") == "Binding":
            out.append((q["id"], q["name"]))
        else:
            out.append((None, None))
    return out


def index_call_on(n):
    """`x.index_in_trajectory()` -> binding id of x."""
    n = peel(n)
    if n.get("k") == "MethodCall" and n["method"] == "index_in_trajectory":
        return local_id(n["recv"])
    return None


def self_other_field(n):
    """`self.left` / `other.right` -> (root name, field)"""
    n = peel(n)
    if n.get("k") == "Field":
        root = local_name(n["e"])
        if root is not None:
            return (root, n["name"])
    return None


def impl_trait_args(F, b):
    for i in F.impls:
        if i["path"] == b.parent.get("impl"):
            return i.get("trait_args", [])
    return []


def method_calls(n, suffix):
    return [x for x in hir_walk(n) if x.get("k") in ("MethodCall", "Call") and path_ends(callee_of(x), suffix)]


def callee_of(n):
    if n.get("k") == "MethodCall":
        return n.get("callee")
    if n.get("k") == "Call":
        f = peel(n["f"])
        if f.get("k") == "Path":
            return f["res"].get("def") or n.get("callee")
        return n.get("callee")
    return None


# ---------------- MIR helpers ----------------
def direction_draw_callee(F, c, term, body, depth=0):
    """Is this call a draw of a `Direction` from an rng that is a parameter of `body`?"""
    p = strip_generics(c.get("path", ""))
    gargs = c.get("gargs", [])
    is_draw = (p in ("rand::RngExt::random", "rand::Rng::random", "rand::Rng::gen") and any(path_ends(g, "Direction") for g in gargs)) or \
              (p.endswith("Distribution::sample") and any(path_ends(g, "Direction") for g in gargs)) or \
              (p in ("rand::RngExt::sample", "rand::Rng::sample") and any(path_ends(g, "Direction") for g in gargs))
    rng_from_param = False
    for a in term["args"]:
        v = body.value(a)
        for n in vt_walk(v):
            if n[0] == "arg" and ("Rng" in body.local_ty(n[1]) or body.local_ty(n[1]).startswith("&mut R") or (n[2] or "").startswith("rng")):
                rng_from_param = True
    if is_draw:
        return rng_from_param
    # one level of helper: a workspace fn whose result is such a draw of its own rng parameter
    tgt = c.get("resolved") or c.get("path")
    hb = F.bodies.get(tgt)
    if hb is not None and depth < 2 and rng_from_param:
        ret_defs = hb.defs().get(0, [])
        if len(ret_defs) == 1 and ret_defs[0][0] == "call":
            t2 = ret_defs[0][3]
            return direction_draw_callee(F, t2["callee"], t2, hb, depth + 1)
    return False


def _place_field(pl, adt, field):
    """Does the place project field `field` of ADT `adt` (last projection)? returns index of that projection."""
    for i, e in enumerate(pl["p"]):
        if isinstance(e, dict) and "f" in e and e.get("n") == field and e.get("of") and path_ends(e["of"], adt):
            return i
    return None


def ctor_field_value(F, v):
    """`Struct { a, ..Struct::new(x) }`: a field taken from the result of a workspace constructor is the value the constructor stores there,
    when that is a constant (the same in every context)."""
    if v[0] == "field" and v[1][0] == "call":
        c = v[1][3]
        cb = F.bodies.get(c.get("resolved") or c.get("path")) if isinstance(c, dict) else None
        if cb is not None and cb.blocks:
            vals = []
            for blk in cb.blocks:
                for st in blk["stmts"]:
                    if st["k"] == "assign" and st["pl"]["l"] == 0 and not st["pl"]["p"] and st["rv"]["k"] == "agg" and st["rv"].get("ak") == "adt" \
                            and v[2] in (st["rv"].get("fields") or []):
                        vals.append(cb.value(st["rv"]["ops"][st["rv"]["fields"].index(v[2])]))
            if len(vals) == 1 and (vals[0][0] == "const" or (vals[0][0] == "call" and not vals[0][2])):
                return vals[0]      # a constant, or a fresh value from a constructor without arguments (the same in every context)
    return v


def self_field_owner(F, adt, v):
    """For a value tree `self.a.b.f` (fields of `adt`, possibly grouped into sub-structs): the ADT that declares `f`."""
    chain = []
    x = v
    while x[0] in ("field", "deref", "ref"):
        if x[0] == "field":
            chain.append(x[2])
        x = x[1]
    chain.reverse()
    cur = adt
    for name in chain[:-1]:
        a = F.adts.get(cur)
        nxt = None
        for f in ((a or {}).get("variants") or [{}])[0].get("fields", []):
            if f["name"] == name:
                nxt = f.get("adt")
        if nxt is None:
            return adt
        cur = nxt
    return cur


def field_owner(F, adt, field, depth=0):
    """The ADT that declares `field`: `adt` itself, or - when the fields of `adt` were grouped into sub-structs (`self.core.state`,
    `self.window.draws`) - the unique local struct among its fields (two levels deep) that declares it."""
    a = None
    for p_, r in F.adts.items():
        if p_ == adt or path_ends(p_, adt):
            a = r
            break
    if a is None or not a.get("variants"):
        return adt
    fields = a["variants"][0].get("fields", [])
    if any(f["name"] == field for f in fields) or depth >= 2:
        return adt
    found = set()
    for f in fields:
        sub = f.get("adt")
        if sub and sub in F.adts and sub != a.get("path") and (F.adts[sub].get("kind") == "struct"):
            o = field_owner(F, sub, field, depth + 1)
            oa = F.adts.get(o)
            if oa and any(x["name"] == field for x in oa["variants"][0].get("fields", [])):
                found.add(o)
    return next(iter(found)) if len(found) == 1 else adt


def field_writers(F, adt, field):
    """All MIR writes of `adt.field`: [(body, bb, stmt_or_term, value_tree, how)].

    how = 'assign' (direct store to the field, last projection), 'agg' (struct construction),
    'call' (call result stored into the field)."""
    out = []
    if adt is None:
        return out
    adt = field_owner(F, adt, field)
    for b in F.bodies.values():
        for bi, blk in enumerate(b.blocks):
            if blk["cleanup"]:
                continue
            for st in blk["stmts"]:
                if st["k"] != "assign":
                    continue
                i = _place_field(st["pl"], adt, field)
                if i is not None and i == len(st["pl"]["p"]) - 1:
                    out.append((b, bi, st, b.rvalue_value(st["rv"]), "assign"))
                rv = st["rv"]
                if rv["k"] == "agg" and rv["ak"] == "adt" and path_ends(rv["adt"], adt) and field in rv["fields"]:
                    op = rv["ops"][rv["fields"].index(field)]
                    out.append((b, bi, st, ctor_field_value(F, b.value(op)), "agg"))
            t = blk["term"]
            if t["k"] == "call":
                i = _place_field(t["dest"], adt, field)
                if i is not None and i == len(t["dest"]["p"]) - 1:
                    c = t["callee"]
                    v = ("call", c.get("path", "?"), [b.value(a) for a in t["args"]], c)
                    out.append((b, bi, t, v, "call"))
    out.sort(key=lambda x: (x[0].path, x[1]))
    return out


def field_mut_borrows(F, adt, field, exclude_ctor=True):
    """&mut borrows of adt.field (possible indirect writers): [(body, stmt)]."""
    out = []
    if adt is None:
        return out
    for b in F.bodies.values():
        for bi, blk in enumerate(b.blocks):
            if blk["cleanup"]:
                continue
            for st in blk["stmts"]:
                if st["k"] == "assign" and st["rv"]["k"] in ("ref", "rawptr") and st["rv"].get("bk") in ("mut", "Mut"):
                    i = _place_field(st["rv"]["pl"], adt, field)
                    if i is not None:
                        out.append((b, st))
    return out


def same_local_root(a, b):
    """Two value trees rooted at the same MIR local (through refs/derefs)."""
    def root(v):
        while isinstance(v, tuple) and v[0] in ("ref", "deref", "field"):
            v = v[1]
        return v
    ra, rb = root(a), root(b)
    return ra[0] in ("local", "arg") and ra[:2] == rb[:2]


def term_span(t):
    return t.get("span")


def switch_cond_values(b, bb):
    """Value trees of the conditions that control block bb (transitively)."""
    out = []
    for (a, s) in b.control_deps_trans(bb):
        t = b.blocks[a]["term"]
        if t["k"] == "switch":
            arm = None
            for x in t["arms"]:
                if x["target"] == s:
                    arm = x
            out.append((a, s, b.value(t["discr"]), arm, t))
    return out


def root_local(b, operand, depth=0):
    """The user-level local an operand refers to, looking through `&`/`&mut` temporaries and moves."""
    if operand["k"] not in ("copy", "move"):
        return None
    l = operand["pl"]["l"]
    if b.is_arg(l) or depth > 10:
        return l
    ds = b.defs().get(l, [])
    if b.locals[l].get("inl_param"):
        # the parameter of an inlined helper: stores through it (`(*self).f = ..`) do not redefine it
        ds = [d for d in ds if not (d[3]["pl" if d[0] == "stmt" else "dest"]["p"][:1] == ["*"])]
    if len(ds) == 1 and ds[0][0] == "stmt" and ds[0][3]["k"] == "assign" and not ds[0][3]["pl"]["p"]:
        rv = ds[0][3]["rv"]
        if rv["k"] in ("ref", "rawptr"):
            return root_local(b, {"k": "copy", "pl": rv["pl"]}, depth + 1) if not rv["pl"]["p"] or rv["pl"]["p"] == ["*"] else rv["pl"]["l"]
        if rv["k"] == "use" and rv["op"]["k"] in ("copy", "move") and (not b.local_name(l) or b.locals[l].get("inl_param")):
            return root_local(b, rv["op"], depth + 1)
    return l


def resolve_call_def(b, l, depth=0):
    """If local l is (a move of) the result of exactly one call, return (bb, term)."""
    ds = b.defs().get(l, [])
    if len(ds) != 1 or depth > 10:
        return None
    d = ds[0]
    if d[0] == "call":
        return (d[1], d[3])
    st = d[3]
    if st["k"] == "assign" and st["rv"]["k"] == "use" and st["rv"]["op"]["k"] in ("copy", "move") and not st["rv"]["op"]["pl"]["p"]:
        return resolve_call_def(b, st["rv"]["op"]["pl"]["l"], depth + 1)
    return None


def is_std_derive(b):
    sp = b.span
    return bool(sp.get("exp") and "Derive" in sp.get("macro", "") and not sp.get("macro_local", False))


# ---------------- positive-control facts ----------------
_POS = {}


def positive_facts():
    """Facts of fixtures/positive (a tiny crate full of forbidden constructs), extracted with the same driver.

    Rules whose expected match count on nuts-rs is zero run their matcher on these facts on every run and
    fail closed when the matcher does not report the planted construct (a silent matcher proves nothing)."""
    if "F" not in _POS:
        import os
        from . import extract as X
        from .facts import Facts
        d, m = X.extract(os.path.join(X.VERIF, "fixtures", "positive"), "all", target_tag="pos")
        _POS["F"] = Facts(d, m)
    return _POS["F"]


def all_closures_of(F, fn_path):
    """Transitive closures (bodies) nested in fn_path."""
    return sorted([b for b in F.bodies.values() if b.kind == "closure" and b.path.startswith(fn_path + "::{closure")], key=lambda b: b.path)


def call_name(t):
    return t["callee"].get("name")


def callee_path(t):
    c = t["callee"]
    return strip_generics(c.get("path") or "")


def capture_sources(F, cb):
    """For a closure / async-block body: {captured var name: (parent body, value tree of the captured operand)}."""
    out = {}
    for pb in F.bodies.values():
        if not cb.path.startswith(pb.path + "::{closure"):
            continue
        for blk in pb.blocks:
            for st in blk["stmts"]:
                if st["k"] == "assign" and st["rv"]["k"] == "agg" and st["rv"].get("closure") == cb.path:
                    for c, op in zip(cb.captures, st["rv"]["ops"]):
                        out[c["var"]] = (pb, pb.value(op))
    return out


def path_count_range(b, weight, start=0, targets=None):
    """(min, max) of the summed block weights over all paths from `start` to a normal return (or to any block in `targets`).

    If the region between start and the targets is acyclic the count is exact over all paths (edges that are back edges of an
    enclosing loop are followed, since they cannot close a cycle inside the region). Otherwise back edges are cut, i.e. each inner
    loop body is traversed at most once. weight: dict bb -> int. Returns None when no path reaches a target / return."""
    succ = b.succ_map()
    exits = set(b.exits()) if targets is None else set(targets)
    # region reachable from start without passing through a target
    region = set()
    st = [start]
    while st:
        x = st.pop()
        if x in region:
            continue
        region.add(x)
        if x in exits:
            continue
        for y in succ[x]:
            st.append(y)
    # cycle detection inside the region (targets are sinks)
    color = {}
    cyclic = False
    stack = [(start, iter(succ[start] if start not in exits else []))]
    color[start] = 1
    while stack and not cyclic:
        x, it = stack[-1]
        adv = False
        for y in it:
            if y not in region:
                continue
            if y in exits and y != start:
                color.setdefault(y, 2)
                continue
            c = color.get(y, 0)
            if c == 1:
                cyclic = True
                break
            if c == 0:
                color[y] = 1
                stack.append((y, iter(succ[y])))
                adv = True
                break
        if not adv and not cyclic:
            color[x] = 2
            stack.pop()
    back = set(b.back_edges()) if cyclic else set()
    memo = {}
    import sys
    sys.setrecursionlimit(10000)

    def go(x, onpath):
        if x in memo:
            return memo[x]
        w = weight.get(x, 0)
        if x in exits and (x != start or targets is None):
            memo[x] = (w, w)
            return memo[x]
        lo, hi = None, None
        for y in succ[x]:
            if y in exits and targets is not None:
                r = (weight.get(y, 0), weight.get(y, 0))
            elif (x, y) in back or y in onpath:
                continue
            else:
                r = go(y, onpath | {x})
            if r is None:
                continue
            lo = r[0] if lo is None else min(lo, r[0])
            hi = r[1] if hi is None else max(hi, r[1])
        if lo is None:
            memo[x] = None
            return None
        memo[x] = (lo + w, hi + w)
        return memo[x]
    return go(start, frozenset())


def reach_feasible(b, start, avoid=(), known=None):
    """See Body.reach_feasible."""
    return b.reach_feasible(start, avoid, known)


def iter_paths(b, start, targets, within=None, oracle=None, max_steps=60000):
    """Acyclic paths from `start`, path-sensitive for booleans and enum values built on the path (Body.feasible_step).
    -> (hits, exits): hits = [(target block, [(switch bb, truth value)..], (blocks of the path..))] for every path that reaches a block of `targets`;
    exits = [(from bb, to bb, [(switch bb, truth)..])] for every path that leaves `within`. The truth values are those of the boolean
    switches passed on the way (the condition of switch bb evaluated to that value)."""
    targets = set(targets)
    hits, exits = [], []
    stack = [(start, {}, (), frozenset([start]), (start,))]
    steps = 0
    while stack:
        steps += 1
        if steps > max_steps:
            return None, None
        x, env, conds, seen, path = stack.pop()
        if x in targets and x != start:
            hits.append((x, list(conds), path))
            continue
        env2, nxt, _dec = b.feasible_step(x, env, oracle)
        t = b.blocks[x]["term"]
        for y in nxt:
            c2 = conds
            if t["k"] == "switch" and t.get("discr_ty") == "bool":
                val = None
                for arm in t["arms"]:
                    if arm["target"] == y:
                        val = (arm["val"] != 0)
                if val is None and t["otherwise"] == y:
                    vals = {arm["val"] for arm in t["arms"]}
                    val = True if vals == {0} else False if vals == {1} else None
                if val is not None:
                    c2 = conds + ((x, val),)
            if within is not None and y not in within:
                exits.append((x, y, list(c2)))
                continue
            if y in seen:
                continue
            stack.append((y, env2, c2, seen | {y}, path + (y,)))
    return hits, exits


def depth_relation(b, sw, val):
    """The comparison of a tree depth that the boolean switch `sw` establishes on its `val` edge: (op, name of the other operand) with the
    depth on the left (`tree.depth < maxdepth` -> ('Lt', 'maxdepth')), None when the condition is not such a comparison."""
    from . import rel as Rl
    v_ = b.value(b.blocks[sw]["term"]["discr"])
    if v_[0] == "un" and v_[1] == "Not":
        v_, val = v_[2], not val
    if v_[0] != "bin" or v_[1] not in Rl.NEG:
        return None
    op = v_[1] if val else Rl.NEG[v_[1]]
    l_, r_ = v_[2], v_[3]

    def nm(x):
        return x[2] if x[0] in ("field", "local", "arg") and len(x) > 2 else None
    if nm(r_) == "depth":
        l_, r_, op = r_, l_, Rl.FLIP[op]
    if nm(l_) != "depth":
        return None
    return (op, nm(r_))


def borrow_rule(R, func, new_rid, text, only_rules=None, only_keys=None):
    """Run a rule of another property (func(sub_report)) and account its obligations under `new_rid` of this property:
    a clause that one property shares with another is decided by the same analysis, reported under this property's id."""
    from .report import Report
    sub = Report(R.prop, R.tier)
    func(sub)
    R.rule(new_rid, text)
    for o in sub.obligations:
        if only_rules is not None and o["rule"] not in only_rules:
            continue
        if only_keys is not None and not only_keys(o["key"]):
            continue
        if o["ok"]:
            R.ok(new_rid, o["key"], o["site"], o["detail"])
        else:
            R.bad(new_rid, o["key"], o["site"], "[%s] %s" % (o["rule"], o["detail"]))
    for a in sub.assumptions:
        R.assume(a)


def loop_trip_count(b, h, body):
    """Number of iterations of a natural loop as a value tree, for the counting idioms:
    `for _ in 0..N`, `let mut r = N; while r > 0 { ..; r -= 1 }` (also `r != 0`), `let mut i = 0; while i < N { ..; i += 1 }`.
    Returns (tree, how) or (None, None)."""
    from .facts import strip_generics, vt_walk
    # (1) range-driven
    for bb in sorted(body):
        t = b.blocks[bb]["term"]
        if t["k"] == "call" and strip_generics(t["callee"].get("path", "")).endswith("Iterator::next"):
            v = b.value(t["args"][0])
            for n in vt_walk(v):
                if n[0] == "agg" and str(n[1]).endswith("Range") and len(n[2]) == 2:
                    st_, en_ = n[2]
                    if st_[0] == "const" and st_[2] == "0":
                        return en_, "for _ in 0..N"
    # (2) counters
    for bb in sorted(body):
        t = b.blocks[bb]["term"]
        if t["k"] != "switch" or t.get("discr_ty") != "bool":
            continue
        tg = [a["target"] for a in t["arms"]] + [t["otherwise"]]
        if all(x in body for x in tg):
            continue
        # the discriminant is defined by a comparison in the loop (its local is reassigned every iteration)
        dl = t["discr"]["pl"]["l"] if t["discr"]["k"] in ("copy", "move") and not t["discr"]["pl"]["p"] else None
        cmpd = [d for d in b.defs().get(dl, []) if d[0] == "stmt" and d[3]["k"] == "assign" and d[3]["rv"]["k"] == "bin"] if dl is not None else []
        if len(cmpd) != 1:
            continue
        rv = cmpd[0][3]["rv"]
        op, oa, ob = rv["op"], rv["a"], rv["b"]

        def counter(o):
            if o["k"] in ("copy", "move") and not o["pl"]["p"]:
                l = o["pl"]["l"]
                # look through one copy temp
                ds = b.defs().get(l, [])
                if len(ds) == 1 and ds[0][0] == "stmt" and ds[0][3]["k"] == "assign" and ds[0][3]["rv"]["k"] == "use" and \
                        ds[0][3]["rv"]["op"]["k"] in ("copy", "move") and not ds[0][3]["rv"]["op"]["pl"]["p"]:
                    l = ds[0][3]["rv"]["op"]["pl"]["l"]
                    ds = b.defs().get(l, [])
                inside = [d for d in ds if d[1] in body]
                outside = [d for d in ds if d[1] not in body]
                if len(inside) == 1 and len(outside) == 1 and inside[0][0] == "stmt" and outside[0][0] == "stmt":
                    iv = b.rvalue_value(inside[0][3]["rv"])
                    step = None
                    if iv[0] == "field" and iv[1][0] == "bin" and iv[1][1] in ("SubWithOverflow", "AddWithOverflow") and iv[1][3][0] == "const" and iv[1][3][2] == "1":
                        step = -1 if iv[1][1].startswith("Sub") else 1
                    elif iv[0] == "bin" and iv[1] in ("Sub", "Add") and iv[3][0] == "const" and iv[3][2] == "1":
                        step = -1 if iv[1] == "Sub" else 1
                    if step is not None:
                        return l, step, b.rvalue_value(outside[0][3]["rv"])
            return None
        ca, cb_ = counter(oa), counter(ob)
        va, vb = b.value(oa), b.value(ob)
        if ca and ca[1] == -1 and op in ("Gt", "Ne") and vb[0] == "const" and vb[2] == "0":
            return ca[2], "countdown from N"
        if cb_ and cb_[1] == -1 and op in ("Lt", "Ne") and va[0] == "const" and va[2] == "0":
            return cb_[2], "countdown from N"
        if ca and ca[1] == 1 and op in ("Lt", "Ne") and ca[2][0] == "const" and ca[2][2] == "0":
            return vb, "count up to N"
        if cb_ and cb_[1] == 1 and op in ("Gt", "Ne") and cb_[2][0] == "const" and cb_[2][2] == "0":
            return va, "count up to N"
    return None, None


def for_each_view(n):
    """An element loop in either spelling, as a `recv.for_each(|pat| body)` node: the method call itself, or a `for pat in recv { body }`
    (HIR: Match[ForLoopDesugar] over into_iter(recv) around a loop matching next()) whose body has no break / continue / return."""
    from .facts import hir_walk
    n = peel(n)
    if not isinstance(n, dict):
        return None
    if n.get("k") == "MethodCall" and n.get("method") == "for_each":
        return n
    if n.get("k") == "Match" and n.get("src") == "ForLoopDesugar" and len(n.get("arms", [])) == 1:
        sc = peel(n["scrut"])
        lp = peel(n["arms"][0]["body"])
        if sc.get("k") != "Call" or not sc.get("args") or lp.get("k") != "Loop":
            return None
        blk = peel(lp["body"])
        stmts = blk.get("stmts", []) if blk.get("k") == "Block" else []
        inner = peel(stmts[0]["e"]) if len(stmts) == 1 and stmts[0].get("k") in ("ExprStmt", "Semi") else (peel(blk.get("expr")) if blk.get("k") == "Block" and blk.get("expr") else None)
        if not inner or inner.get("k") != "Match" or inner.get("src") != "ForLoopDesugar":
            return None
        some = [a for a in inner["arms"] if a["pat"].get("k") == "Struct" and (a["pat"].get("res") or {}).get("name") == "Some"]
        if len(some) != 1 or not some[0]["pat"].get("fields"):
            return None
        body = some[0]["body"]
        if any(x.get("k") in ("Break", "Continue", "Ret") for x in hir_walk(body)):
            return None
        return {"k": "MethodCall", "method": "for_each", "recv": sc["args"][0], "span": n.get("span"), "synthetic_for": True,
                "args": [{"k": "Closure", "params": [some[0]["pat"]["fields"][0]["pat"]], "body": body, "span": n.get("span")}]}
    return None


def known_bools_at(b, bb):
    """{local: bool} for boolean locals whose value is fixed when block bb executes: the discriminants of the switches bb is control dependent on
    (and the variables they are plain copies of). Feeds Body.reach_feasible(.., known=..)."""
    known = {}
    for (a, s_) in b.control_deps_trans(bb):
        t = b.blocks[a]["term"]
        if t["k"] != "switch" or t.get("discr_ty") != "bool" or t["discr"]["k"] not in ("copy", "move") or t["discr"]["pl"]["p"]:
            continue
        val = None
        for arm in t["arms"]:
            if arm["target"] == s_:
                val = (arm["val"] != 0)
        if val is None and t["otherwise"] == s_:
            vs = {arm["val"] for arm in t["arms"]}
            val = True if vs == {0} else (False if vs == {1} else None)
        if val is None:
            continue
        l = t["discr"]["pl"]["l"]
        for _ in range(4):
            known[l] = val
            ds = b.defs().get(l, [])
            if len(ds) == 1 and ds[0][0] == "stmt" and ds[0][3]["k"] == "assign" and ds[0][3]["rv"]["k"] == "use" and \
                    ds[0][3]["rv"]["op"]["k"] in ("copy", "move") and not ds[0][3]["rv"]["op"]["pl"]["p"]:
                l = ds[0][3]["rv"]["op"]["pl"]["l"]
            else:
                break
    return known

"""C07 - step-size adaptation steers acceptance to the target and stays bounded (structural / order-theoretic clauses)."""
from .facts import path_ends, loc, strip_generics, hir_walk, vt_walk, vt_str
from . import common as K
from . import rel as Rl
from .mono import Interp, AV, Iv, INF
from .sib import canon, Subst, show

LEVEL = ("Abstract interpretation (interval x monotonicity) of DualAverage::advance proves, for the documented parameter domains, that the "
         "averaged gradient is non-increasing and both log step sizes are non-decreasing in the new and in every earlier acceptance "
         "statistic (R1); the stored log step and the value averaged into the adapted step have passed min(.., ln(max_step_size)) (R2); "
         "Adam's increment has the sign of the smoothed (accept - target) and the smoothing is monotone (R3); the early/late statistic "
         "lanes agree with the public stat names (R4); the doubling and halving arms of the initial search are mirror images and every "
         "trial step is measured by a freshly initialised collector (R5/R6); the acceptance collector adds exactly one sample per "
         "leapfrog to each running mean on every path, so the statistic is never 0/0 after a leapfrog (R7), and every leapfrog outcome (Ok or Divergence) is registered with the collector exactly once (R8). Numeric identities (weighted average as a number, "
         "bracketing, closed-loop acceptance) are not decided."
         " Added (round 5): outside advance() both iterates of the dual average are written with the same start value (R2 start-value clause); the interpreter forgets what it knows about self's fields at an opaque call on self."
         " Added (round 6): the step-size settings reach the strategy as the user set them - no clamp, no constant override, no defaulted struct in Settings::new_chain (R11, rules/convert.py); the initial search lies on every path to Ok of AdaptStrategy::init (R12). A diverging trial step of the search is scored (acceptance 0), never a reason to return with the unsearched step (R13; decided F19).")
EXPLANATION = ("MONO abstract interpreter over the HIR of the advance() bodies with induction over struct fields; FLOW lanes over MIR; "
               "SIB mirror comparison of the search arms; dominance of register_init over each trial leapfrog.")
TRUSTED = ["rustc nightly HIR/MIR", "nutsfacts extractor", "rules/mono.py, rules/c07.py", "f64 methods sqrt/ln/exp/min/powf are monotone as documented"]
TECHNIQUE = "static analysis: abstract interpretation (interval x monotonicity x sign tags) + sibling mirror comparison + dominance"

PARAM_DOMAINS = {
    # documented domains of the options (assumptions, listed in the evidence)
    "*.t0": Iv(0, INF, False, True), "*.gamma": Iv(0, INF, True, True), "*.k": Iv(0, INF, False, True),
    "*.max_step_size": Iv(0, INF, True, True),
    "*.beta1": Iv(0, 1, False, True), "*.beta2": Iv(0, 1, False, True), "*.epsilon": Iv(0, INF, True, True),
    "*.learning_rate": Iv(0, INF, True, True),
}


def counter_interval(F, adt, field, pre_incremented=False):
    """Derive the range of a u64 counter field from its writers: only constants and `+= 1`."""
    lo = None
    for (wb, bb, st, v, how) in K.field_writers(F, adt, field):
        if v[0] == "const" and v[2] is not None:
            c = float(v[2])
            lo = c if lo is None else min(lo, c)
        elif v[0] == "field" and v[1][0] == "bin" and v[1][1] in ("AddWithOverflow", "Add"):
            continue
        elif v[0] == "bin" and v[1] in ("Add", "AddWithOverflow"):
            continue
        elif v[0] == "call" and path_ends(v[1], "Clone::clone") and field in vt_str(v[2][0]):
            continue  # derived Clone copies the same field
        else:
            return None
    return lo


def advance_body(F, adt_suffix):
    bs = F.inherent_methods(adt_suffix, "advance")
    return bs[0] if bs else None


def r1_r2(F, R):
    R.rule("C07-R1", "DualAverage::advance: with hbar non-increasing and both log steps non-decreasing in every earlier statistic, after the "
                     "update hbar is non-increasing and log_step / log_step_adapted are non-decreasing in the new and in every earlier statistic")
    R.rule("C07-R2", "the value finally stored in log_step, and the log_step value averaged into log_step_adapted, have passed min(_, ln(max_step_size))")
    b = advance_body(F, "dual_avg::DualAverage")
    if not b:
        R.missing("C07-R1", "DualAverage::advance")
        return
    adt = b.parent["self_adt"]
    site = "%s @%s" % (b.path, b.loc())
    cnt_lo = counter_interval(F, adt, "count")
    if cnt_lo is None or cnt_lo < 1:
        R.bad("C07-R1", b.path + ":count", site, "cannot derive count >= 1 from the writers of DualAverage.count (only constants >= 1 and += 1 allowed)")
        return
    # a fresh (or reset) estimator reports the step size it was started from until its first update: outside advance() the averaged iterate is
    # written with the same value as the current iterate (ln(initial_step)); with another start value a chain that samples before any update
    # (num_tune = 0, or a restart on the last tuning draw) uses a step size nobody chose
    by_fn = {}
    for fld in ("log_step", "log_step_adapted"):
        for (wb, wbb, wst, wv, how) in K.field_writers(F, adt, fld):
            if wb.path == b.path or (wv[0] == "call" and path_ends(wv[1], "Clone::clone")):
                continue
            by_fn.setdefault(wb.path, {})[fld] = (wv, wst)
    for fp, d_ in sorted(by_fn.items()):
        k_ = "%s:start-value" % fp
        if set(d_) != {"log_step", "log_step_adapted"}:
            R.bad("C07-R2", k_, fp, "%s writes %s but not both iterates" % (fp.split("::")[-1], sorted(d_)))
        elif vt_str(d_["log_step"][0]) != vt_str(d_["log_step_adapted"][0]):
            R.bad("C07-R2", k_, "%s @%s" % (fp, loc(d_["log_step_adapted"][1]["span"])), "the averaged iterate starts at %s but the current iterate at %s: until the first "
                  "update the estimator reports a step size that is not the one it was started from" % (vt_str(d_["log_step_adapted"][0])[:60], vt_str(d_["log_step"][0])[:60]))
        else:
            R.ok("C07-R2", k_, fp, "both iterates start at %s" % vt_str(d_["log_step"][0])[:60])
    params = K.param_bindings(b)
    pid = {n: i for (i, n) in params}
    if "accept_stat" not in pid or "target" not in pid:
        # fall back to position: (self, accept_stat, target)
        names = [n for (_i, n) in params]
        R.bad("C07-R1", b.path + ":params", site, "unexpected parameter names %s" % names)
        return
    for mode in ("new", "earlier"):
        fields = {k: AV(v, "C") for k, v in PARAM_DOMAINS.items()}
        fields["*.max_step_size"] = AV(PARAM_DOMAINS["*.max_step_size"], "C", {"cap"})
        fields["self.count"] = AV(Iv(cnt_lo, INF, False, True), "C")
        fields["self.mu"] = AV(None, "C")
        # a constant derived from the settings and cached in a field at construction (`log_max_step_size: settings.max_step_size.ln()`)
        # is that constant: every writer of the field stores ln(<settings>.max_step_size)
        for f_ in (F.adts.get(adt, {}).get("variants") or [{}])[0].get("fields", []):
            if f_["ty"] != "f64" or ("self." + f_["name"]) in fields:
                continue
            ws_ = [w for w in K.field_writers(F, adt, f_["name"]) if not (w[3][0] == "call" and path_ends(w[3][1], "Clone::clone"))]
            if ws_ and all(w[3][0] == "call" and strip_generics(w[3][1]).endswith("f64::ln") and w[3][2] and w[3][2][0][0] == "field" and w[3][2][0][2] == "max_step_size" for w in ws_):
                fields["self." + f_["name"]] = AV(None, "C", {"cap"})
        if mode == "new":
            fields["self.hbar"] = AV(None, "C")
            fields["self.log_step"] = AV(None, "C")
            fields["self.log_step_adapted"] = AV(None, "C")
            locs = {pid["accept_stat"]: AV(Iv(0, 1), "U"), pid["target"]: AV(Iv(0, 1), "C")}
        else:
            fields["self.hbar"] = AV(None, "D")
            fields["self.log_step"] = AV(None, "U")
            fields["self.log_step_adapted"] = AV(None, "U")
            locs = {pid["accept_stat"]: AV(Iv(0, 1), "C"), pid["target"]: AV(Iv(0, 1), "C")}
        it = Interp(fields, locs)
        body = b.hir["value"]
        capped_at_avg = None
        for s in body.get("stmts", []):
            before = it.env.get(("F", "self.log_step"))
            it.stmt(s)
            # is this the store of log_step_adapted?
            for ev in it.events[-1:]:
                if ev[0] == "store" and ev[1] == ("F", "self.log_step_adapted"):
                    capped_at_avg = before is not None and "capped" in before.tags
        want = {"self.hbar": ("D", "C"), "self.log_step": ("U", "C"), "self.log_step_adapted": ("U", "C")}
        for f, ok in want.items():
            v = it.env.get(("F", f))
            key = "%s:%s:%s" % (b.path, f, mode)
            if v is None:
                R.bad("C07-R1", key, site, "%s is not updated" % f)
            elif v.mono in ok:
                R.ok("C07-R1", key, site, "%s is %s in %s statistic" % (f, {"U": "non-decreasing", "D": "non-increasing", "C": "constant"}[v.mono], "the new" if mode == "new" else "every earlier"))
            else:
                R.bad("C07-R1", key, site, "cannot prove %s monotone (%s) in %s acceptance statistic: got %s" % (
                    f, "non-increasing" if "D" in ok else "non-decreasing", "the new" if mode == "new" else "an earlier", v.mono))
        if mode == "new":
            ls = it.env.get(("F", "self.log_step"))
            if ls is not None and "capped" in ls.tags:
                R.ok("C07-R2", b.path + ":log_step-capped", site, "log_step = min(.., ln(max_step_size)) at exit")
            else:
                R.bad("C07-R2", b.path + ":log_step-capped", site, "the stored log_step has not passed min(_, ln(max_step_size))")
            if capped_at_avg:
                R.ok("C07-R2", b.path + ":avg-of-capped", site, "log_step_adapted averages the clamped iterate")
            else:
                R.bad("C07-R2", b.path + ":avg-of-capped", site, "log_step_adapted is averaged from an iterate that has not been clamped to max_step_size yet")
    # current_step_size* = exp(stored field)
    for name, field in (("current_step_size", "log_step"), ("current_step_size_adapted", "log_step_adapted")):
        for gb in F.inherent_methods("dual_avg::DualAverage", name):
            leaves = K.tail_leaves(gb.hir["value"])
            okk = len(leaves) == 1
            if okk:
                e = K.peel(leaves[0][1])
                okk = e.get("k") == "MethodCall" and e["method"] == "exp" and K.peel(e["recv"]).get("k") == "Field" and K.peel(e["recv"])["name"] == field
            key = "%s:exp-of-%s" % (gb.path, field)
            if okk:
                R.ok("C07-R2", key, "%s @%s" % (gb.path, gb.loc()), "exp(self.%s) > 0" % field)
            else:
                R.bad("C07-R2", key, "%s @%s" % (gb.path, gb.loc()), "%s is not exp(self.%s)" % (name, field))
    R.floor("C07-R1", 6)
    R.floor("C07-R2", 4)


def r3(F, R):
    R.rule("C07-R3", "Adam::advance: the smoothed gradient m is non-decreasing in accept_stat (zero-centred at the target), the denominator "
                     "is positive, and log_step is incremented by a quantity with the sign of m_hat (= sign of m)")
    b = advance_body(F, "adam::Adam")
    if not b:
        R.missing("C07-R3", "Adam::advance")
        return
    adt = b.parent["self_adt"]
    site = "%s @%s" % (b.path, b.loc())
    params = K.param_bindings(b)
    pid = {n: i for (i, n) in params}
    if "accept_stat" not in pid or "target" not in pid:
        R.bad("C07-R3", b.path + ":params", site, "unexpected parameter names")
        return
    t_lo = counter_interval(F, adt, "t")
    fields = {k: AV(v, "C") for k, v in PARAM_DOMAINS.items()}
    fields["self.t"] = AV(Iv(t_lo if t_lo is not None else 0, INF, False, True), "C")
    fields["self.m"] = AV(None, "C")
    fields["self.v"] = AV(Iv(0, INF, False, True), "C")
    fields["self.log_step"] = AV(None, "C")
    locs = {pid["accept_stat"]: AV(Iv(0, 1), "U"), pid["target"]: AV(Iv(0, 1), "C")}
    it = Interp(fields, locs)
    body = b.hir["value"]
    incr = None
    for s in body.get("stmts", []):
        it.stmt(s)
        last = it.events[-1] if it.events else None
        if last and last[0] == "store" and last[1] == ("F", "self.m"):
            # from here on, track the sign of m: re-seed m with tag '+m'
            mval = last[2]
            key = b.path + ":m-monotone"
            if mval.mono in ("U",):
                R.ok("C07-R3", key, site, "m is non-decreasing in accept_stat")
            else:
                R.bad("C07-R3", key, site, "smoothed gradient m is not provably non-decreasing in accept_stat (got %s): e.g. target - accept_stat" % mval.mono)
            it.env[("F", "self.m")] = AV(mval.iv, "U", {"+m"})
        if last and last[0] == "store" and last[1] == ("F", "self.t"):
            # after the increment t >= 1
            tv = it.env[("F", "self.t")]
            it.env[("F", "self.t")] = AV(Iv(max(tv.iv.lo, 1), INF, False, True), "C")
        if last and last[0] == "store" and last[1] == ("F", "self.v"):
            vv = last[2]
            if not vv.iv.nonneg():
                R.bad("C07-R3", b.path + ":v-nonneg", site, "second moment v is not provably >= 0 (%s)" % vv.iv)
            else:
                R.ok("C07-R3", b.path + ":v-nonneg", site, "v >= 0 by induction")
    incs = [e for e in it.events if e[0] == "increment" and e[1] == ("F", "self.log_step")]
    stores = [e for e in it.events if e[0] == "store" and e[1] == ("F", "self.log_step")]
    key = b.path + ":increment-sign"
    if len(incs) == 1 and "+m" in incs[0][2].tags:
        R.ok("C07-R3", key, site, "log_step += (positive) * m_hat / (positive)")
    elif len(incs) == 1 and "-m" in incs[0][2].tags:
        R.bad("C07-R3", key, site, "log_step moves against the sign of the smoothed (accept - target)")
    else:
        R.bad("C07-R3", key, site, "cannot prove that the log_step increment has the sign of m_hat (denominator not provably positive, or not an increment)")
    R.floor("C07-R3", 3)


def self_field_of(v):
    return Rl.self_field_name(v)


def _last_field(v):
    while v[0] in ("deref", "ref", "cast"):
        v = v[1]
    return v[2] if v[0] == "field" else None


def estimator_feed(b, start, known=None, avoid=()):
    """Which fields of the step-size strategy are fed to the estimator (`advance(stat, target)`) on feasible paths from block `start`.
    `known` fixes boolean locals (a `late` flag) so that the branch choosing the statistic is pruned. -> (set of field names, [call sites])"""
    per = estimator_feed_sites(b, start, known, avoid)
    out = set()
    for fs in per.values():
        out |= fs[1]
    return out, [(bb, fs[0]) for bb, fs in sorted(per.items())]


def estimator_feed_sites(b, start, known=None, avoid=()):
    """{block: (call terminator, set of fed fields)} for every advance() call on feasible paths from `start`."""
    reach = b.reach_feasible(start, avoid, known)
    per = {}
    for bb, t in b.calls_to(lambda c: c.get("name") == "advance"):
        if bb not in reach or len(t["args"]) < 2:
            continue
        out = set()
        v = b.value(t["args"][1])
        f = _last_field(v)
        if f:
            out.add(f)
        elif v[0] == "local":
            for d in b.defs().get(v[1], []):
                if d[1] in reach and d[0] == "stmt" and d[3]["k"] == "assign":
                    f2 = _last_field(b.rvalue_value(d[3]["rv"]))
                    out.add(f2 or "?")
        else:
            out.add("?")
        per[bb] = (t, out)
    return per


def estimator_inlined(F, b):
    """b with the step-size strategy's estimator-update helpers inlined (update_estimator_early/_late or a merged update_estimator(late))."""
    from . import inline as IN
    return IN.inlined(F, b, lambda cb, t: (cb.fn_name or "").startswith("update_estimator") and path_ends(cb.parent.get("self_adt") or "", "stepsize::adapt::Strategy"), depth=2)


def r4(F, R):
    R.rule("C07-R4", "statistic lanes: the field reported as mean_tree_accept feeds the early estimator update, the field reported as "
                     "mean_tree_accept_sym feeds the late one; Strategy::update copies them from two different RunningMeans of the collector")
    adt = "stepsize::adapt::Strategy"
    ex = [b for b in F.trait_method_impls("SamplerStats", "extract_stats") if path_ends(b.parent.get("self_adt"), adt)]
    if not ex:
        R.missing("C07-R4", "Strategy::extract_stats")
        return
    lanes = {}
    b = ex[0]
    for bi, blk in enumerate(b.blocks):
        for st in blk["stmts"]:
            if st["k"] == "assign" and st["rv"]["k"] == "agg" and st["rv"]["ak"] == "adt" and path_ends(st["rv"]["adt"], "stepsize::adapt::Stats"):
                for fn, op in zip(st["rv"]["fields"], st["rv"]["ops"]):
                    if fn in ("mean_tree_accept", "mean_tree_accept_sym"):
                        lanes[fn] = self_field_of(b.value(op))
    site = "%s @%s" % (b.path, b.loc())
    if len(lanes) != 2 or None in lanes.values() or lanes["mean_tree_accept"] == lanes["mean_tree_accept_sym"]:
        R.bad("C07-R4", b.path + ":stat-lanes", site, "mean_tree_accept / mean_tree_accept_sym are not two distinct fields of the strategy: %s" % lanes)
        return
    R.ok("C07-R4", b.path + ":stat-lanes", site, "lanes %s" % lanes)
    for fname, lane in (("update_estimator_early", "mean_tree_accept"), ("update_estimator_late", "mean_tree_accept_sym")):
        for ub in F.inherent_methods(adt, fname):
            calls = ub.calls_to(lambda c: c["name"] == "advance")
            usite = "%s @%s" % (ub.path, ub.loc())
            if not calls:
                R.bad("C07-R4", ub.path + ":advance", usite, "%s never calls advance()" % fname)
            for i, (bb, t) in enumerate(calls):
                f = self_field_of(ub.value(t["args"][1]))
                tg = self_field_of(ub.value(t["args"][2])) if len(t["args"]) > 2 else None
                v = ub.value(t["args"][2]) if len(t["args"]) > 2 else None
                key = "%s:advance#%d" % (ub.path, i)
                if f != lanes[lane]:
                    R.bad("C07-R4", key, "%s @%s" % (ub.path, loc(t["span"])), "%s feeds %s into the estimator, expected the %s lane (%s)" % (fname, f, lane, lanes[lane]))
                elif v is None or "target_accept" not in vt_str(v):
                    R.bad("C07-R4", key, "%s @%s" % (ub.path, loc(t["span"])), "second argument of advance() is not the target_accept option")
                else:
                    R.ok("C07-R4", key, "%s @%s" % (ub.path, loc(t["span"])), "%s lane -> advance(.., target_accept)" % lane)
    # the two functions merged into one taking a flag: the flag selects the lane
    have_split = bool(F.inherent_methods(adt, "update_estimator_early")) and bool(F.inherent_methods(adt, "update_estimator_late"))
    if not have_split:
        merged = [ub for ub in list(F.bodies.values()) + list(F.removed_helpers.values())
                  if ub.kind != "closure" and path_ends(ub.parent.get("self_adt") or "", adt) and (ub.fn_name or "").startswith("update_estimator")]
        for ub in merged:
            flags = [i for i in range(2, ub.arg_count + 1) if ub.local_ty(i) == "bool"]
            usite = "%s @%s" % (ub.path, ub.loc())
            if len(flags) != 1:
                R.bad("C07-R4", ub.path + ":advance", usite, "cannot tell which statistic %s feeds into the estimator" % ub.fn_name)
                continue
            got = {}
            for val in (False, True):
                got[val], sites = estimator_feed(ub, 0, {flags[0]: val})
                for i, (bb, t) in enumerate(sites):
                    v = ub.value(t["args"][2]) if len(t["args"]) > 2 else None
                    if v is None or "target_accept" not in vt_str(v):
                        R.bad("C07-R4", "%s:advance#%d" % (ub.path, i), "%s @%s" % (ub.path, loc(t["span"])), "second argument of advance() is not the target_accept option")
            flag_name = ub.local_name(flags[0])
            if got[True] == {lanes["mean_tree_accept_sym"]} and got[False] == {lanes["mean_tree_accept"]}:
                for i in range(4):
                    R.ok("C07-R4", "%s:advance#%d" % (ub.path, i), usite, "%s(%s): true -> %s lane, false -> %s lane" % (ub.fn_name, flag_name, "sym", "plain"))
            elif got[False] == {lanes["mean_tree_accept_sym"]} and got[True] == {lanes["mean_tree_accept"]}:
                # inverted flag (`early: bool`): judged where it is called (C09-R4 / C06-R4 look at the lane on each edge)
                for i in range(4):
                    R.ok("C07-R4", "%s:advance#%d" % (ub.path, i), usite, "%s(%s): false -> sym lane, true -> plain lane" % (ub.fn_name, flag_name))
            else:
                R.bad("C07-R4", ub.path + ":advance", usite, "%s feeds %s when %s is true and %s when it is false; expected one acceptance lane each" % (
                    ub.fn_name, sorted(got[True]), flag_name, sorted(got[False])))
        if not merged:
            R.bad("C07-R4", adt + ":estimator-update", adt, "no function of the step-size strategy advances the estimator")
    # Strategy::update: lanes come from two different RunningMean fields
    src = {}
    for ub in F.inherent_methods(adt, "update"):
        for (wb, bb, st, v, how) in K.field_writers(F, adt, lanes["mean_tree_accept"]) + K.field_writers(F, adt, lanes["mean_tree_accept_sym"]):
            if wb.path != ub.path:
                continue
            fld = st["pl"]["p"][-1]["n"]
            calls = [n for n in vt_walk(v) if n[0] == "call" and path_ends(n[1], "RunningMean::current")]
            if calls:
                a = calls[0][2][0]
                src[fld] = vt_str(a)
        usite = "%s @%s" % (ub.path, ub.loc())
        if len(src) == 2 and len(set(src.values())) == 2:
            R.ok("C07-R4", ub.path + ":sources", usite, "sources %s" % src)
        else:
            R.bad("C07-R4", ub.path + ":sources", usite, "the two acceptance lanes are not copied from two different RunningMeans: %s" % src)
    R.floor("C07-R4", 6)


def r5_r6(F, R):
    R.rule("C07-R5", "initial step-size search: the Forward (doubling) and Backward (halving) arms are mirror images under "
                     "{<= <-> >=, < <-> >, *= <-> /=, upper bound <-> lower bound}; the direction is chosen by accept_stat > target")
    R.rule("C07-R6", "every trial leapfrog of the search is measured by a collector on which register_init was called after the previous "
                     "trial (fresh running mean), and the acceptance compared with the target is read from that collector")
    bs = F.inherent_methods("stepsize::adapt::Strategy", "init")
    if not bs:
        R.missing("C07-R5", "stepsize Strategy::init")
        return
    b = bs[0]
    ms = [n for n in hir_walk(b.hir["value"]) if n.get("k") == "Match" and path_ends(n.get("scrut_adt"), "hamiltonian::Direction")]
    site = "%s @%s" % (b.path, b.loc())
    if not ms:
        R.bad("C07-R5", b.path + ":search-match", site, "no match on the search direction")
    for i, m in enumerate(ms):
        arms = {K.pat_variant(a["pat"]): a for a in m["arms"]}
        key = "%s:search-match#%d" % (b.path, i)
        msite = "%s @%s" % (b.path, loc(m["span"]))
        if set(arms) != {"Forward", "Backward"}:
            R.bad("C07-R5", key, msite, "search match is not a two-arm Forward/Backward match")
            continue
        fl = [K.num_lit(x) for x in hir_walk(arms["Forward"]["body"]) if x.get("k") == "Lit" and x["lit"]["lk"] == "float"]
        bl = [K.num_lit(x) for x in hir_walk(arms["Backward"]["body"]) if x.get("k") == "Lit" and x["lit"]["lk"] == "float"]
        lits = {}
        okl = len(fl) == len(bl)
        if okl:
            for f_, b_ in zip(fl, bl):
                if f_ == b_:
                    continue
                if f_ > 1 and 0 < b_ < 1:
                    lits[repr(float(f_))] = repr(float(b_))
                else:
                    okl = False
        M4 = Subst(ops={"<=": ">=", ">=": "<=", "<": ">", ">": "<", "*=": "/=", "/=": "*="}, lits=lits,
                   defs={"Forward": "Backward", "Backward": "Forward"}, keep_local_names=True)
        IDK = Subst(keep_local_names=True)
        ca = canon(arms["Forward"]["body"], M4)
        cb = canon(arms["Backward"]["body"], IDK)
        if okl and ca == cb and canon(arms["Forward"]["body"], IDK) != cb:
            R.ok("C07-R5", key, msite, "doubling and halving arms are mirror images (bounds %s)" % lits)
        else:
            R.bad("C07-R5", key, msite, "doubling and halving arms are not mirror images under M4")
    # direction choice
    chosen = False
    for n in hir_walk(b.hir["value"]):
        if n.get("k") == "If" and n.get("else"):
            t, e = K.peel(n["then"]), K.peel(n["else"])
            from .c01 import variant_of
            vt_, ve_ = variant_of(t), variant_of(e)
            if vt_ and ve_ and {vt_[1], ve_[1]} == {"Forward", "Backward"}:
                c = K.peel(n["cond"])
                key = b.path + ":direction-choice"
                csite = "%s @%s" % (b.path, loc(n["span"]))
                chosen = True
                good = False
                if c.get("k") == "Binary" and c["op"] in (">", "<", ">=", "<="):
                    a_, b_ = K.peel(c["a"]), K.peel(c["b"])
                    an = K.local_name(a_)
                    bn = b_["name"] if b_.get("k") == "Field" else None
                    if c["op"] in (">", ">=") and an == "accept_stat" and bn == "target_accept":
                        good = vt_[1] == "Forward"
                    if c["op"] in ("<", "<=") and an == "accept_stat" and bn == "target_accept":
                        good = vt_[1] == "Backward"
                if good:
                    R.ok("C07-R5", key, csite, "acceptance above target -> grow the step (Forward)")
                else:
                    R.bad("C07-R5", key, csite, "search direction is not chosen by accept_stat > target_accept -> Forward")
    if not chosen:
        R.bad("C07-R5", b.path + ":direction-choice", site, "no direction choice found")
    # R6: fresh collector per trial
    leaps = b.calls_to(lambda c: path_ends(c["path"], "Hamiltonian::leapfrog"))
    inits = b.calls_to(lambda c: path_ends(c["path"], "Collector::register_init"))
    loops = b.natural_loops()
    for i, (bb, t) in enumerate(leaps):
        croot = K.root_local(b, t["args"][-1])
        key = "%s:trial#%d" % (b.path, i)
        tsite = "%s @%s" % (b.path, loc(t["span"]))
        in_loop = [h for h, body in loops.items() if bb in body]
        good = False
        for ib, it_ in inits:
            if K.root_local(b, it_["args"][0]) != croot:
                continue
            if not b.dominates(ib, bb):
                continue
            if in_loop and not any(ib in loops[h] for h in in_loop):
                continue
            good = True
        if good:
            R.ok("C07-R6", key, tsite, "register_init on the same collector %s" % ("inside the loop iteration" if in_loop else "before the probe step"))
        else:
            R.bad("C07-R6", key, tsite, "the collector of this trial step is not re-initialised for the trial: its running mean accumulates over earlier trials")
    # acceptance read from the trial's collector
    cur = b.calls_to(lambda c: path_ends(c["path"], "RunningMean::current"))
    for i, (bb, t) in enumerate(cur):
        croot = K.root_local(b, t["args"][0])
        key = "%s:accept-read#%d" % (b.path, i)
        roots = {K.root_local(b, lt["args"][-1]): lb for lb, lt in leaps}
        if croot in roots and any(b.dominates(lb, bb) for lb, lt in leaps if K.root_local(b, lt["args"][-1]) == croot):
            R.ok("C07-R6", key, "%s @%s" % (b.path, loc(t["span"])), "acceptance read from the collector of the preceding trial")
        else:
            R.bad("C07-R6", key, "%s @%s" % (b.path, loc(t["span"])), "acceptance statistic is not read from the collector that measured the trial step")
    R.floor("C07-R5", 2)
    R.floor("C07-R6", 4)


def r7(F, R, rid="C07-R7"):
    R.rule(rid, "the acceptance collector counts every leapfrog: on every path through AcceptanceRateCollector::register_leapfrog exactly one sample is "
                     "added to the plain and exactly one to the symmetric running mean (a trajectory whose steps are not counted makes the statistic 0/0 = NaN, "
                     "which `min` then silently maps to ln(max_step_size)); register_init resets both means")
    bs = [b for b in F.trait_method_impls("Collector", "register_leapfrog") if path_ends(b.parent.get("self_adt") or "", "AcceptanceRateCollector")]
    if len(bs) != 1:
        R.missing(rid, "impl Collector::register_leapfrog for AcceptanceRateCollector (found %d)" % len(bs))
        return
    b = bs[0]
    site = "%s @%s" % (b.path, b.loc())
    lanes = {}
    for bb, t in b.calls():
        if path_ends(t["callee"].get("path", ""), "RunningMean::add"):
            recv = b.value(t["args"][0])
            f = [n[2] for n in vt_walk(recv) if n[0] == "field"]
            if f:
                lanes.setdefault(f[0], {})
                lanes[f[0]][bb] = lanes[f[0]].get(bb, 0) + 1
    adt = F.adt("AcceptanceRateCollector")
    mean_fields = [f["name"] for f in adt["variants"][0]["fields"] if path_ends(f["ty"], "RunningMean")] if adt else []
    if len(mean_fields) < 2:
        R.missing(rid, "RunningMean fields of AcceptanceRateCollector")
    for f in mean_fields:
        rng_ = K.path_count_range(b, lanes.get(f, {}))
        key = "%s:%s" % (b.path, f)
        if rng_ == (1, 1):
            R.ok(rid, key, site, "every path adds exactly one sample to self.%s" % f)
        else:
            R.bad(rid, key, site, "paths through register_leapfrog add between %s and %s samples to self.%s (expected exactly 1 on every path): "
                  "an uncounted first step leaves the mean at 0/0" % (rng_[0] if rng_ else "?", rng_[1] if rng_ else "?", f))
    ri = [x for x in F.trait_method_impls("Collector", "register_init") if x.parent.get("impl") == b.parent.get("impl")]
    for x in ri:
        resets = set()
        for bb, t in x.calls():
            if path_ends(t["callee"].get("path", ""), "RunningMean::reset"):
                recv = x.value(t["args"][0])
                resets |= {n[2] for n in vt_walk(recv) if n[0] == "field"}
        # or the field is overwritten with a fresh RunningMean (directly, or through `*self = Collector { .., ..Collector::new() }`)
        for f_ in mean_fields:
            for (wb, wbb, wst, wv, whow) in K.field_writers(F, "AcceptanceRateCollector", f_):
                if wb.path == x.path and wv[0] == "call" and path_ends(wv[1], "RunningMean::new") and all(x.dominates(wbb, e_) for e_ in x.exits()):
                    resets.add(f_)
        if set(mean_fields) <= resets:
            R.ok(rid, x.path + ":reset", "%s @%s" % (x.path, x.loc()), "register_init resets %s" % sorted(resets))
        else:
            R.bad(rid, x.path + ":reset", "%s @%s" % (x.path, x.loc()), "register_init does not reset %s" % sorted(set(mean_fields) - resets))
    R.floor(rid, 3)


def r8(F, R, rid="C07-R8"):
    R.rule(rid, "every leapfrog outcome is reported to the collector: in each impl Hamiltonian::leapfrog every path that constructs LeapfrogResult::Ok or "
                "::Divergence passes exactly one Collector::register_leapfrog call (with Some(divergence info) on divergence paths, None on the Ok path); "
                "only the unrecoverable-error return may skip it")
    from .c05 import agg_blocks
    impls = F.trait_method_impls("Hamiltonian", "leapfrog")
    if not impls:
        R.missing(rid, "impl Hamiltonian::leapfrog")
    for b in impls:
        regs = b.calls_to(lambda c: path_ends(c["path"], "Collector::register_leapfrog"))
        w = {}
        for bb, t in regs:
            w[bb] = w.get(bb, 0) + 1
        for variant in ("Ok", "Divergence"):
            blocks = agg_blocks(b, "LeapfrogResult", variant)
            if not blocks:
                R.bad(rid, "%s:%s" % (b.path, variant), b.path, "no construction of LeapfrogResult::%s found (anchor)" % variant)
            for i, a in enumerate(sorted(set(x if isinstance(x, int) else x[0] for x in blocks))):
                pre = K.path_count_range(b, w, 0, targets=[a])
                suf = K.path_count_range(b, w, a)
                key = "%s:%s#%d" % (b.path, variant, i)
                site = "%s @%s" % (b.path, b.loc())
                if pre is None or suf is None:
                    R.bad(rid, key, site, "cannot compute the paths through the construction of %s" % variant)
                    continue
                lo = pre[0] + suf[0] - w.get(a, 0)
                hi = pre[1] + suf[1] - w.get(a, 0)
                if (lo, hi) != (1, 1):
                    R.bad(rid, key, site, "paths returning LeapfrogResult::%s register the step with the collector between %d and %d times (expected exactly once): "
                          "an unregistered step is invisible to the acceptance statistic" % (variant, lo, hi))
                    continue
                # the info argument on those paths
                okarg = True
                for bb, t in regs:
                    if b.dominates(bb, a) or a in b.reach_from(bb):
                        v = b.value(t["args"][-1])
                        is_some = any(n[0] == "agg" and "Some" in str(n[1]) for n in vt_walk(v))
                        is_none = any(n[0] == "agg" and "None" in str(n[1]) for n in vt_walk(v)) or (v[0] == "const" and "None" in str(v))
                        if bb in b.reach_from(0, avoid=[a]) or True:
                            pass
                        if a in b.reach_from(bb) and not any(a2 != a and a in b.reach_from(a2) for a2 in []):
                            want_some = (variant == "Divergence")
                            # only calls that lie on a path to this construction and not on a path to the other kind exclusively
                            if want_some and is_none and not is_some and _only_reaches(b, bb, a):
                                okarg = False
                            if (not want_some) and is_some and _only_reaches(b, bb, a):
                                okarg = False
                if okarg:
                    R.ok(rid, key, site, "exactly one register_leapfrog on every path to LeapfrogResult::%s" % variant)
                else:
                    R.bad(rid, key, site, "register_leapfrog on the %s path passes the wrong divergence-info argument" % variant)
    R.floor(rid, 3)


def _only_reaches(b, bb, a):
    """every return reachable from bb is reached through block a"""
    return not any(x in b.exits() for x in b.reach_from(bb, avoid=[a]))


def r10(F, R):
    """A leapfrog step that ended in a divergence counts as acceptance 0 in both statistics."""
    R.rule("C07-R10", "AcceptanceRateCollector::register_leapfrog: on the edge where the divergence information is present, every RunningMean::add of the "
                      "acceptance statistics receives the constant 0 (a formula of the energy error would score a NaN or hugely negative error as accepted)")
    for b in F.trait_method_impls("Collector", "register_leapfrog"):
        if not path_ends(b.parent.get("self_adt") or "", "AcceptanceRateCollector"):
            continue
        site = "%s @%s" % (b.path, b.loc())
        # the Option<&DivergenceInfo> parameter
        dpar = [i for i in range(1, b.arg_count + 1) if "DivergenceInfo" in (b.local_ty(i) or "") and "Option" in (b.local_ty(i) or "")]
        if not dpar:
            R.missing("C07-R10", "divergence parameter of register_leapfrog")
            continue
        some_t = None
        for bi, blk in enumerate(b.blocks):
            t = blk["term"]
            if t["k"] == "switch" and "enum_place" in t and t["enum_place"]["l"] in dpar and not t["enum_place"]["p"]:
                some_t = next((a["target"] for a in t["arms"] if a.get("name") == "Some"), None)
                none_t = next((a["target"] for a in t["arms"] if a.get("name") == "None"), None)
                if some_t is None and none_t is not None:
                    some_t = t["otherwise"]
                sw = bi
        adds = b.calls_to(lambda c: path_ends(c["path"], "RunningMean::add"))
        key = b.path + ":divergence-scores-zero"
        if some_t is None:
            R.bad("C07-R10", key, site, "register_leapfrog does not branch on the presence of the divergence information: diverging steps are scored by the same "
                  "formula as ordinary ones (NaN energy error -> `NaN.min(0.).exp()` = 1)")
            continue
        reach = b.reach_from(some_t, avoid=[sw])
        on_div = [(bb, t) for bb, t in adds if bb in reach and not all(bb in b.reach_from(x) for x in [none_t] if x is not None and x != some_t)]
        on_div = [(bb, t) for bb, t in adds if bb in reach and (none_t is None or bb not in b.reach_from(none_t, avoid=[sw]))]
        lanes = set()
        bad = []
        for bb, t in on_div:
            v = b.value(t["args"][1]) if len(t["args"]) > 1 else ("unknown",)
            recv = b.value(t["args"][0])
            lanes |= {n_[2] for n_ in vt_walk(recv) if n_[0] == "field"}
            if not (v[0] == "const" and v[2] is not None and float(v[2]) == 0.0):
                bad.append(vt_str(v)[:60])
        if bad or len(on_div) < 2:
            R.bad("C07-R10", key, site, "on the divergence edge the acceptance means receive %s (%d adds, lanes %s); expected the constant 0 in both" % (bad or "nothing", len(on_div), sorted(lanes)))
        else:
            R.ok("C07-R10", key, site, "divergence -> add(0.) to %s" % sorted(lanes))
    R.floor("C07-R10", 1)




def r12(F, R):
    R.rule("C07-R12", "the initial search is not skipped: in every AdaptStrategy::init the step-size strategy's init (the doubling / halving search) lies on every "
                      "path to `Ok(())` - whatever num_tune is; with no warm-up the searched step is the only thing that determines the step size")
    n = 0
    for b in F.trait_method_impls("AdaptStrategy", "init"):
        site = "%s @%s" % (b.path, b.loc())
        inits = [bb for bb, t in b.calls() if t["callee"].get("name") == "init" and path_ends(t["callee"].get("impl_self_adt") or "", "stepsize::adapt::Strategy")]
        oks = [bi for bi, blk in enumerate(b.blocks) if not blk["cleanup"] and any(
            st["k"] == "assign" and st["pl"]["l"] == 0 and not st["pl"]["p"] and st["rv"]["k"] == "agg" and st["rv"].get("variant") == "Ok" for st in blk["stmts"])]
        n += 1
        key = b.path + ":search-on-every-path"
        if not inits:
            R.bad("C07-R12", key, site, "no call of stepsize::adapt::Strategy::init")
            continue
        if not oks:
            R.bad("C07-R12", key, site, "cannot find the `Ok(..)` result")
            continue
        reach = b.reach_from(0, avoid=inits)
        skipped = [o for o in oks if o in reach]
        if skipped:
            sp = [st["span"] for st in b.blocks[skipped[0]]["stmts"] if st.get("span")]
            R.bad("C07-R12", key, "%s @%s" % (b.path, loc(sp[-1])) if sp else site,
                  "a path reaches Ok(()) without running the step-size search (stepsize Strategy::init): the chain samples with the configured initial "
                  "step instead of a step whose one-step acceptance brackets the target")
        else:
            R.ok("C07-R12", key, site, "stepsize Strategy::init on every path to Ok (%d call(s), %d Ok site(s))" % (len(inits), len(oks)))
    R.floor("C07-R12", 2)


def r13(F, R):
    R.rule("C07-R13", "a diverging trial step is scored, not fled: in the step-size search (stepsize Strategy::init) no Divergence arm of a trial leapfrog reaches a "
                      "`return` without passing the acceptance test of that trial (`collector.mean.current()`): the collector records acceptance 0 for a diverging "
                      "step (R10), so the search goes on with smaller steps. An arm that returns at once leaves the chain with the unsearched initial step whenever "
                      "the first probe is unstable - for a Gaussian of scale 1e-4 already - and the search does not end with a bracketing step")
    bs = [b for b in F.bodies.values() if b.kind != "closure" and strip_generics(b.path).endswith("stepsize::adapt::Strategy::init")]
    if len(bs) != 1:
        R.missing("C07-R13", "stepsize::adapt::Strategy::init")
        return
    b = bs[0]
    loops = b.natural_loops()
    in_loop = set().union(*loops.values()) if loops else set()
    cur = [bb for bb, t in b.calls() if t["callee"].get("name") == "current" and "RunningMean" in strip_generics(t["callee"].get("path", "") + str(t["callee"].get("impl_self_adt") or ""))]
    leap = [bb for bb, t in b.calls() if t["callee"].get("name") == "leapfrog"]
    rets = {x for x, blk in enumerate(b.blocks) if blk["term"]["k"] == "return"}
    n = 0
    for bi, blk in enumerate(b.blocks):
        t = blk["term"]
        if blk["cleanup"] or t["k"] != "switch" or not path_ends(t.get("enum_adt") or "", "hamiltonian::LeapfrogResult"):
            continue
        arms = {a.get("name"): a["target"] for a in t["arms"]}
        if "Divergence" in arms:
            tgt = arms["Divergence"]
        elif "Ok" in arms and "Err" in arms:
            tgt = t["otherwise"]
        else:
            continue
        if "Ok" not in arms and "Divergence" not in arms:
            continue
        n += 1
        which = "loop" if bi in in_loop else "first-probe"
        key = "%s:divergence-arm:%s" % (b.path, which)
        sp = [st["span"] for st in b.blocks[tgt]["stmts"] if st.get("span")]
        site = "%s @%s" % (b.path, loc(sp[0]) if sp else b.loc())
        if not cur:
            R.bad("C07-R13", key, site, "no acceptance test (RunningMean::current) in the search")
        elif rets & b.reach_from(tgt, avoid=cur + leap):
            R.bad("C07-R13", key, site, "the Divergence arm of the %s trial returns without scoring the step: the search gives up where it should halve" % which)
        else:
            R.ok("C07-R13", key, site, "the diverging trial is scored like any other (acceptance 0 -> Backward / stop)")
    R.floor("C07-R13", 2)

def run(F, R, config="all"):
    r1_r2(F, R)
    r3(F, R)
    r4(F, R)
    r5_r6(F, R)
    r7(F, R)
    r8(F, R)
    r10(F, R)
    r12(F, R)
    r13(F, R)
    # after warmup the step size in use is the averaged one: update_stepsize(.., use_best_guess = true) runs unconditionally (C06-R4 analysis)
    from . import c06
    K.borrow_rule(R, lambda sub: c06.r4(F, sub), "C07-R9", "after warmup adapt() calls update_stepsize(.., true) exactly once and unconditionally, so the step size "
                  "used for sampling is the averaged estimate whatever the jitter setting (decided by the C06-R4 analysis)", only_rules={"C06-R4"})
    # "never above max_step_size": the bound the strategy clamps to must be the one the user set
    from . import convert
    import re as _re
    convert.faithful_conversion(F, R, "C07-R11", focus=lambda path, key: bool(_re.search(r"(?i)step|dualaverage|adam|accept|jitter", key)),
                                focus_text=" (step-size settings: method, bounds, target, jitter)")
    for k, v in PARAM_DOMAINS.items():
        R.assume("option %s in %s (documented domain)" % (k[2:], v))
    R.assume("acceptance statistics and target_accept lie in [0, 1]")

"""C08 - mass-matrix adaptation never degenerates (structural clauses; exact recovery of Gaussian moments is numerical and not decided)."""
from .facts import path_ends, loc, strip_generics, hir_walk, vt_walk, vt_str
from . import common as K
from . import absf as A
from .sib import canon, Subst, show

LEVEL = ("Static sanitiser analysis of every write of a transformation scale: the element kernels through which DiagMassMatrix writes stds / inv_stds are "
         "abstractly interpreted (facts: not NaN, not infinite, not negative, not zero, numeric bounds) with the clamp bounds and fill values taken from "
         "all their call sites; every store of a scale is proven finite and strictly positive or is skipped so that the previous value stays (R1); the "
         "two stores of one element are sqrt(v) and sqrt(1/v) of the same v, and inv_stds of set_transform is the reciprocal of stds (R3); all kernels clamp the same power of the scale - equal numeric range of the stored scales across sibling kernels (R7); the "
         "diagonal adaptation touches the transformation only when at least three draws are in the foreground estimator (R2); the initial matrix is "
         "written through the gradient kernel with constant positive clamp and fill and both estimators are seeded with the start point (R4); the "
         "low-rank update is applied only after finiteness checks of every input and returns before any write otherwise (R5), and the structural premise of the NaN-poisoning argument that protects the low-rank scales from zero is re-checked on every run (R6). Strict positivity of "
         "the low-rank scales rests on an assumption stated in the evidence (SVD / eigen decomposition fail on non-finite input); exact recovery of "
         "Gaussian moments is numerical and not decided."
         " Added: the running-moment update is translation invariant as a polynomial identity (R8); the kernels called by the transformation code visit every element once and take ln / is_finite per element (R9)."
         " Added (round 4): no f64 -> f32 narrowing anywhere in the numeric path (R12, positive control planted)."
         " Added (round 5): the diagonal adapt() does not gate the update kernels behind a whole-vector finiteness test (R13)."
         " Added (round 6): with three or more draws adapt() updates - its only way to return without a mutator is the too-few-draws edge (R2, converse clause); draw / gradient estimator pairs receive the same operations in every method (R14); mass-matrix and window options reach the strategy as set (R15, rules/convert.py); every transition registers its draw with the collector on every path to Ok (R16)."
         " Added (round 7): a running estimator is restarted as a whole - count is stored only as count + 1 or together with a write of the accumulator (R17).")
EXPLANATION = ("Abstract interpretation (rules/absf.py) of the per-element closures in the CpuMath kernels on HIR with branch refinement by is_finite / == 0 "
               "tests; interprocedural constant collection for clamp / fill parameters over MIR call sites; dominance for the guards.")
TRUSTED = ["rustc nightly HIR/MIR", "nutsfacts extractor", "rules/absf.py, rules/c08.py",
           "f64::clamp(lo, hi) of a non-NaN value lies in [lo, hi]; f64::sqrt / recip are monotone on positive finite values"]
TECHNIQUE = "static analysis: abstract interpretation (finite/positive facts with branch refinement) of the scale-writing kernels + call-site constant propagation + dominance"

SCALE_FIELDS = ("stds", "inv_stds")


def diag_adt(F):
    return next((p for p in F.adts if path_ends(p, "transform::diagonal::DiagMassMatrix")), None)


def scale_writer_calls(F):
    """[(writer body, bb, term, {arg index: field})] : Math calls in DiagMassMatrix methods receiving &mut self.stds / inv_stds."""
    adt = diag_adt(F)
    out = []
    for b in F.bodies.values():
        if b.kind == "closure" or b.parent.get("self_adt") != adt or b.parent.get("trait"):
            continue
        muts = set()
        for blk in b.blocks:
            for st in blk["stmts"]:
                if st["k"] == "assign" and st["rv"]["k"] in ("ref", "rawptr") and st["rv"].get("bk") in ("mut", "Mut"):
                    fs = [e.get("n") for e in st["rv"]["pl"]["p"] if isinstance(e, dict) and "f" in e]
                    if fs and fs[-1] in SCALE_FIELDS:
                        muts.add((st["pl"]["l"], fs[-1]))
        for bb, t in b.calls():
            hit = {}
            for i, a in enumerate(t["args"]):
                if a["k"] in ("copy", "move"):
                    v = b.value(a)
                    base = v
                    isref = False
                    while base[0] in ("ref", "deref"):
                        base = base[1]
                    if base[0] == "field" and base[2] in SCALE_FIELDS:
                        # only &mut borrows are writes: check the local's type
                        ty = b.local_ty(a["pl"]["l"])
                        if ty.startswith("&mut"):
                            hit[i] = base[2]
            if hit:
                out.append((b, bb, t, hit))
    return out


def param_values(F, body, arg_index, depth=0):
    """Value trees a parameter (1-based MIR arg) of `body` takes at all workspace call sites, following pass-through parameters."""
    cg = F.callgraph()
    vals = []
    for cp in cg.callers_of(body.path):
        cb = F.bodies.get(cp)
        if cb is None:
            continue
        for bb, t in cb.calls():
            tgt = t["callee"].get("resolved") or t["callee"].get("path")
            if tgt != body.path or arg_index - 1 >= len(t["args"]):
                continue
            v = cb.value(t["args"][arg_index - 1])
            if v[0] == "arg" and depth < 3:
                vals += param_values(F, cb, v[1], depth + 1)
            else:
                vals.append((cb, t, v))
    return vals


def abstract_of(v):
    """value tree -> abstract (dict | ('tuple', [...]) | ('opt', inner, some_possible))"""
    if v[0] == "const":
        try:
            return A.const(str(v[2]).replace("_f64", "").replace("f64", ""))
        except (ValueError, TypeError):
            return dict(A.TOP)
    if v[0] == "agg":
        what = str(v[1])
        if what == "tuple":
            return ("tuple", [abstract_of(x) for x in v[2]])
        if what.endswith("Option::None"):
            return ("opt", None, False)
        if what.endswith("Option::Some"):
            return ("opt", abstract_of(v[2][0]), True)
    return dict(A.TOP)


def join_abs(a, b):
    if a is None:
        return b
    if isinstance(a, dict) and isinstance(b, dict):
        return A.join(a, b)
    if isinstance(a, tuple) and isinstance(b, tuple) and a[0] == b[0] == "tuple" and len(a[1]) == len(b[1]):
        return ("tuple", [join_abs(x, y) for x, y in zip(a[1], b[1])])
    if isinstance(a, tuple) and isinstance(b, tuple) and a[0] == b[0] == "opt":
        return ("opt", A.join(a[1], b[1]) if (a[1] is not None or b[1] is not None) else None, a[2] or b[2])
    return dict(A.TOP)


def r7(F, R):
    R.rule("C08-R7", "scale-range agreement between sibling kernels: every clamped store into stds (inv_stds) has the same numeric range in all element kernels - the "
                     "clamp bounds limit one and the same quantity (the variance), so no kernel silently narrows the representable scales")
    by = {}
    for (kn, fld, lo, hi, site) in R.__dict__.get("c08_ranges", []):
        by.setdefault(fld, []).append((kn, lo, hi, site))
    for fld, lst in sorted(by.items()):
        ref = None
        import math
        groups = {}
        for (kn, lo, hi, site) in lst:
            keyr = (round(math.log10(lo), 6), round(math.log10(hi), 6))
            groups.setdefault(keyr, []).append((kn, site))
        if len(groups) == 1:
            (k0, members), = groups.items()
            R.ok("C08-R7", "range:%s" % fld, members[0][1], "%s in [1e%g, 1e%g] in all %d clamped stores of %d kernels" % (fld, k0[0], k0[1], len(lst), len({m[0] for m in members})))
        else:
            major = max(groups.items(), key=lambda kv: len({m[0] for m in kv[1]}))
            for keyr, members in groups.items():
                if keyr == major[0]:
                    continue
                for (kn, site) in members:
                    R.bad("C08-R7", "range:%s:%s" % (fld, kn), site, "kernel %s can only produce %s in [1e%g, 1e%g] while its siblings allow [1e%g, 1e%g]: the clamp is applied to a "
                          "different power of the scale (scales outside the narrower range are silently truncated)" % (kn, fld, keyr[0], keyr[1], major[0][0], major[0][1]))
    R.floor("C08-R7", 2)


def r1_r3(F, R):
    R.__dict__["c08_ranges"] = []
    R.rule("C08-R1", "every store into DiagMassMatrix.stds / inv_stds made by an element kernel is finite and strictly positive for arbitrary inputs (NaN, "
                     "infinite, zero, negative, huge), given the clamp bounds and fill values passed at all call sites; otherwise the element is left untouched")
    R.rule("C08-R3", "reciprocal pair: the two stores of one element are sqrt(v) and sqrt(recip(v)) of the same v; set_transform derives inv_stds by array_recip(stds)")
    calls = scale_writer_calls(F)
    if not calls:
        R.missing("C08-R1", "Math calls writing DiagMassMatrix.stds / inv_stds")
        return
    kernels_seen = set()
    for (wb, bb, t, hit) in calls:
        name = t["callee"].get("name")
        site = "%s @%s" % (wb.path, loc(t["span"]))
        if name in ("copy_into", "array_recip", "fill_array", "read_from_slice"):
            # caller-provided vector (set_transform): decided by R5 / the reciprocal rule below
            if name == "array_recip":
                src = wb.value(t["args"][1]) if len(t["args"]) > 1 else None
                ok_ = src is not None and any(n[0] == "field" and n[2] == "stds" for n in vt_walk(src)) and list(hit.values()) == ["inv_stds"]
                if ok_:
                    R.ok("C08-R3", "%s:recip" % wb.path, site, "inv_stds = array_recip(stds)")
                else:
                    R.bad("C08-R3", "%s:recip" % wb.path, site, "inv_stds is not derived as the reciprocal of stds")
            else:
                # a writer that stores a caller-provided vector is acceptable only if every caller is the gated low-rank update (R5)
                cg = F.callgraph()
                gated = {u.path for u in F.inherent_methods("LowRankMassMatrix", "update")}
                callers = set(cg.callers_of(wb.path))
                if callers and callers <= gated:
                    R.ok("C08-R1", "%s:%s:caller-provided" % (wb.path, name), site, "%s <- caller-provided vector; only caller is the finiteness-gated low-rank update" % list(hit.values()))
                else:
                    R.bad("C08-R1", "%s:%s:caller-provided" % (wb.path, name), site, "%s is overwritten with a caller-provided vector without sanitising; callers: %s "
                          "(only the gated low-rank update may do that)" % (list(hit.values()), sorted(callers) or "none in the workspace (public entry point)"))
            continue
        # element kernel: find the CpuMath impl and interpret its closure
        impls = [b for b in F.trait_method_impls("math::math::Math", name)] or [b for b in F.trait_method_impls("Math", name)]
        if not impls:
            R.bad("C08-R1", "%s:%s:no-impl" % (wb.path, name), site, "scale vector handed to Math::%s, which has no analysable workspace implementation" % name)
            continue
        for kb in impls:
            if (kb.path, tuple(sorted(hit.items()))) in kernels_seen:
                continue
            kernels_seen.add((kb.path, tuple(sorted(hit.items()))))
            analyse_kernel(F, R, kb, hit, wb, t)
    R.floor("C08-R1", 6)
    R.floor("C08-R3", 4)


def analyse_kernel(F, R, kb, hit, wb, call_t):
    name = kb.fn_name
    site = "%s @%s" % (kb.path, kb.loc())
    pb = K.param_bindings(kb)           # [(binding id, name)] incl. self
    # abstract environment for scalar parameters from all call sites of the *trait method* (through the DiagMassMatrix wrappers)
    env = {}
    sig_n = kb.arg_count
    for ai in range(2, sig_n + 1):
        ty = kb.local_ty(ai)
        if ty in ("f64", "(f64, f64)", "std::option::Option<f64>"):
            # call sites: every workspace caller of Math::<name>
            vals = []
            for cb in F.bodies.values():
                for bb, t in cb.calls():
                    if t["callee"].get("name") == name and t["callee"].get("trait") and path_ends(t["callee"]["trait"], "Math") and ai - 1 < len(t["args"]):
                        v = cb.value(t["args"][ai - 1])
                        if v[0] == "arg":
                            vals += [x[2] for x in param_values(F, cb, v[1])]
                        else:
                            vals.append(v)
            absv = None
            for v in vals:
                absv = join_abs(absv, abstract_of(v))
            bid = pb[ai - 1][0] if ai - 1 < len(pb) else None
            if bid is not None:
                env[bid] = absv if absv is not None else dict(A.TOP)
                R.info("C08-R1", "%s parameter `%s` over %d call sites: %s" % (name, pb[ai - 1][1], len(vals), _absshow(env[bid])))
    # the element closure(s): closures whose tuple parameter has as many elements as zipped operands
    sink_fields = {}
    clos = [v_ for v_ in (K.for_each_view(x) for x in hir_walk(kb.hir["value"])) if v_ is not None]
    if not clos:
        R.bad("C08-R1", "%s:closure" % kb.path, site, "no element loop found in %s" % name)
        return
    for fe in clos:
        clo = K.peel(fe["args"][0])
        if clo.get("k") != "Closure":
            continue
        # operand order: params of kb appearing in the zip receiver
        order = []
        pid2idx = {bid: i for i, (bid, _n) in enumerate(pb)}
        for x in hir_walk(fe["recv"]):
            if x.get("k") == "Path":
                lid = K.local_id(x)
                if lid in pid2idx and pid2idx[lid] not in order:
                    order.append(pid2idx[lid])
        p = clo["params"][0]
        while p.get("k") == "Ref":
            p = p["pat"]
        elems = p["pats"] if p.get("k") == "Tuple" else [p]
        if len(elems) != len(order):
            R.bad("C08-R1", "%s:closure-shape" % kb.path, site, "closure has %d elements for %d zipped parameters" % (len(elems), len(order)))
            continue
        cenv = dict(env)
        sinks = {}
        for q, pi in zip(elems, order):
            while q.get("k") in ("Ref", "Deref"):
                q = q["pat"]
            if q.get("k") != "Binding":
                continue
            if pi in hit:      # MIR arg index == HIR param index (self = 0)
                sinks[q["id"]] = hit[pi]
            else:
                cenv[q["id"]] = dict(A.TOP)   # arbitrary input element
        it = A.AInterp()
        it.exec(clo["body"], cenv)
        stores = {}
        for (lid, v, node) in it.sinks:
            if lid in sinks:
                stores.setdefault(sinks[lid], []).append((v, node))
        for fld in sorted(set(hit.values())):
            ss = stores.get(fld, [])
            key = "%s:%s" % (kb.path, fld)
            if not ss:
                R.bad("C08-R1", key, site, "kernel never stores into %s" % fld)
                continue
            for v, n in ss:
                if A.posfin(v) and v["lo"] is not None and v["hi"] is not None and v["lo"] != v["hi"]:
                    R.__dict__.setdefault("c08_ranges", []).append((kb.fn_name, fld, v["lo"], v["hi"], "%s @%s" % (kb.path, loc(n.get("span")))))
            bad = [(v, n) for v, n in ss if not A.posfin(v)]
            if bad:
                R.bad("C08-R1", key, "%s @%s" % (kb.path, loc(bad[0][1].get("span"))), "a store into %s %s (for some input element / call-site parameters): the scale can become "
                      "non-finite, zero or negative" % (fld, A.show(bad[0][0])))
            else:
                R.ok("C08-R1", key, site, "%d stores into %s, all %s" % (len(ss), fld, A.show(ss[0][0])))
        # reciprocal pair: compare canonical forms of the stored expressions branch by branch
        S = Subst(keep_local_names=True)
        pairs = {}
        for (lid, v, node) in it.sinks:
            if lid in sinks:
                pairs.setdefault(sinks[lid], []).append(show(canon(node["r"], S)))
        a, b2 = pairs.get("stds", []), pairs.get("inv_stds", [])
        key = "%s:reciprocal" % kb.path
        if a and len(a) == len(b2):
            okp = True
            for x, y in zip(a, b2):
                # x = V.sqrt(), y = V.recip().sqrt()
                if not (x.endswith(".sqrt()") and y.endswith(".recip().sqrt()") and x[:-len(".sqrt()")] == y[:-len(".recip().sqrt()")]):
                    okp = False
            if okp:
                R.ok("C08-R3", key, site, "stores are sqrt(v) / sqrt(recip(v)) of the same v in all %d branches" % len(a))
            else:
                R.bad("C08-R3", key, site, "stds / inv_stds stores are not a reciprocal pair: %s vs %s" % (a, b2))
        elif a or b2:
            R.bad("C08-R3", key, site, "unequal number of stds / inv_stds stores: %d vs %d" % (len(a), len(b2)))


def _absshow(v):
    if isinstance(v, dict):
        return A.show(v)
    if v[0] == "tuple":
        return "(" + ", ".join(_absshow(x) for x in v[1]) + ")"
    if v[0] == "opt":
        return "None" if not v[2] else "Some(%s)%s" % (A.show(v[1]), "")
    return str(v)


def r2(F, R):
    R.rule("C08-R2", "MassMatrixAdaptStrategy::adapt of the diagonal strategy returns false before any transformation mutator when fewer than 3 draws are in the "
                     "foreground estimator: every update_* call is dominated by the false edge of `current_count() < 3`")
    n = 0
    for b in F.trait_method_impls("MassMatrixAdaptStrategy", "adapt"):
        adt = b.parent.get("self_adt") or ""
        # the &mut transformation parameter (the only `&mut` parameter besides math: &mut M)
        tparams = [i for i in range(2, b.arg_count + 1) if b.local_ty(i).startswith("&mut") and b.local_ty(i) != "&mut M"]
        muts = []
        for bb, t in b.calls():
            for a in t["args"]:
                if a["k"] in ("copy", "move") and K.root_local(b, a) in tparams:
                    muts.append((bb, t))
                    break
        if not muts:
            R.bad("C08-R2", b.path + ":mutators", b.path, "adapt() never passes the transformation on (anchor)")
        from . import rel as Rl
        count_sw = None
        okk_sw = None
        for i, (bb, t) in enumerate(muts):
            n += 1
            rels = Rl.edge_relations(b, bb)
            okk = False
            for (o, l, r, _sw) in rels:
                if r is None:
                    continue
                for (op, x, y) in ((o, l, r), (Rl.FLIP.get(o), r, l)):
                    if op in ("Ge", "Gt") and x[0] == "call" and strip_generics(x[1]).endswith("current_count") and y[0] == "const":
                        c = int(y[2])
                        if (op == "Ge" and c >= 3) or (op == "Gt" and c >= 2):
                            okk = True
                            okk_sw = _sw
            if okk and count_sw is None:
                count_sw = okk_sw
            key = "%s:%s#%d" % (b.path, t["callee"]["name"], i)
            site = "%s @%s" % (b.path, loc(t["span"]))
            if okk:
                R.ok("C08-R2", key, site, "%s runs only when current_count() >= 3" % t["callee"]["name"])
            else:
                R.bad("C08-R2", key, site, "%s is not guarded by current_count() >= 3 (guards: %s): a variance from fewer than three draws can be written" % (
                    t["callee"]["name"], [(o, vt_str(l), vt_str(r) if r else None) for (o, l, r, _s) in rels]))
        # ... and with three draws or more the update happens: the only way to the return that passes no mutator is the too-few-draws edge
        if muts and count_sw is not None:
            mb = {bb for bb, _t in muts}
            succ = b.succ_map()[count_sw]
            few = [x for x in succ if not (mb & (b.reach_from(x) | {x}))]
            rets = {x for x, blk in enumerate(b.blocks) if blk["term"]["k"] == "return"}
            key = b.path + ":update-when-due"
            site = "%s @%s" % (b.path, b.loc())
            n += 1
            if len(few) != 1:
                R.bad("C08-R2", key, site, "cannot identify the too-few-draws edge of the count test (successors %s)" % succ)
            elif rets & b.reach_from(0, avoid=sorted(mb | set(few))):
                R.bad("C08-R2", key, site, "adapt() can return without updating the transformation although the foreground estimator holds three or more draws "
                      "(a path to the return avoids every mutator and is not the `current_count() < 3` edge): an update that is due is skipped")
            else:
                R.ok("C08-R2", key, site, "every path to the return is the too-few-draws edge or passes a mutator")
    R.floor("C08-R2", 5)


def r4(F, R):
    R.rule("C08-R4", "initial matrix: MassMatrixAdaptStrategy::init of the diagonal strategy seeds all four estimators with the start point and writes the "
                     "transformation through update_diag_grad with constant finite positive fill and clamp bounds")
    for b in F.trait_method_impls("MassMatrixAdaptStrategy", "init"):
        adt = b.parent.get("self_adt") or ""
        if not path_ends(adt, "transform::adapt::diagonal::Strategy"):
            continue
        site = "%s @%s" % (b.path, b.loc())
        adds = b.calls_to(lambda c: path_ends(c["path"], "RunningVariance::add_sample"))
        fields = set()
        for bb, t in adds:
            v = b.value(t["args"][0])
            fields |= {n[2] for n in vt_walk(v) if n[0] == "field"}
        a = F.adts.get(adt)
        est = {f["name"] for f in a["variants"][0]["fields"] if "RunningVariance" in f["ty"]} if a else set()
        if est and est <= fields:
            R.ok("C08-R4", b.path + ":seed", site, "all estimators seeded: %s" % sorted(est))
        else:
            R.bad("C08-R4", b.path + ":seed", site, "estimators not seeded with the start point: %s" % sorted(est - fields))
        ups = [(bb, t) for bb, t in b.calls() if (t["callee"].get("name") or "").startswith("update_diag")]
        if len(ups) != 1:
            R.bad("C08-R4", b.path + ":initial-write", site, "expected one update_diag_* call in init, found %d" % len(ups))
        for bb, t in ups:
            consts = [abstract_of(b.value(x)) for x in t["args"][-2:]]
            okk = isinstance(consts[0], dict) and A.posfin(consts[0]) and isinstance(consts[1], tuple) and consts[1][0] == "tuple" and all(A.posfin(x) for x in consts[1][1])
            if okk:
                R.ok("C08-R4", b.path + ":initial-write", "%s @%s" % (b.path, loc(t["span"])), "fill %s, clamp %s" % (_absshow(consts[0]), _absshow(consts[1])))
            else:
                R.bad("C08-R4", b.path + ":initial-write", "%s @%s" % (b.path, loc(t["span"])), "initial mass matrix written with fill/clamp %s" % [_absshow(c) for c in consts])
    R.floor("C08-R4", 2)


def r5(F, R):
    R.rule("C08-R5", "low-rank update: LowRankMassMatrix::update returns before any write unless every input (scales, mean, eigenvalues, eigenvectors) passed a "
                     "finiteness check; set_transform / InnerMatrix::new are reachable only from there")
    ups = F.inherent_methods("LowRankMassMatrix", "update")
    if len(ups) != 1:
        R.missing("C08-R5", "LowRankMassMatrix::update")
        return
    b = ups[0]
    site = "%s @%s" % (b.path, b.loc())
    checks = [(bb, t) for bb, t in b.calls() if "all_finite" in (t["callee"].get("name") or "")]
    checked = set()
    for bb, t in checks:
        v = b.value(t["args"][0])
        checked |= {n[2] for n in vt_walk(v) if n[0] == "arg"}
    # a check written as a later helper (inlined): a function whose body tests every element with is_finite (possibly together with more)
    for bi_, blk_ in enumerate(b.blocks):
        t_ = blk_["term"]
        if t_.get("inlined_call") and t_.get("inlined_args"):
            hb_ = F.any_body(t_["inlined_call"])
            if hb_ is not None and hb_.hir and str(hb_.r.get("output")) == "bool" and \
               any(x.get("k") == "MethodCall" and x.get("method") == "is_finite" for x in hir_walk(hb_.hir["value"])):
                v = b.value(t_["inlined_args"][0])
                checked |= {n[2] for n in vt_walk(v) if n[0] == "arg"}
                checks.append((bi_, t_))
    writers = [(bb, t) for bb, t in b.calls() if t["callee"].get("name") in ("set_transform",) or path_ends(t["callee"].get("path", ""), "InnerMatrix::new")]
    need = {b.local_name(i) for i in range(1, b.arg_count + 1) if b.local_ty(i).startswith(("faer::Col<f64", "faer::Mat<f64", "faer::col::", "faer::mat::")) or
            "Col<f64>" in b.local_ty(i) or "Mat<f64>" in b.local_ty(i)}
    need -= {"mean_low_rank"} if False else set()
    unchecked = sorted(n for n in need if n not in checked)
    key = b.path + ":finite-gate"
    dom_ok = all(all(b.dominates(cb, wb) for cb, _t in checks) for wb, _t in writers) and writers and checks
    if dom_ok and not [u for u in unchecked if u not in ("mean_low_rank",)]:
        R.ok("C08-R5", key, site, "finiteness of %s checked before %d writes%s" % (sorted(checked), len(writers),
             "" if "mean_low_rank" not in unchecked else " (mean_low_rank is not checked: it does not enter a scale)"))
    else:
        R.bad("C08-R5", key, site, "low-rank update writes the transformation without a dominating finiteness check of %s" % (unchecked or "its inputs"))
    # who calls the diagonal set_transform
    cg = F.callgraph()
    st = [bb_ for bb_ in F.inherent_methods("DiagMassMatrix", "set_transform")]
    for s in st:
        callers = [c for c in cg.callers_of(s.path)]
        okc = all(c == b.path for c in callers)
        if okc and callers:
            R.ok("C08-R5", s.path + ":callers", s.path, "set_transform is called only from the gated low-rank update")
        else:
            R.bad("C08-R5", s.path + ":callers", s.path, "set_transform (unsanitised scale write) is called from %s" % callers)
    R.assume("low-rank scales: diag scales sigma = sqrt(std_draw/std_grad) and eigenvalues of the regularised SPD mean are positive in exact arithmetic; zero / "
             "infinite sigma makes the rescaled window non-finite, faer's decomposition then fails and the update is skipped (reproduced once, not visible statically)")
    R.floor("C08-R5", 2)


def r6(F, R):
    R.rule("C08-R6", "premise of the low-rank assumption: the per-coordinate scale sigma that the estimator returns as `stds` is also applied to the draw window as "
                     "`sigma.recip()` unconditionally, so a zero / infinite / NaN sigma poisons the window with non-finite values and the decomposition (hence the "
                     "update) is rejected; a guard on that reciprocal would let a zero scale through the finiteness-only gate of LowRankMassMatrix::update - unless "
                     "update() itself checks strict positivity")
    from .facts import hir_walk
    cands = []
    for b in F.bodies.values():
        if b.kind != "fn" or not b.path.startswith("transform::adapt::low_rank::") or not b.hir:
            continue
        h = b.hir["value"]
        stores = []
        for x in hir_walk(h):
            if x.get("k") == "Assign" and K.peel(x["l"]).get("k") == "Index":
                rid = K.local_id(x["r"])
                if rid is not None:
                    stores.append((K.local_id(K.peel(x["l"])["e"]), rid, x))
        if not stores:
            continue
        # locals defined as <scale>.recip()
        for x in hir_walk(h):
            if x.get("k") == "Let" and x.get("init") is not None and x["pat"].get("k") == "Binding":
                uses_recip = any(y.get("k") == "MethodCall" and y.get("method") == "recip" for y in hir_walk(x["init"]))
                if not uses_recip:
                    continue
                for (vec_id, scale_id, node) in stores:
                    if any(K.local_id(y) == scale_id for y in hir_walk(x["init"]) if y.get("k") == "Path"):
                        cands.append((b, x, scale_id, node))
    pos_check = False
    for u in F.inherent_methods("LowRankMassMatrix", "update"):
        for bb, t in u.calls():
            nm = (t["callee"].get("name") or "")
            if "positive" in nm:
                pos_check = True
    if not cands:
        if pos_check:
            R.ok("C08-R6", "lowrank:positivity-check", "LowRankMassMatrix::update", "update() checks strict positivity itself")
        else:
            R.bad("C08-R6", "lowrank:premise", "transform::adapt::low_rank", "no estimator function found that stores a scale and rescales the window by its reciprocal (anchor), "
                  "and update() has no positivity check")
        return
    for (b, let, scale_id, node) in cands:
        init = K.peel(let["init"])
        site = "%s @%s" % (b.path, loc(let.get("span") or b.span))
        plain = init.get("k") == "MethodCall" and init.get("method") == "recip" and K.local_id(init["recv"]) == scale_id
        if plain:
            R.ok("C08-R6", b.path + ":unguarded-recip", site, "window scale = sigma.recip(), unconditional: degenerate sigma makes the window non-finite")
        elif pos_check:
            R.ok("C08-R6", b.path + ":unguarded-recip", site, "reciprocal is guarded, but update() checks strict positivity")
        else:
            R.bad("C08-R6", b.path + ":unguarded-recip", site, "the reciprocal of the scale is guarded / rewritten: a zero scale no longer poisons the window, passes the "
                  "finiteness-only gate of LowRankMassMatrix::update and is installed (stds = 0, inv_stds = inf, logdet = inf)")
    R.floor("C08-R6", 1)


def new_writers(F, R):
    """R1 completeness: no other function obtains `&mut` to stds / inv_stds."""
    adt = diag_adt(F)
    known = {b.path for (b, _bb, _t, _h) in scale_writer_calls(F)}
    for fld in SCALE_FIELDS:
        for (b, st) in K.field_mut_borrows(F, adt, fld):
            if b.path not in known and b.fn_name not in ("new",):
                R.bad("C08-R1", "%s:unknown-writer:%s" % (b.path, fld), "%s @%s" % (b.path, loc(st["span"])), "mutable access to DiagMassMatrix.%s outside the analysed writers" % fld)
        for (wb, bb, st, v, how) in K.field_writers(F, adt, fld):
            if how == "assign":
                R.bad("C08-R1", "%s:direct-store:%s" % (wb.path, fld), "%s @%s" % (wb.path, loc(st["span"])), "direct assignment of DiagMassMatrix.%s" % fld)


def r8(F, R):
    """Translation invariance of the running moments (exactness for any Gaussian mean)."""
    from . import kernel as KN
    R.rule("C08-R8", "running moments are translation invariant: in the element update of Math::array_update_variance, adding the same constant c to the sample "
                     "and to the running mean leaves the stored variance accumulator unchanged and moves the stored mean by exactly c (polynomial identity of "
                     "the update expressions). An accumulator of raw powers (sum of x*x, centred only when read) cancels catastrophically for |mean| >> sd "
                     "and cannot recover the standard deviation `to rounding`")
    impls = [b for b in F.trait_method_impls("Math", "array_update_variance") if path_ends(b.parent.get("self_adt") or "", "cpu_math::CpuMath")]
    if not impls:
        R.missing("C08-R8", "impl Math::array_update_variance for CpuMath")
        return
    for kb in impls:
        site = "%s @%s" % (kb.path, kb.loc())
        key = kb.path + ":shift"
        pb = K.param_bindings(kb)
        pid2idx = {bid: i for i, (bid, _n) in enumerate(pb)}
        done = False
        for fe in [v_ for v_ in (K.for_each_view(x) for x in hir_walk(kb.hir["value"])) if v_ is not None]:
            clo = K.peel(fe["args"][0])
            if clo.get("k") != "Closure":
                continue
            order = []
            for x in hir_walk(fe["recv"]):
                if x.get("k") == "Path":
                    lid = K.local_id(x)
                    if lid in pid2idx and pid2idx[lid] not in order:
                        order.append(pid2idx[lid])
            prm = clo["params"][0]
            while prm.get("k") == "Ref":
                prm = prm["pat"]
            elems = prm["pats"] if prm.get("k") == "Tuple" else [prm]
            if len(elems) != len(order) or len(elems) != 3:
                continue
            ev = KN.Eval()
            atoms = {}
            for q, pi in zip(elems, order):
                while q.get("k") in ("Ref", "Deref"):
                    q = q["pat"]
                if q.get("k") == "Binding":
                    atoms[pi] = ("in", pi, 0)
                    ev.env[q["id"]] = KN.patom(atoms[pi])
            ev.ev(clo["body"])
            outs = {k[1]: v for k, v in ev.outputs.items()}
            ins = [pi for pi in atoms if pi not in outs]
            if len(outs) != 2 or len(ins) != 1 or ev.notes:
                R.bad("C08-R8", key, site, "update closure not understood: %d stored operands, %d read-only operands %s" % (len(outs), len(ins), ev.notes[:2]))
                done = True
                continue
            x = ins[0]
            c = KN.patom(("var", "shift_c"))
            found = None
            for m_i in outs:
                v_i = [o for o in outs if o != m_i][0]
                sub = {atoms[x]: KN.padd(KN.patom(atoms[x]), c), atoms[m_i]: KN.padd(KN.patom(atoms[m_i]), c)}
                v_shift = KN.psubst(outs[v_i], sub)
                m_shift = KN.psubst(outs[m_i], sub)
                if KN.pkey(v_shift) == KN.pkey(outs[v_i]) and KN.pkey(m_shift) == KN.pkey(KN.padd(outs[m_i], c)):
                    found = (m_i, v_i)
            done = True
            names = {i: n for i, (_b, n) in enumerate(pb)}
            if found:
                R.ok("C08-R8", key, site, "mean' = %s, var' = %s: shifting %s and %s by c shifts mean' by c and leaves var' unchanged" % (
                    KN.pshow(outs[found[0]])[:80], KN.pshow(outs[found[1]])[:80], names.get(x), names.get(found[0])))
            else:
                R.bad("C08-R8", key, site, "the running moments are not translation invariant (%s): a raw power sum loses the variance of an offset Gaussian to cancellation" % (
                    "; ".join("%s' = %s" % (names.get(i), KN.pshow(p)[:70]) for i, p in sorted(outs.items()))))
        if not done:
            R.bad("C08-R8", key, site, "no element closure over (mean, variance, value) found")
    R.floor("C08-R8", 1)



def r9(F, R):
    """The kernels the transformations are updated with iterate whole vectors per element (C17-K8 analysis), in particular the log-determinant."""
    from . import c17
    names = set()
    for b in F.bodies.values():
        if not b.path.startswith(("transform::", "<transform::")):
            continue
        for bb, t in b.calls():
            c = t["callee"]
            if c.get("trait") and path_ends(c["trait"], "Math") and c.get("name"):
                names.add(c["name"])
    if "array_sum_ln" not in names:
        R.missing("C08-R9", "Math::array_sum_ln called from the transformations")
        return

    def go(sub):
        c17.k8(F, sub)
        # keep the obligations of the Math methods the transformations use
        sub.obligations = [o for o in sub.obligations if any(("Math>::%s:" % n) in o["key"] for n in names)]
    K.borrow_rule(R, go, "C08-R9", "every CpuMath kernel called by the transformation code (%d methods, among them array_sum_ln for the log-determinant) visits "
                  "each element exactly once and applies ln / is_finite per element, so that finite positive scales give a finite log-determinant "
                  "(C17-K8 analysis restricted to those methods)" % len(names), only_rules={"C17-K8"})
    R.floor("C08-R9", 5)



def r11(F, R):
    """The centre of the diagonal transformation is computed from the scales of the same update."""
    from . import eff as E
    R.rule("C08-R11", "in every DiagMassMatrix update that writes both the scales and the mean, each call that reads self.stds / self.inv_stds (the squared scale "
                      "entering `mean = mean(draw) + sigma^2 * mean(grad)`) is dominated by the call that writes them: the mean is never built from the "
                      "scales of the previous transformation")
    n = 0
    for b in sorted(F.bodies.values(), key=lambda x: x.path):
        if b.kind == "closure" or not path_ends(b.parent.get("self_adt") or "", "diagonal::DiagMassMatrix") or b.parent.get("trait"):
            continue
        wr, rd, wmean = [], [], False
        for bb, t in b.calls():
            for (mode, pl, leaf, _sc, _ai) in E.call_effects(F, b, t):
                if pl is None or pl[0] != ("arg", 1) or not pl[1]:
                    continue
                f = pl[1][-1]
                if mode == "W" and f in ("stds", "inv_stds"):
                    wr.append((bb, t))
                if mode == "R" and f in ("stds", "inv_stds") and leaf not in ("array_sum_ln",):
                    rd.append((bb, t, f))
                if mode == "W" and f == "mean":
                    wmean = True
        if not wr or not wmean:
            continue
        n += 1
        key = "%s:mean-after-scales" % b.path
        site = "%s @%s" % (b.path, b.loc())
        early = [(bb, t, f) for (bb, t, f) in rd if not any(b.dominates(wb, bb) and wb != bb for wb, _wt in wr)]
        if early:
            R.bad("C08-R11", key, "%s @%s" % (b.path, loc(early[0][1]["span"])), "%s reads self.%s before the scales of this update are written: the mean of the new "
                  "transformation is computed from the previous scales" % (early[0][1]["callee"].get("name"), early[0][2]))
        else:
            R.ok("C08-R11", key, site, "%d reads of the scales, all after they are written" % len(rd))
    R.floor("C08-R11", 2)



NUMERIC_MODULES = ("transform::", "math::", "dynamics::", "stepsize::", "nuts::", "mclmc::", "adapt_strategy::", "external_adapt_strategy::", "chain::",
                   "<transform::", "<math::", "<dynamics::", "<stepsize::", "<nuts::", "<mclmc::", "<adapt_strategy::", "<external_adapt_strategy::", "<chain::")


def _narrowing_casts(F, in_scope):
    out = []
    for b in sorted(F.bodies.values(), key=lambda x: x.path):
        if not in_scope(b) or K.is_std_derive(b):
            continue
        for bi, blk in enumerate(b.blocks):
            if blk["cleanup"]:
                continue
            for st in blk["stmts"]:
                if st["k"] == "assign" and st["rv"]["k"] == "cast" and st["rv"].get("ck") == "FloatToFloat" and str(st["rv"].get("ty")) == "f32":
                    out.append((b, bi, st))
    return out


def r12(F, R):
    R.rule("C08-R12", "exact to rounding means f64 rounding: no value of the sampler's numeric path (transformations and their adaptation windows, math kernels, "
                      "dynamics, step size, trees) is narrowed to f32 (`as f32`): draws stored in single precision lose digits relative to their magnitude, not "
                      "their spread, and the recovered mean / covariance of a Gaussian far from the origin is wrong")
    hits = _narrowing_casts(F, lambda b: b.path.startswith(NUMERIC_MODULES))
    for (b, bi, st) in hits:
        R.bad("C08-R12", "%s:f64-as-f32" % b.path, "%s @%s" % (b.path, loc(st["span"])), "a value is narrowed to f32 here (%s)" % vt_str(b.rvalue_value(st["rv"]))[:80])
    if not hits:
        n = sum(1 for b in F.bodies.values() if b.path.startswith(NUMERIC_MODULES))
        R.ok("C08-R12", "scan", "numeric modules", "%d function bodies, no f64 -> f32 cast" % n)
    P = K.positive_facts()
    if any(b.path.endswith("c08_narrow") for (b, _bi, _st) in _narrowing_casts(P, lambda b: True)):
        R.ok("C08-R12", "positive-control", "fixtures/positive", "the planted `x as f32` is reported")
    else:
        R.bad("C08-R12", "positive-control", "fixtures/positive", "matcher failed to report the planted f64 -> f32 cast")


def r13(F, R):
    R.rule("C08-R13", "the diagonal adaptation is per coordinate: adapt() of the diagonal strategy does not test its variance estimates as a whole "
                      "(array_all_finite / array_all_finite_and_nonzero) before calling the update kernels - an unusable estimate of one coordinate is handled "
                      "inside the kernels, element by element (the previous scale stays), and must not keep every other coordinate from being adapted")
    bs = [b for b in F.trait_method_impls("MassMatrixAdaptStrategy", "adapt") if "diagonal" in b.path]
    if not bs:
        R.missing("C08-R13", "impl MassMatrixAdaptStrategy::adapt for the diagonal strategy")
    for b in bs:
        site = "%s @%s" % (b.path, b.loc())
        ups = [bb for bb, t in b.calls() if str(t["callee"].get("name") or "").startswith("update_diag")]
        gates = []
        for bb, t in b.calls():
            if str(t["callee"].get("name") or "").startswith("array_all_finite"):
                # does its outcome decide whether an update kernel runs?
                dest = t["dest"]["l"]
                for u in ups:
                    for (a, _s) in b.control_deps_trans(u):
                        tt = b.blocks[a]["term"]
                        if tt["k"] == "switch" and tt["discr"]["k"] in ("copy", "move") and dest in b.slice([tt["discr"]], control=False)["locals"]:
                            gates.append((bb, t))
                if not ups:
                    gates.append((bb, t))
        if gates:
            R.bad("C08-R13", b.path + ":whole-vector-gate", "%s @%s" % (b.path, loc(gates[0][1]["span"])), "the update of all coordinates is skipped when `%s` fails for the "
                  "vector as a whole: one coordinate with a zero / non-finite variance estimate blocks the adaptation of every other coordinate" % gates[0][1]["callee"]["name"])
        else:
            R.ok("C08-R13", b.path + ":whole-vector-gate", site, "%d update kernel call(s), none behind a whole-vector finiteness test" % len(ups))
    R.floor("C08-R13", 1)



def paired_estimators(F, R, rid="C08-R14"):
    """The draw and gradient estimators of the diagonal strategy move in lock step (shared with C05)."""
    R.rule(rid, "estimator pairs stay in step: in every method of the diagonal strategy a draw estimator and its gradient partner (`..draw..` <-> `..grad..`) "
                "receive the same operations - as many stores, as many mem::replace and as many add_sample calls - so their sample counts agree whenever "
                "the update divides one by the other (the code asserts `draw_bg.count() == grad_bg.count()`: a one-sided reset panics at the next draw)")
    adts = [p for p in F.adts if path_ends(p, "transform::adapt::diagonal::Strategy")]
    if not adts:
        R.missing(rid, "transform::adapt::diagonal::Strategy")
        return
    adt = adts[0]
    est = [f["name"] for f in F.adts[adt]["variants"][0]["fields"] if "RunningVariance" in f["ty"]]
    pairs = [(d, d.replace("draw", "grad")) for d in est if "draw" in d and d.replace("draw", "grad") in est]
    if len(pairs) < 2:
        R.missing(rid, "draw/grad estimator pairs of %s (fields: %s)" % (adt, est))
        return
    stores = {f: K.field_writers(F, adt, f) for f in est}
    n = 0
    for b in sorted(F.bodies.values(), key=lambda x: x.path):
        if b.kind == "closure" or not path_ends(b.parent.get("self_adt") or "", "transform::adapt::diagonal::Strategy"):
            continue
        cnt = {f: [0, 0, 0] for f in est}
        for f in est:
            cnt[f][0] = sum(1 for w in stores[f] if w[0] is b and w[4] in ("assign", "call"))
        for bb, t in b.calls():
            nm = t["callee"].get("name")
            p = t["callee"].get("path", "")
            which = 1 if path_ends(strip_generics(p), "mem::replace") else 2 if nm == "add_sample" else None
            if which is None or not t["args"]:
                continue
            v = b.value(t["args"][0])
            for x in vt_walk(v):
                if x[0] == "field" and x[2] in cnt:
                    cnt[x[2]][which] += 1
                    break
        if not any(any(c) for c in cnt.values()):
            continue
        for d, g in pairs:
            if not (any(cnt[d]) or any(cnt[g])):
                continue
            n += 1
            key = "%s:%s/%s" % (b.path, d, g)
            site = "%s @%s" % (b.path, b.loc())
            if cnt[d] == cnt[g]:
                R.ok(rid, key, site, "stores / replaces / add_sample: %s on both" % cnt[d])
            else:
                R.bad(rid, key, site, "%s gets %s (stores, mem::replace, add_sample) but its partner %s gets %s: the two estimators of the pair no longer hold "
                      "the same number of samples" % (d, cnt[d], g, cnt[g]))
    R.floor(rid, 6)


def draw_registered(F, R, rid="C08-R16"):
    """Every draw reaches the adaptation collector (shared with C09)."""
    R.rule(rid, "every transition hands its end state to the adaptation collector: in nuts::draw and MclmcChain::mclmc_kernel a Collector::register_draw call lies on "
                "every path to `Ok(..)` - also for a diverging trajectory (the collector decides what to do with it). The chains replace the collector after each "
                "draw by a fresh one holding zero vectors, so a draw that is not registered feeds the estimators the pair (0, 0) instead of (x, grad logp(x))")
    n = 0
    for b in sorted(F.bodies.values(), key=lambda x: x.path):
        if b.kind == "closure" or not (strip_generics(b.path).endswith("nuts::draw") or b.fn_name == "mclmc_kernel"):
            continue
        regs = [bb for bb, t in b.calls() if t["callee"].get("name") == "register_draw"]
        oks = [bi for bi, blk in enumerate(b.blocks) if not blk["cleanup"] and any(
            st["k"] == "assign" and st["pl"]["l"] == 0 and not st["pl"]["p"] and st["rv"]["k"] == "agg" and st["rv"].get("variant") == "Ok" for st in blk["stmts"])]
        key = b.path + ":register_draw"
        site = "%s @%s" % (b.path, b.loc())
        n += 1
        if not regs or not oks:
            R.bad(rid, key, site, "expected register_draw calls and Ok sites, found %d / %d" % (len(regs), len(oks)))
            continue
        reach = b.reach_from(0, avoid=regs)
        miss = [o for o in oks if o in reach]
        if miss:
            sp = [st["span"] for st in b.blocks[miss[0]]["stmts"] if st.get("span")]
            R.bad(rid, key, "%s @%s" % (b.path, loc(sp[-1])) if sp else site, "an `Ok(..)` is reachable without register_draw: that draw never reaches the adaptation collector")
        else:
            R.ok(rid, key, site, "%d register_draw call(s) cover all %d Ok site(s)" % (len(regs), len(oks)))
    R.floor(rid, 2)


def estimator_restart_whole(F, R, rid="C08-R17"):
    """count, mean and the accumulated squared deviations of a running estimator are one value: restarted together or not at all."""
    R.rule(rid, "a running-variance estimator is restarted as a whole: `count` is written only as `count + 1` (add_sample) or as part of a freshly constructed "
                "estimator. A body that stores anything else into `count` (a reset that keeps the allocations) must overwrite the accumulator `variance` in the same "
                "body - add_sample's first-sample branch replaces the mean only and relies on `variance` being the zero array of `new()`, so a count-only reset "
                "carries the squared deviations of the discarded samples into the new estimate (scales that are the statistics of no set of draws)")
    n = 0
    for b in sorted(F.bodies.values(), key=lambda x: x.path):
        if not b.mir or "::tests::" in b.path or K.is_std_derive(b):
            continue
        stores = []
        wrote_var = False
        for bi, blk in enumerate(b.blocks):
            if blk["cleanup"]:
                continue
            for st in blk["stmts"]:
                if st["k"] != "assign":
                    continue
                for pl in ([st["pl"]] + ([st["rv"]["pl"]] if st["rv"]["k"] in ("ref", "rawptr") and st["rv"].get("bk") in ("mut", "Mut") else [])):
                    fl = [e for e in pl["p"] if isinstance(e, dict) and "f" in e]
                    if not fl or "RunningVariance" not in (fl[-1].get("of") or ""):
                        continue
                    if fl[-1].get("n") == "variance":
                        wrote_var = True
                    if fl[-1].get("n") == "count" and pl is st["pl"]:
                        stores.append((bi, st))
        for bi, st in stores:
            n += 1
            rv = st["rv"]
            txt = vt_str(b.value(rv["op"])) if rv["k"] == "use" else rv["k"]
            key = "%s:count" % b.path
            site = "%s @%s" % (b.path, loc(st["span"]))
            if "self.count AddWithOverflow 1" in txt.replace("(*", "").replace(")", "") or txt.replace(" ", "") in ("(*self.countAddWithOverflow1).0",):
                R.ok(rid, key, site, "count := count + 1")
            elif wrote_var:
                R.ok(rid, key, site, "count := %s together with a write of the accumulator" % txt[:40])
            else:
                R.bad(rid, key, site, "count := %s without overwriting `variance`: the next add_sample restarts the mean only, the squared deviations of the "
                      "discarded samples stay in the estimate" % txt[:40])
    R.info(rid, "stores into RunningVariance.count: %d" % n)
    if n < 1:
        R.missing(rid, "a store into RunningVariance.count (add_sample; found %d)" % n)


def run(F, R, config=None):
    r1_r3(F, R)
    r7(F, R)
    new_writers(F, R)
    r2(F, R)
    r4(F, R)
    r5(F, R)
    r6(F, R)
    r8(F, R)
    r9(F, R)
    r11(F, R)
    r12(F, R)
    r13(F, R)
    paired_estimators(F, R)
    draw_registered(F, R)
    estimator_restart_whole(F, R)
    from . import c02
    K.borrow_rule(R, lambda sub: c02.r10(F, sub), "C08-R10", "no logarithm of a product reduction in the transformation / math code: finite positive scales and "
                  "eigenvalues give a finite log-determinant (C02-R10 analysis)", only_rules={"C02-R10"})
    # the estimators run with the mass-matrix / window options the user configured
    from . import convert
    import re as _re
    convert.faithful_conversion(F, R, "C08-R15", focus=lambda path, key: bool(_re.search(r"(?i)mass_matrix|lowrank|diag|window|eigval|gamma|switch_freq|update_freq|early|"
                                                                                       r"EuclideanAdaptOptions|FlowSettings", key)),
                                focus_text=" (mass-matrix and window options)")
    R.assume("user-supplied Math implementations other than CpuMath are outside the analysed world")


CONFIGS = ["all", "nodefault"]
SELFTEST = True

"""C18 - MCLMC keeps its structural invariants (structural clauses)."""
from .facts import path_ends, loc, strip_generics, hir_walk, vt_walk, vt_str
from . import common as K
from . import rel as Rl
from . import kernel as KN

LEVEL = ("Static structural conditions of the microcanonical sampler: every write of a point's velocity that can execute with the microcanonical kinetic "
         "energy is followed on all paths by Math::array_normalize of that vector (initialize_trajectory, partial_momentum_refresh), and the ESH update "
         "ends by dividing every momentum component by the norm of the updated momentum (R1); a divergent draw returns a fresh copy of the pre-trajectory "
         "state re-initialised with fresh momentum, a non-divergent draw the last integrated state (R2); the kinetic-energy kind is switched only in "
         "MclmcChain::draw under `kind == EuclideanEarlyThenMicrocanonical and draw_count == switch_draw and current kind != Microcanonical`, and that "
         "branch forces the momentum to be resampled (R3); the number of base steps depends on exactly subsample_frequency, the decoherence length and the "
         "step size, is rounded and floored at 1; in the dynamic step-size retry the factor is halved exactly where the remaining-steps stack is pushed and "
         "doubled exactly where it is popped, the pop sits in an unwinding loop that is only left with remaining > 0 or an empty stack, and each "
         "successful step decrements the remaining count once (R4). The ESH closed form and the kinetic-energy change as numbers are not decided."
         " Added: the stack of pending step-size levels is per draw (R4); switch_draw is computed from trajectory_switch_fraction and num_tune only (R5)."
         " Added (round 5): a retry level is pushed only while len < max_halvings (R4 retry-limit); the ESH entry points take the step size as their only scalar and the closed form is unclamped (R1)."
         " Added (round 6): the MCLMC presets hand their settings to the chain as set (R7, rules/convert.py); the retry factor scales both half-steps and the position step alike (R8 = C02-R2)."
         " Added (round 7): a plain-data field of MclmcChain that mclmc_kernel reads is never stored after construction - per-draw quantities are read from the Hamiltonian in the call, not from a copy kept in the chain (R9).")
EXPLANATION = ("Effect / dominance analysis on the MIR of the Hamiltonian methods and of MclmcChain::{draw, mclmc_kernel}; natural-loop structure of the retry "
               "bookkeeping; symbolic evaluation (rules/kernel.py) of the final loops of CpuMath::esh_momentum_update.")
TRUSTED = ["rustc nightly MIR/HIR", "nutsfacts extractor", "rules/c18.py", "Math::array_normalize divides by the Euclidean norm (decided for CpuMath by R1's symbolic check)"]
TECHNIQUE = "static analysis: post-dominance of normalisation after velocity writes + loop-structure / pairing analysis of the retry stack + symbolic evaluation of the ESH renormalisation"

MICRO = "Microcanonical"


def velocity_writes(F, b):
    """Math calls in b that receive `&mut <point>.velocity`: [(bb, term)]"""
    out = []
    for bb, t in b.calls():
        for a in t["args"]:
            if a["k"] in ("copy", "move"):
                ty = b.local_ty(a["pl"]["l"])
                if not ty.startswith("&mut"):
                    continue
                v = b.value(a)
                base = v
                while base[0] in ("ref", "deref"):
                    base = base[1]
                if base[0] == "field" and base[2] == "velocity":
                    out.append((bb, t))
                    break
    return out


def kind_edges(b, bb):
    """How block bb depends on the kinetic-energy kind: set of variant names under which it can execute, or None (independent)."""
    allowed = None
    for (a, s) in b.control_deps_trans(bb):
        t = b.blocks[a]["term"]
        if t["k"] != "switch":
            continue
        # match on the kind enum
        if "enum_place" in t and "KineticEnergyKind" in (t["enum_place"].get("ty") or ""):
            names = [x["name"] for x in t["arms"] if x["target"] == s]
            if not names and t["otherwise"] == s:
                listed = {x["name"] for x in t["arms"]}
                names = [n for n in ("Euclidean", "ExactNormal", MICRO) if n not in listed]
            allowed = set(names) if allowed is None else allowed & set(names)
            continue
        # `kind == Microcanonical` via PartialEq::eq call
        v = b.value(t["discr"])
        if v[0] == "call" and v[1].endswith("PartialEq::eq") or (v[0] == "call" and strip_generics(v[1]).endswith("::eq")):
            s_ = vt_str(v)
            if "kinetic_energy_kind" in s_ and MICRO in s_:
                val = None
                for arm in t["arms"]:
                    if arm["target"] == s:
                        val = arm["val"] != 0
                if val is None and t["otherwise"] == s:
                    val = not any(arm["val"] != 0 for arm in t["arms"])
                names = {MICRO} if val else {"Euclidean", "ExactNormal"}
                allowed = names if allowed is None else allowed & names
    return allowed


def r1(F, R):
    R.rule("C18-R1", "microcanonical unit norm: in every Hamiltonian method, a velocity write that can execute with kind = Microcanonical is post-dominated (among the "
                     "paths on which the kind is Microcanonical) by array_normalize of the velocity; CpuMath::esh_momentum_update ends by scaling every component "
                     "with the reciprocal norm of the updated momentum")
    n = 0
    for nm in ("initialize_trajectory", "partial_momentum_refresh"):
        bs = F.trait_method_impls("Hamiltonian", nm)
        if not bs:
            R.missing("C18-R1", "impl Hamiltonian::%s" % nm)
        for b in bs:
            writes = [(bb, t) for bb, t in velocity_writes(F, b) if t["callee"].get("name") != "array_normalize"]
            norms = [(bb, t) for bb, t in velocity_writes(F, b) if t["callee"].get("name") == "array_normalize"]
            for i, (wbb, wt) in enumerate(writes):
                kinds = kind_edges(b, wbb)
                key = "%s:%s#%d" % (b.path, wt["callee"]["name"], i)
                site = "%s @%s" % (b.path, loc(wt["span"]))
                if kinds is not None and MICRO not in kinds:
                    R.ok("C18-R1", key, site, "velocity write executes only for %s" % sorted(kinds))
                    continue
                # every path from the write to a return on which kind may be Microcanonical passes a normalize
                okk = False
                for (nbb, nt) in norms:
                    if not b.dominates(wbb, nbb):
                        continue
                    nk = kind_edges(b, nbb)
                    # paths avoiding the normalize: must all be non-microcanonical
                    avoid = b.reach_from(b.blocks[wbb]["term"].get("target"), avoid=[nbb])
                    esc = [x for x in avoid if x in b.exits()]
                    if not esc:
                        okk = True
                    else:
                        # the branch that skips the normalize must be the non-microcanonical side of a kind test controlling the normalize
                        if nk is not None and nk == {MICRO}:
                            okk = True
                if okk:
                    n += 1
                    R.ok("C18-R1", key, site, "followed by array_normalize whenever the kind is Microcanonical")
                else:
                    R.bad("C18-R1", key, site, "velocity written by %s is not renormalised on every microcanonical path: the momentum leaves the unit sphere" % wt["callee"]["name"])
    # the closed form needs the norm of the gradient it is applied to: an ESH entry point of the Math trait that receives a second scalar
    # (a pre-computed / cached norm) can be handed one that belongs to another gradient
    for tp, tr in F.traits.items():
        if not path_ends(tp, "math::Math"):
            continue
        for it in tr.get("items", []):
            if it.get("inputs") is not None and str(it["name"]).startswith("esh_momentum_update"):
                scal = [x for x in it["inputs"] if str(x) in ("f64", "std::option::Option<f64>", "&f64")]
                if len(scal) != 1:
                    R.bad("C18-R1", "Math::%s:scalars" % it["name"], tp, "Math::%s takes %d scalar arguments besides the vectors (expected the step size only): a gradient norm "
                          "supplied from outside need not be the norm of the gradient argument" % (it["name"], len(scal)))
                else:
                    R.ok("C18-R1", "Math::%s:scalars" % it["name"], tp, "the ESH update receives the step size only and computes the gradient norm itself")
    # ESH kernel: last assignment loop scales by 1/sqrt(sum p^2) of the updated momentum
    for b in F.trait_method_impls("math::math::Math", "esh_momentum_update") or F.trait_method_impls("Math", "esh_momentum_update"):
        if not b.hir:
            continue
        site = "%s @%s" % (b.path, b.loc())
        h = b.hir["value"]
        stmts = list(h.get("stmts", [])) if h.get("k") == "Block" else []
        # the kernel may live in a helper that was spliced in (source-level inlining): its statements follow the argument bindings
        tail = h.get("expr") if h.get("k") == "Block" else None
        for _ in range(3):
            tail = K.peel(tail) if isinstance(tail, dict) else None
            if isinstance(tail, dict) and tail.get("k") == "Block":
                stmts += list(tail.get("stmts", []))
                tail = tail.get("expr")
            else:
                break
        # the closed form has no clamps: zeta = exp(-delta) exceeds 1 for a backward step (negative step size), and the update is only its own
        # inverse under a sign change of the step if nothing is cut off
        CLAMPS = ("min", "max", "clamp", "abs", "signum", "copysign", "floor", "ceil", "round", "trunc")
        cl = [x for st_ in stmts for x in hir_walk(st_) if x.get("k") == "MethodCall" and x.get("method") in CLAMPS and
              ("f64" in str(x.get("callee")) or "f64" in str(x.get("recv_ty")))]
        if cl:
            R.bad("C18-R1", b.path + ":closed-form-unclamped", "%s @%s" % (b.path, loc(cl[0]["span"])), "the ESH update applies `%s` to a scalar of the closed form: for a "
                  "backward step (negative step size) the factor exp(-delta) is legitimately above 1" % cl[0]["method"])
        else:
            R.ok("C18-R1", b.path + ":closed-form-unclamped", site, "no min / max / clamp / abs on the scalars of the ESH closed form")
        # find the last `for p in momentum.iter_mut() { *p *= inv }` and the definition of inv
        last_scale = None
        for st in stmts:
            for x in hir_walk(st):
                if x.get("k") == "AssignOp" and x.get("op", "").startswith("*"):
                    rid = K.local_id(x["r"])
                    if rid is not None:
                        last_scale = (st, x, rid)
        okk = False
        if last_scale:
            st, x, rid = last_scale
            defs = {s2["pat"]["id"]: s2 for s2 in stmts if s2.get("k") == "Let" and s2["pat"].get("k") == "Binding"}
            d = defs.get(rid)
            txt = ""
            if d is not None:
                from .sib import canon, Subst, show
                txt = show(canon(d["init"], Subst(keep_local_names=True)))
                # inv = 1.0 / raw_norm ; raw_norm = sqrt(sum(p*p)) computed after the update loop
                norm_ids = [K.local_id(y) for y in hir_walk(d["init"]) if y.get("k") == "Path" and K.local_id(y) in defs]
                for nid in norm_ids:
                    ntxt = show(canon(defs[nid]["init"], Subst(keep_local_names=True)))
                    pos_norm = stmts.index(defs[nid])
                    # an assignment loop over the momentum precedes the norm computation (the update itself)
                    upd_before = any(any(y.get("k") == "Assign" for y in hir_walk(s3)) for s3 in stmts[:pos_norm])
                    if "sqrt" in ntxt and "sum" in ntxt and "/" in txt and upd_before and stmts.index(st) > pos_norm:
                        okk = True
                # fused form: inv = 1.0 / acc.sqrt() with `acc += raw * raw` in the loop that stores `*p = raw`
                if not okk and "sqrt" in txt and "/" in txt:
                    for aid in [K.local_id(y) for y in hir_walk(d["init"]) if y.get("k") == "Path" and K.local_id(y) in defs]:
                        for s3 in stmts[:stmts.index(st)]:
                            accs = [y for y in hir_walk(s3) if y.get("k") == "AssignOp" and y.get("op", "").startswith("+") and K.local_id(y["l"]) == aid]
                            stores = [y for y in hir_walk(s3) if y.get("k") == "Assign"]
                            for a_ in accs:
                                r_ = K.peel(a_["r"])
                                if r_.get("k") == "Binary" and r_.get("op") == "*" and K.local_id(r_["a"]) is not None and K.local_id(r_["a"]) == K.local_id(r_["b"]):
                                    if any(K.local_id(y["r"]) == K.local_id(r_["a"]) for y in stores):
                                        okk = True
        if okk:
            n += 1
            R.ok("C18-R1", b.path + ":renormalise", site, "ESH update ends with p *= 1/sqrt(sum p^2) over the updated momentum")
        else:
            R.bad("C18-R1", b.path + ":renormalise", site, "ESH momentum update does not end by renormalising the updated momentum to unit length")
    R.floor("C18-R1", 4)


def kernel_body(F):
    bs = [b for b in F.bodies.values() if b.kind == "method" and b.fn_name == "mclmc_kernel"]
    return bs[0] if len(bs) == 1 else None


def r2(F, R):
    R.rule("C18-R2", "divergent draw: the state returned together with diverging = true is copy_state(self.state) re-initialised by initialize_trajectory(.., true, ..); "
                     "the non-divergent return is the last integrated state")
    b = kernel_body(F)
    if b is None:
        R.missing("C18-R2", "MclmcChain::mclmc_kernel")
        return
    # Ok((state, info)) constructions
    from .c05 import agg_blocks
    n = 0
    for bi, blk in enumerate(b.blocks):
        for st in blk["stmts"]:
            if st["k"] == "assign" and st["rv"]["k"] == "agg" and st["rv"]["ak"] in ("tuple", "adt") and len(st["rv"]["ops"]) == 2:
                # the (state, info) pair the kernel returns: a tuple, or a private struct with these two members in either order
                tys = [b.local_ty(o["pl"]["l"]) if o["k"] in ("copy", "move") else "" for o in st["rv"]["ops"]]
                if tys[1].startswith("dynamics::state::State") and "MclmcInfo" in tys[0]:
                    st = dict(st, rv=dict(st["rv"], ops=list(reversed(st["rv"]["ops"]))))
                    tys = list(reversed(tys))
                if not (tys[0].startswith("dynamics::state::State") and "MclmcInfo" in tys[1]):
                    continue
                n += 1
                state_v = b.value(st["rv"]["ops"][0])
                info_v = b.value(st["rv"]["ops"][1])
                site = "%s @%s" % (b.path, loc(st["span"]))
                div = None
                for nn in vt_walk(info_v):
                    if nn[0] == "agg" and "MclmcInfo" in str(nn[1]) and nn[3]:
                        dv = nn[2][nn[3].index("diverging")]
                        if dv[0] == "const":
                            div = (dv[2] == "true")
                key = "%s:return#%d" % (b.path, n)
                sl = root_local_chain(b, st["rv"]["ops"][0])
                if div is True:
                    # the state local: defined by copy_state(&self.state) and passed &mut to initialize_trajectory(.., const true, ..) which dominates the return
                    l = sl
                    ds = b.defs().get(l, [])
                    from_copy = any(d[0] == "call" and d[3]["callee"].get("name") == "copy_state" and
                                    any(n_[0] == "field" and n_[2] == "state" for a in d[3]["args"] for n_ in vt_walk(b.value(a))) for d in ds)
                    init_ok = False
                    for bb, t in b.calls():
                        if t["callee"].get("name") == "initialize_trajectory" and b.dominates(bb, bi):
                            if any(K.root_local(b, a) == l for a in t["args"]) and any(a["k"] == "const" and a["const"].get("v") == "true" for a in t["args"]):
                                init_ok = True
                    if from_copy and init_ok:
                        R.ok("C18-R2", key, site, "divergent return: copy of the pre-trajectory state with fresh momentum")
                    else:
                        R.bad("C18-R2", key, site, "divergent draw returns a state that is not copy_state(self.state) + initialize_trajectory(.., true, ..) "
                              "(copy: %s, fresh momentum: %s): the position moves or the momentum is reused" % (from_copy, init_ok))
                elif div is False:
                    # must be the integration state `current` (the local the leapfrog results are assigned to)
                    l = sl
                    assigned_from_leapfrog = False
                    for d in b.defs().get(l, []):
                        if d[0] == "stmt" and d[3]["k"] == "assign":
                            v = b.rvalue_value(d[3]["rv"])
                            if any(n_[0] == "call" and n_[1].endswith("Hamiltonian::leapfrog") for n_ in vt_walk(v)) or "leapfrog" in vt_str(v):
                                assigned_from_leapfrog = True
                    if assigned_from_leapfrog:
                        R.ok("C18-R2", key, site, "non-divergent return: the last integrated state")
                    else:
                        R.bad("C18-R2", key, site, "non-divergent draw returns %s, not the state the integrator reached" % vt_str(state_v)[:80])
                elif _single_return_form(F, b, bi, st, state_v, info_v):
                    n += 1      # this one return stands for both cases
                    R.ok("C18-R2", key, site, "one return for both cases: diverging = <divergence info>.is_some(); the state is restart.unwrap_or(current) where restart is "
                         "Some(copy of the pre-trajectory state with fresh momentum) exactly on the diverging edge and `current` is the last integrated state")
                else:
                    R.bad("C18-R2", key, site, "cannot determine the diverging flag of this return")
    if n < 2:
        R.missing("C18-R2", "two (state, MclmcInfo) returns in mclmc_kernel (found %d)" % n)



def _single_return_form(F, b, bi, st, state_v, info_v):
    """`Ok((restart.unwrap_or(current), MclmcInfo { diverging: info.is_some(), .. }))` with `restart = if diverging { Some(fresh copy) } else { None }`."""
    from . import rel as Rl
    dv = None
    for nn in vt_walk(info_v):
        if nn[0] == "agg" and "MclmcInfo" in str(nn[1]) and nn[3] and "diverging" in nn[3]:
            dv = nn[2][nn[3].index("diverging")]
    if dv is None or not (dv[0] == "call" and str(dv[1]).endswith("is_some") and "divergence_info" in vt_str(dv)):
        return False
    flag = vt_str(dv)
    if not (state_v[0] == "call" and strip_generics(str(state_v[1])).endswith("Option::unwrap_or") and len(state_v[2]) == 2):
        return False
    r, c = state_v[2]
    if r[0] != "local" or c[0] != "local":
        return False
    # `current`: assigned from the leapfrog results
    cl = [l for l in range(len(b.r.get("locals") or [])) if b.local_name(l) == c[1]] if isinstance(c[1], str) else [c[1]]
    from_leap = False
    for l in cl:
        for d in b.defs().get(l, []):
            if d[0] == "stmt" and d[3]["k"] == "assign" and "leapfrog" in vt_str(b.rvalue_value(d[3]["rv"])):
                from_leap = True
    if not from_leap:
        return False
    # `restart`: Some(fresh copy) on the diverging edge, None on the other
    rl = [l for l in range(len(b.r.get("locals") or [])) if b.local_name(l) == r[1]] if isinstance(r[1], str) else [r[1]]
    some_ok, none_ok = False, False
    for l in rl:
        for bj, blk in enumerate(b.blocks):
            for s2 in blk["stmts"]:
                if s2["k"] != "assign" or s2["pl"]["l"] != l or s2["pl"]["p"] or s2["rv"]["k"] != "agg":
                    continue
                rels = [(o, vt_str(x)) for (o, x, y, _sw) in Rl.edge_relations(b, bj) if y is None]
                if s2["rv"].get("variant") == "None" and ("False", flag) in rels:
                    none_ok = True
                if s2["rv"].get("variant") == "Some" and ("True", flag) in rels:
                    nl = root_local_chain(b, s2["rv"]["ops"][0])
                    ds = b.defs().get(nl, [])
                    from_copy = any(d[0] == "call" and d[3]["callee"].get("name") == "copy_state" and
                                    any(n_[0] == "field" and n_[2] == "state" for a in d[3]["args"] for n_ in vt_walk(b.value(a))) for d in ds)
                    init_ok = any(t["callee"].get("name") == "initialize_trajectory" and b.dominates(bb, bj) and any(K.root_local(b, a) == nl for a in t["args"])
                                  and any(a["k"] == "const" and a["const"].get("v") == "true" for a in t["args"]) for bb, t in b.calls())
                    some_ok = from_copy and init_ok
    return some_ok and none_ok

def root_local_chain(b, op):
    """Follow moves back to a named local."""
    l = op["pl"]["l"]
    for _ in range(6):
        if b.local_name(l):
            return l
        ds = b.defs().get(l, [])
        if len(ds) == 1 and ds[0][0] == "stmt" and ds[0][3]["k"] == "assign" and ds[0][3]["rv"]["k"] == "use" and ds[0][3]["rv"]["op"]["k"] in ("copy", "move"):
            l = ds[0][3]["rv"]["op"]["pl"]["l"]
        else:
            return l
    return l


def r3(F, R):
    R.rule("C18-R3", "the kinetic-energy kind is switched only inside MclmcChain::draw, under trajectory_kind == EuclideanEarlyThenMicrocanonical, draw_count == "
                     "switch_draw and current kind != Microcanonical; the branch's value is the resample_velocity argument of the kernel")
    setters = [b for b in F.bodies.values() if b.fn_name == "set_kinetic_energy_kind"]
    cg = F.callgraph()
    callers = set()
    for s in setters:
        callers |= set(cg.callers_of(s.path))
    # direct field writers too
    ham = next((p for p in F.adts if path_ends(p, "TransformedHamiltonian")), None)
    for (wb, bb, st, v, how) in K.field_writers(F, ham, "kinetic_energy_kind"):
        if how == "assign" and wb.fn_name != "set_kinetic_energy_kind":
            callers.add(wb.path)
    draws = [b for b in F.trait_method_impls("chain::Chain", "draw") if path_ends(b.parent.get("self_adt") or "", "MclmcChain")]
    if len(draws) != 1:
        R.missing("C18-R3", "impl Chain::draw for MclmcChain")
        return
    d = draws[0]
    other = sorted(c for c in callers if c != d.path)
    if other:
        for c in other:
            R.bad("C18-R3", "setter-caller:%s" % c, c, "kinetic-energy kind is changed outside MclmcChain::draw")
    sc = [(bb, t) for bb, t in d.calls() if t["callee"].get("name") == "set_kinetic_energy_kind"]
    if len(sc) != 1:
        R.bad("C18-R3", d.path + ":switch", d.path, "expected one set_kinetic_energy_kind call in draw, found %d" % len(sc))
        return
    bb, t = sc[0]
    site = "%s @%s" % (d.path, loc(t["span"]))
    conds = []
    for (a, s) in d.control_deps_trans(bb):
        tt = d.blocks[a]["term"]
        if tt["k"] == "switch":
            v = d.value(tt["discr"])
            val = None
            for arm in tt["arms"]:
                if arm["target"] == s:
                    val = arm["val"] != 0
            if val is None and tt["otherwise"] == s:
                val = not any(arm["val"] != 0 for arm in tt["arms"])
            conds.append((val, vt_str(v)))
    # the same conditions reached through a boolean helper result (`if self.switch_is_due()`, inlined): relations that hold on the edge
    from . import rel as Rl_
    for (o, l, r, _s) in Rl_.edge_relations(d, bb):
        if r is not None and o in ("Eq", "Ne", "Ge", "Lt", "Le", "Gt"):
            conds.append((True, "%s(%s Xx %s)" % (o.lower(), vt_str(l), vt_str(r))))
            conds.append((True, "%s %s %s" % (vt_str(l), {"Eq": " Eq ", "Ge": " Ge ", "Lt": " Lt ", "Ne": " Ne ", "Le": " Le ", "Gt": " Gt "}[o], vt_str(r))))
        elif r is None:
            conds.append((o == "True", vt_str(l)))
    txt = " ; ".join("%s:%s" % c for c in conds)
    c1 = any(v and "trajectory_kind" in s and "EuclideanEarlyThenMicrocanonical" in s and "eq" in s for v, s in conds)
    # `==` or `>=`: together with the latch conjunct both make the switch happen once, at the first draw that reaches switch_draw
    c2 = any("draw_count" in s and "switch_draw" in s and ((v and (" Eq " in s or " Ge " in s)) or ((not v) and " Lt " in s)) for v, s in conds)
    c3 = any(("kinetic_energy_kind" in s and MICRO in s) and (("ne" in s.split("(")[0] and v) or ("eq" in s.split("(")[0] and not v)) for v, s in conds)
    if c1 and c2 and c3:
        R.ok("C18-R3", d.path + ":switch-guard", site, "switch under kind==EuclideanEarlyThenMicrocanonical && draw_count==switch_draw && current != Microcanonical")
    else:
        R.bad("C18-R3", d.path + ":switch-guard", site, "kind switch guard incomplete (trajectory kind: %s, at switch_draw: %s, not yet microcanonical: %s): %s" % (c1, c2, c3, txt[:300]))
    const_arg = t["args"][1] if len(t["args"]) > 1 else None
    if const_arg is not None and MICRO in vt_str(d.value(const_arg)):
        R.ok("C18-R3", d.path + ":switch-target", site, "switches to Microcanonical")
    else:
        R.bad("C18-R3", d.path + ":switch-target", site, "kind is switched to %s" % (vt_str(d.value(const_arg)) if const_arg else "?"))
    # resample flag: true exactly in that branch
    kc = [(kb, kt) for kb, kt in d.calls() if kt["callee"].get("name") == "mclmc_kernel"]
    if len(kc) == 1:
        arg = kc[0][1]["args"][1]
        l = root_local_chain(d, arg) if arg["k"] in ("copy", "move") else None
        ds = d.defs().get(l, []) if l is not None else []
        vals = {}
        for dd in ds:
            if dd[0] == "stmt" and dd[3]["k"] == "assign" and dd[3]["rv"]["k"] == "use" and dd[3]["rv"]["op"]["k"] == "const":
                vals[dd[1]] = dd[3]["rv"]["op"]["const"].get("v")
        true_blocks = [x for x, v in vals.items() if v == "true"]
        if true_blocks and all(d.dominates(bb, x) or x == bb or bb in d.reach_from(0) and x in d.reach_from(bb) for x in true_blocks) and \
           all({(a, s) for (a, s) in d.control_deps_trans(x)} >= {(a, s) for (a, s) in d.control_deps_trans(bb)} for x in true_blocks) and \
           any(v == "false" for v in vals.values()):
            R.ok("C18-R3", d.path + ":resample", "%s @%s" % (d.path, loc(kc[0][1]["span"])), "resample_velocity = true exactly in the switching branch")
        else:
            R.bad("C18-R3", d.path + ":resample", "%s @%s" % (d.path, loc(kc[0][1]["span"])), "resample_velocity does not follow the switching branch (values %s)" % vals)
    else:
        R.bad("C18-R3", d.path + ":resample", d.path, "kernel call not found")
    R.floor("C18-R3", 3)


def r4(F, R):
    R.rule("C18-R4", "step budget and retry bookkeeping: num_base_steps = max(1, round(subsample_frequency * L / step_size)) depends on exactly these three quantities; "
                     "factor is written only as 1.0, `*= 0.5` in the block that pushes the stack and `*= 2.0` on the Some edge of the pop; the pop sits in an inner "
                     "unwinding loop whose only exits are `remaining != 0` and `stack empty`; `remaining -= 1` once per successful step")
    b = kernel_body(F)
    if b is None:
        R.missing("C18-R4", "MclmcChain::mclmc_kernel")
        return
    site = "%s @%s" % (b.path, b.loc())
    # ---- step budget: the value passed through round() and max(_, 1.0), in the kernel (helpers inlined) or one of its closures
    budget = None
    for c in [b] + K.all_closures_of(F, b.path):
        for bb, t in c.calls():
            cal = t["callee"]
            if cal.get("name") == "max" and cal.get("impl_self") == "f64" and len(t["args"]) == 2:
                recv, other = c.value(t["args"][0]), c.value(t["args"][1])
                rounds = [x for x in vt_walk(recv) if x[0] == "call" and x[3].get("name") == "round" and x[3].get("impl_self") == "f64"]
                if rounds:
                    budget = (c, t, rounds[0], other)
    if budget is None:
        clamps = [t for c in [b] + K.all_closures_of(F, b.path) for bb, t in c.calls()
                  if t["callee"].get("name") == "clamp" and t["callee"].get("impl_self") == "f64" and
                  any(x[0] == "call" and x[3].get("name") == "round" for x in vt_walk(c.value(t["args"][0])))]
        if clamps:
            R.bad("C18-R4", b.path + ":budget", "%s @%s" % (b.path, loc(clamps[0]["span"])), "the number of base steps is round(..).clamp(lo, hi): f64::clamp propagates NaN where "
                  "`max(1.0)` yields 1, so `subsample_frequency = 0` with an infinite decoherence length (0 * inf) makes every draw fail instead of taking one step")
        else:
            R.bad("C18-R4", b.path + ":budget", site, "computation of the number of base steps (round + max) not found")
    else:
        c, t, rnd, other = budget
        arg = rnd[2][0]
        deps = set()

        def leaves(v):
            if v[0] == "bin":
                leaves(v[2])
                leaves(v[3])
            elif v[0] in ("deref", "ref", "cast", "un", "downcast"):
                leaves(v[1] if v[0] != "un" else v[2])
            elif v[0] == "field":
                # payload of an Option / tuple: look at what it is a field of; a named struct field is a leaf
                if str(v[2]).isdigit():
                    leaves(v[1])
                else:
                    deps.add(str(v[2]))
            elif v[0] == "upvar":
                deps.add(str(v[1]).split(".")[-1])
            elif v[0] == "arg":
                deps.add(str(v[2] or v[1]))
            elif v[0] == "call":
                deps.add(str(v[3].get("name") or v[1]))
            elif v[0] == "local":
                deps.add(str(v[2] or "_%d" % v[1]))
            elif v[0] == "const":
                pass
            else:
                deps.add(vt_str(v)[:40])
        leaves(arg)
        txt = vt_str(arg)
        ops = [x[1] for x in vt_walk(arg) if x[0] == "bin"]
        max_one = other[0] == "const" and other[2] is not None and float(other[2]) == 1.0
        bsite = "%s @%s" % (c.path, loc(t["span"]))
        if max_one and "Div" in ops and "Mul" in ops and "subsample_frequency" in deps and len(deps) == 3:
            R.ok("C18-R4", b.path + ":budget", bsite, "num_steps = max(1, round(%s)) over %s" % (txt[:90], sorted(deps)))
        else:
            R.bad("C18-R4", b.path + ":budget", bsite, "step budget round(%s) floored at %s depends on %s (expected round(subsample_frequency * L / step) floored at 1)" % (
                txt[:120], vt_str(other), sorted(deps)))
    # ---- retry bookkeeping
    pushes = [(bb, t) for bb, t in b.calls() if strip_generics(t["callee"].get("path", "")).endswith("Vec::push")]
    pops = [(bb, t) for bb, t in b.calls() if strip_generics(t["callee"].get("path", "")).endswith("Vec::pop")]
    if len(pushes) != 1 or len(pops) != 1:
        R.bad("C18-R4", b.path + ":stack", site, "expected one push and one pop of the remaining-steps stack, found %d / %d" % (len(pushes), len(pops)))
        return
    pbb, pt = pushes[0]
    qbb, qt = pops[0]
    # the stack of pending levels belongs to one draw: a fresh local, or a field that is emptied before the step loop on every path
    from . import eff as E_
    spl = E_.place_of(F, b, b.value(pt["args"][0]))
    skey = b.path + ":stack-per-draw"
    ssite = "%s @%s" % (b.path, loc(pt["span"]))
    sv = b.value(pt["args"][0])
    while sv[0] in ("ref", "deref"):
        sv = sv[1]
    if sv[0] == "call" and strip_generics(sv[1]).endswith(("Vec::with_capacity", "Vec::new")):
        R.ok("C18-R4", skey, ssite, "the stack is a local of the kernel, created empty for every draw")
    elif spl is None:
        R.bad("C18-R4", skey, ssite, "cannot tell where the stack of pending step-size levels lives")
    elif spl[0][0] == "local" and not spl[1]:
        ds = b.defs().get(spl[0][1], [])
        fresh = [d for d in ds if d[0] == "call" and strip_generics(d[3]["callee"].get("path", "")).endswith(("Vec::with_capacity", "Vec::new"))]
        if fresh and len(fresh) == len(ds):
            R.ok("C18-R4", skey, ssite, "the stack is a local of the kernel, created empty for every draw")
        else:
            R.bad("C18-R4", skey, ssite, "the stack local is not created empty in the kernel")
    else:
        clears = [(bb, t) for bb, t in b.calls() if strip_generics(t["callee"].get("path", "")).endswith("Vec::clear") and E_.place_of(F, b, b.value(t["args"][0])) == spl]
        if clears and any(b.dominates(cb_, pbb) and b.dominates(cb_, qbb) and not any(cb_ in body_ for body_ in b.natural_loops().values()) for cb_, _t in clears):
            R.ok("C18-R4", skey, ssite, "the stack lives in %s and is cleared before the step loop of every draw" % (spl,))
        else:
            R.bad("C18-R4", skey, ssite, "the stack of pending levels lives in %s and is not emptied at the start of a draw: a draw that gave up after the maximal number "
                  "of halvings leaves its levels to the next draw (steps at multiples of the step size, or no retry at all)" % ".".join(spl[1]))
    fl = [i for i, l in enumerate(b.locals) if l.get("name") == "factor"]
    rl = [i for i, l in enumerate(b.locals) if l.get("name") == "remaining"]
    # factor writers by value shape (no reliance on the name: the f64 local multiplied by 0.5 / 2.0)
    fw = []
    for bi, blk in enumerate(b.blocks):
        if blk["cleanup"]:
            continue
        for st in blk["stmts"]:
            if st["k"] == "assign" and not st["pl"]["p"] and st["rv"]["k"] == "bin" and st["rv"]["op"] in ("Mul", "Div"):
                a, c = st["rv"]["a"], st["rv"]["b"]
                if a["k"] in ("copy", "move") and a["pl"]["l"] == st["pl"]["l"] and c["k"] == "const":
                    fw.append((bi, st, st["pl"]["l"], st["rv"]["op"], c["const"].get("v")))
    halves = [w for w in fw if (w[3] == "Mul" and w[4] in ("0.5",)) or (w[3] == "Div" and w[4] in ("2.0", "2"))]
    doubles = [w for w in fw if (w[3] == "Mul" and w[4] in ("2.0", "2")) or (w[3] == "Div" and w[4] == "0.5")]
    same_region = lambda x, y: {(a, s) for (a, s) in b.control_deps_trans(x)} == {(a, s) for (a, s) in b.control_deps_trans(y)}
    if len(halves) == 1 and same_region(halves[0][0], pbb):
        R.ok("C18-R4", b.path + ":halve-with-push", "%s @%s" % (b.path, loc(halves[0][1]["span"])), "factor *= 0.5 exactly where the stack is pushed")
    else:
        R.bad("C18-R4", b.path + ":halve-with-push", site, "%d halvings of the factor, none / not in the block that pushes the stack" % len(halves))
    # the retry is refused once the stack holds `max_halvings` levels: the push happens only where `len < max_halvings` was established, so the
    # depth never exceeds the limit - and with a limit of 0 (dynamic_step_size off) a faulty step is never retried
    lim = False
    seen_rel = []
    for (o, l, r, _s) in Rl.edge_relations(b, pbb):
        if r is None:
            continue
        for (op, x, y) in ((o, l, r), (Rl.FLIP.get(o), r, l)):
            sx, sy = vt_str(x), vt_str(y)
            if "len" in sx and ("max_halvings" in sy or "halving" in sy):
                seen_rel.append((op, sx[:50], sy[:50]))
                if op == "Lt":
                    lim = True
    if lim:
        R.ok("C18-R4", b.path + ":retry-limit", "%s @%s" % (b.path, loc(b.blocks[pbb]["term"].get("span") or b.span)), "a level is pushed only while len < max_halvings")
    else:
        R.bad("C18-R4", b.path + ":retry-limit", site, "the push of a retry level is not guarded by `stack.len() < max_halvings` (relations at the push: %s): one level too many "
              "is allowed, and with max_halvings = 0 (dynamic_step_size off) a faulty step is retried instead of ending the draw as a divergence" % (seen_rel or "none"))
    # Some edge of pop
    some_t = None
    for bi, blk in enumerate(b.blocks):
        tt = blk["term"]
        if tt["k"] == "switch" and "enum_place" in tt and tt["enum_place"]["l"] == qt["dest"]["l"]:
            some_t = next((a["target"] for a in tt["arms"] if a.get("name") == "Some"), None)
            none_t = tt["otherwise"] if some_t is not None else None
            sw_bb = bi
    if some_t is None:
        R.bad("C18-R4", b.path + ":double-with-pop", site, "no match on the result of pop")
        return
    if len(doubles) == 1 and doubles[0][2] == (halves[0][2] if halves else doubles[0][2]) and b.dominates(some_t, doubles[0][0]) and \
       doubles[0][0] in b.reach_from(some_t, avoid=[qbb]):
        R.ok("C18-R4", b.path + ":double-with-pop", "%s @%s" % (b.path, loc(doubles[0][1]["span"])), "factor *= 2.0 exactly on the Some edge of the pop")
    else:
        R.bad("C18-R4", b.path + ":double-with-pop", site, "%d doublings of the factor, none / not on the Some edge of the pop" % len(doubles))
    # unwinding loop
    loops = b.natural_loops()
    lf = b.calls_to(lambda c: c["path"].endswith("Hamiltonian::leapfrog"))
    outer = [h for h, body in loops.items() if lf and lf[0][0] in body]
    inner = [(h, body) for h, body in loops.items() if qbb in body and h not in outer and (not lf or lf[0][0] not in body)]
    if not inner:
        R.bad("C18-R4", b.path + ":unwind-loop", "%s @%s" % (b.path, loc(qt["span"])), "the pop is not inside an unwinding loop: after popping a finished level (remaining = prev - 1 = 0) "
              "the draw ends with levels still on the stack, i.e. before it has covered its step budget")
    else:
        h, body = min(inner, key=lambda x: len(x[1]))
        exits_ok = True
        why = []
        for x in body:
            for y in b.succ_map()[x]:
                if y in body:
                    continue
                tt = b.blocks[x]["term"]
                if tt["k"] == "switch" and "enum_place" in tt and tt["enum_place"]["l"] == qt["dest"]["l"] and y != some_t:
                    continue     # stack empty
                if tt["k"] == "switch" and tt.get("discr_ty") == "bool":
                    v = b.value(tt["discr"])
                    if v[0] == "bin" and v[1] in ("Eq", "Ne") and (v[3][0] == "const" and v[3][2] == "0" or v[2][0] == "const" and v[2][2] == "0"):
                        # leaving on `remaining == 0` false
                        taken_true = any(a["target"] == y and a["val"] != 0 for a in tt["arms"]) or (tt["otherwise"] == y and all(a["val"] == 0 for a in tt["arms"]))
                        if (v[1] == "Eq" and not taken_true) or (v[1] == "Ne" and taken_true):
                            continue
                exits_ok = False
                why.append("bb%d->bb%d" % (x, y))
        if exits_ok:
            R.ok("C18-R4", b.path + ":unwind-loop", "%s @%s" % (b.path, loc(qt["span"])), "pop inside an unwinding loop left only with remaining != 0 or an empty stack")
        else:
            R.bad("C18-R4", b.path + ":unwind-loop", "%s @%s" % (b.path, loc(qt["span"])), "the unwinding loop has other exits (%s)" % why)
    # remaining decrement once per successful step: SubWithOverflow(remaining, 1) in the Ok arm, exactly one on paths from the leapfrog Ok edge
    decs = []
    for bi, blk in enumerate(b.blocks):
        for st in blk["stmts"]:
            if st["k"] == "assign" and st["rv"]["k"] == "bin" and st["rv"]["op"] == "SubWithOverflow":
                a, c = st["rv"]["a"], st["rv"]["b"]
                if a["k"] in ("copy", "move") and b.local_name(a["pl"]["l"]) and c["k"] == "const" and c["const"].get("v") == "1" and "u64" in b.local_ty(a["pl"]["l"]):
                    # is this `remaining -= 1` (not prev - 1)? the result is stored back into the same local
                    decs.append((bi, a["pl"]["l"], st))
    self_decs = []
    for (bi, l, st) in decs:
        tmp = st["pl"]["l"]
        for blk2 in b.blocks:
            for st2 in blk2["stmts"]:
                if st2["k"] == "assign" and not st2["pl"]["p"] and st2["pl"]["l"] == l and st2["rv"]["k"] == "use" and st2["rv"]["op"]["k"] in ("copy", "move") and \
                   st2["rv"]["op"]["pl"]["l"] == tmp:
                    self_decs.append((bi, l))
    if len(self_decs) == 1:
        R.ok("C18-R4", b.path + ":decrement", site, "one `remaining -= 1` per successful step")
    else:
        R.bad("C18-R4", b.path + ":decrement", site, "%d self-decrements of a step counter in the kernel (expected exactly one)" % len(self_decs))
    R.floor("C18-R4", 5)


def r5(F, R):
    """The draw at which the trajectory kind switches is the configured fraction of the warm-up."""
    R.rule("C18-R5", "in every Settings::new_chain that builds an MclmcChain, the constructor argument stored in MclmcChain.switch_draw is computed from the "
                     "settings fields trajectory_switch_fraction and num_tune and from no other setting (helpers inlined): the Euclidean -> microcanonical switch "
                     "happens at the configured draw")
    ctor = F.inherent_methods("MclmcChain", "new")
    if not ctor:
        R.missing("C18-R5", "MclmcChain::new")
        return
    cb = ctor[0]
    idx = None
    for bi, blk in enumerate(cb.blocks):
        for st in blk["stmts"]:
            if st["k"] == "assign" and st["rv"]["k"] == "agg" and st["rv"].get("ak") == "adt" and "switch_draw" in (st["rv"].get("fields") or []):
                v = cb.value(st["rv"]["ops"][st["rv"]["fields"].index("switch_draw")])
                if v[0] == "arg":
                    idx = v[1]
    if idx is None:
        R.missing("C18-R5", "constructor parameter stored in MclmcChain.switch_draw")
        return
    n = 0
    for b in F.trait_method_impls("sampler::Settings", "new_chain"):
        for bb, t in b.calls_to(lambda c: path_ends(c["path"], "MclmcChain::new")):
            if idx - 1 >= len(t["args"]):
                continue
            n += 1
            sl = b.slice([t["args"][idx - 1]], control=True, start_bb=None)
            fields = {f for f in sl["fields"] if not str(f).isdigit()}
            key = "%s:switch_draw" % b.path
            site = "%s @%s" % (b.path, loc(t["span"]))
            if {"trajectory_switch_fraction", "num_tune"} <= fields and not (fields - {"trajectory_switch_fraction", "num_tune"}):
                R.ok("C18-R5", key, site, "switch_draw = f(trajectory_switch_fraction, num_tune)")
            else:
                R.bad("C18-R5", key, site, "switch_draw is computed from %s, expected trajectory_switch_fraction and num_tune only" % sorted(fields))
    R.floor("C18-R5", 3)




PLAIN_TYPES = ("u64", "f64", "bool", "usize", "i64", "u32")
KERNEL_COUNTERS = {"draw_count": "the chain's draw counter, advanced once per draw (its writers are decided by C06-R6 / C03-R3)"}


def r9(F, R):
    R.rule("C18-R9", "what mclmc_kernel takes from the chain is either configuration or read where it lives: a plain-data field of MclmcChain (number, flag, Option of one) that "
                     "the kernel reads is never stored through a reference after construction (a builder that fills an owned chain value is construction) - the step size and the decoherence length, which adaptation and set_position change, are read "
                     "from the Hamiltonian inside the call. A per-draw quantity cached in the chain (a step count computed after adapt) is stale on the histories its writer "
                     "does not see (a second set_position), and the draw then takes a number of steps that does not belong to the step size in force. Listed counters: %s"
           % ", ".join(sorted(KERNEL_COUNTERS)))
    b = kernel_body(F)
    adts = [k for k in F.adts if k.endswith("mclmc::MclmcChain")]
    if b is None or len(adts) != 1:
        R.missing("C18-R9", "MclmcChain / mclmc_kernel")
        return
    plain = {f["name"] for f in F.adts[adts[0]]["variants"][0]["fields"]
             if f["ty"] in PLAIN_TYPES or any(f["ty"] == "std::option::Option<%s>" % t for t in PLAIN_TYPES)}

    def chain_fields(pl):
        return [e["n"] for e in pl["p"] if isinstance(e, dict) and "f" in e and path_ends(e.get("of") or "", "mclmc::MclmcChain")]

    read = set()
    for c in [b] + K.all_closures_of(F, b.path):
        sl = c.slice([], control=False)
        for blk in c.blocks:
            if blk["cleanup"]:
                continue
            for st in blk["stmts"]:
                if st["k"] != "assign":
                    continue
                rv = st["rv"]
                ops = [rv[k_] for k_ in ("op", "l", "r") if isinstance(rv.get(k_), dict)] + [o for o in (rv.get("ops") or []) if isinstance(o, dict)]
                for o in ops:
                    if o["k"] in ("copy", "move"):
                        read |= set(chain_fields(o["pl"])[:1])
                if rv["k"] in ("ref", "rawptr") and isinstance(rv.get("pl"), dict):
                    read |= set(chain_fields(rv["pl"])[:1])
            t = blk["term"]
            for o in (t.get("args") or []) + ([t["discr"]] if t.get("k") == "switch" and isinstance(t.get("discr"), dict) else []):
                if o["k"] in ("copy", "move"):
                    read |= set(chain_fields(o["pl"])[:1])
        for u in sl.get("upvars", ()):
            read.add(u)
    watched = (read & plain) - set(KERNEL_COUNTERS)
    if len(watched) < 3:
        R.missing("C18-R9", "plain configuration fields of MclmcChain read by mclmc_kernel (found %s, floor 3)" % sorted(watched))
    writers = {}
    for x in F.bodies.values():
        if not x.mir or "::tests::" in x.path:
            continue
        for blk in x.blocks:
            if blk["cleanup"]:
                continue
            for st in blk["stmts"]:
                if st["k"] == "assign":
                    fs = chain_fields(st["pl"])
                    # a store into an owned chain value (a builder `fn with_x(mut self, ..) -> Self`, the settings -> chain conversion filling a fresh
                    # chain) is construction; only a store through a reference (`&mut self`) changes a chain that is already sampling
                    if fs and fs[0] in watched and "*" in st["pl"]["p"]:
                        writers.setdefault(fs[0], []).append((x, st))
    for f in sorted(watched):
        key = "%s:%s" % (adts[0], f)
        if f in writers:
            x, st = writers[f][0]
            R.bad("C18-R9", key, "%s @%s" % (x.path, loc(st["span"])), "MclmcChain.%s is read by mclmc_kernel and stored in %s: a value kept in the chain between draws is stale "
                  "whenever the quantities it was computed from change on a path that does not pass this store (set_position re-initialises the step size)"
                  % (f, ", ".join(sorted({w[0].path.split("::{closure")[0].split("::")[-1] for w in writers[f]}))))
        else:
            R.ok("C18-R9", key, "%s @%s" % (b.path, b.loc()), "read by the kernel, never stored after construction")


def run(F, R, config=None):
    r1(F, R)
    r2(F, R)
    r3(F, R)
    r4(F, R)
    r5(F, R)
    r9(F, R)
    # a leapfrog result with a NaN energy error (NaN momentum after the ESH update) must not become the next state (C05-R2 analysis of the energy gate)
    from . import c05
    K.borrow_rule(R, lambda sub: c05.r2(F, sub), "C18-R6", "the leapfrog hands out LeapfrogResult::Ok only under an energy gate that a NaN or infinite energy error cannot pass "
                  "(C05-R2 analysis): a state whose momentum left the unit sphere through a NaN density is rejected / retried, never accepted", only_rules={"C05-R2"})
    # "round(subsample_frequency * L / eps) steps", "dynamic_step_size", "trajectory kind": stated in terms of the MCLMC settings, so the chain must get them as set
    # "a faulted step is retried with a smaller step": the factor must scale the whole step - both momentum half-steps and the position step
    from . import c02
    K.borrow_rule(R, lambda sub: c02.r1_r2(F, sub), "C18-R8", "the retry's step_size_factor scales every sub-step alike: the velocity half-steps before and after the "
                  "density evaluation use the same scalars and the position step uses exactly twice a half-step's (C02-R2 analysis); a position step that ignores "
                  "the factor moves a full step while momentum and time account for half of it", only_rules={"C02-R2"})
    from . import convert
    convert.faithful_conversion(F, R, "C18-R7", focus=lambda path, key: "MclmcSettings" in path, focus_text=" (the MCLMC presets)")
    R.assume("the ESH closed form and its kinetic-energy change are numerical identities and not decided")
    R.assume("Math::array_normalize of a user-supplied Math divides by the Euclidean norm")


CONFIGS = ["all", "nodefault"]
SELFTEST = True

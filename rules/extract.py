"""Run the nutsfacts rustc driver over a source tree (normally /repo) and cache the fact files.

Facts are keyed by a hash of the tree's sources, so a changed tree is always re-extracted
and an unchanged tree is never re-extracted (the cache entry *is* the extraction of this tree).
"""
import fcntl
import hashlib
import json
import os
import shutil
import subprocess
import sys
import time

VERIF = os.path.dirname(os.path.dirname(os.path.abspath(__file__)))
CACHE = os.environ.get("NUTS_VERIF_CACHE", "/var/tmp/nuts-verif")
DRIVER_DIR = os.path.join(VERIF, "extractor")
DRIVER = os.path.join(DRIVER_DIR, "target", "release", "nutsfacts")

CONFIGS = {
    "all": ["--all-features"],
    "default": [],
    "nodefault": ["--no-default-features"],
    "zarr": ["--features", "zarr"],
    "arrow": ["--features", "arrow"],
    "ndarray": ["--features", "ndarray"],
}


def sysroot():
    return subprocess.check_output(["rustc", "+nightly", "--print", "sysroot"], text=True).strip()


def driver_sources_hash():
    h = hashlib.sha256()
    for root, _dirs, files in os.walk(DRIVER_DIR):
        if "/target" in root:
            continue
        for f in sorted(files):
            if f.endswith((".rs", ".toml")):
                p = os.path.join(root, f)
                h.update(p.encode())
                h.update(open(p, "rb").read())
    return h.hexdigest()[:16]


def ensure_driver():
    """Build the driver if missing or older than its sources."""
    stamp = os.path.join(DRIVER_DIR, "target", "release", ".srchash")
    want = driver_sources_hash()
    if os.path.exists(DRIVER) and os.path.exists(stamp) and open(stamp).read() == want:
        return
    os.makedirs(CACHE, exist_ok=True)
    with open(os.path.join(CACHE, "driver.lock"), "w") as lk:
        fcntl.flock(lk, fcntl.LOCK_EX)
        if os.path.exists(DRIVER) and os.path.exists(stamp) and open(stamp).read() == want:
            return
        env = dict(os.environ, CARGO_NET_OFFLINE="true")
        r = subprocess.run(
            ["cargo", "+nightly", "build", "--release", "--offline"],
            cwd=DRIVER_DIR, env=env, stdout=subprocess.PIPE, stderr=subprocess.STDOUT, text=True,
        )
        if r.returncode != 0:
            sys.stderr.write(r.stdout)
            raise SystemExit("extractor driver does not build")
        open(stamp, "w").write(want)


def tree_hash(repo):
    """sha256 over Cargo manifests, lock file and every .rs file of the workspace (no target/)."""
    h = hashlib.sha256()
    files = []
    for root, dirs, fs in os.walk(repo):
        dirs[:] = [d for d in dirs if d not in ("target", ".git")]
        for f in fs:
            if f.endswith(".rs") or f in ("Cargo.toml", "Cargo.lock"):
                files.append(os.path.join(root, f))
    for p in sorted(files):
        h.update(os.path.relpath(p, repo).encode())
        h.update(b"\0")
        h.update(open(p, "rb").read())
        h.update(b"\0")
    return h.hexdigest()[:24]


class BuildFailed(Exception):
    def __init__(self, config, log):
        super().__init__("tree does not build in configuration %s" % config)
        self.config = config
        self.log = log


def extract(repo="/repo", config="all", target_tag=None, keep_target=True):
    """Return (facts_dir, meta). Raises BuildFailed when cargo check fails."""
    ensure_driver()
    repo = os.path.abspath(repo)
    th = tree_hash(repo)
    dh = driver_sources_hash()
    os.makedirs(os.path.join(CACHE, "facts"), exist_ok=True)
    out = os.path.join(CACHE, "facts", "%s-%s-%s" % (config, th, dh))
    meta_p = os.path.join(out, "meta.json")
    if os.path.exists(meta_p):
        meta = _complete_entry(out, meta_p)
        if meta is not None:
            os.utime(out, None)
            meta["repo"] = repo          # the cache entry may come from another checkout with identical sources
            return out, meta
        shutil.rmtree(out, ignore_errors=True)      # a damaged entry (interrupted run): extract again
    tag = target_tag or os.environ.get("NUTS_VERIF_TARGET_TAG") or config
    target = os.path.join(CACHE, "target-%s" % tag)
    os.makedirs(target, exist_ok=True)
    with open(os.path.join(CACHE, "target-%s.lock" % tag), "w") as lk:
        fcntl.flock(lk, fcntl.LOCK_EX)
        if os.path.exists(meta_p):
            meta = json.load(open(meta_p))
            meta["repo"] = repo
            return out, meta
        # cargo must not replay a stale run of the wrapper: drop workspace fingerprints
        fp = os.path.join(target, "debug", ".fingerprint")
        if os.path.isdir(fp):
            for d in os.listdir(fp):
                if d.startswith(("nuts-rs-", "nuts-storable-", "nuts-derive-")):
                    shutil.rmtree(os.path.join(fp, d), ignore_errors=True)
        import threading
        # unique per thread: the fixture runner extracts several scratch trees from threads of one process, and two fixtures may carry the same patch
        tmp_out = out + ".tmp.%d.%d" % (os.getpid(), threading.get_ident())
        shutil.rmtree(tmp_out, ignore_errors=True)
        os.makedirs(tmp_out)
        env = dict(os.environ)
        env.update(
            LD_LIBRARY_PATH=os.path.join(sysroot(), "lib"),
            RUSTFLAGS="-Zmir-opt-level=0 -Awarnings",
            RUSTC_WORKSPACE_WRAPPER=DRIVER,
            NUTSFACTS_OUT=tmp_out,
            CARGO_TARGET_DIR=target,
            CARGO_NET_OFFLINE="true",
        )
        env.pop("RUSTC_WRAPPER", None)
        t0 = time.time()
        cmd = ["cargo", "+nightly", "check", "--offline", "--lib", "-q"] + CONFIGS[config]
        r = subprocess.run(cmd, cwd=repo, env=env, stdout=subprocess.PIPE, stderr=subprocess.STDOUT, text=True)
        wall = time.time() - t0
        if r.returncode != 0:
            shutil.rmtree(tmp_out, ignore_errors=True)
            raise BuildFailed(config, r.stdout)
        need = os.path.join(tmp_out, "nuts_rs.facts.jsonl")
        if not os.path.exists(need):
            shutil.rmtree(tmp_out, ignore_errors=True)
            raise SystemExit("extractor produced no fact file for nuts_rs (stale cargo cache?)")
        meta = {
            "config": config,
            "features": CONFIGS[config],
            "tree_hash": th,
            "driver_hash": dh,
            "repo": repo,
            "extract_wall_s": round(wall, 2),
            "files": sorted(os.listdir(tmp_out)),
        }
        json.dump(meta, open(os.path.join(tmp_out, "meta.json"), "w"))
        if os.path.exists(meta_p):
            # another thread / process finished the same tree meanwhile (different target slot, hence a different lock): keep its entry
            shutil.rmtree(tmp_out, ignore_errors=True)
            meta = json.load(open(meta_p))
            meta["repo"] = repo
            return out, meta
        if os.path.exists(out):
            shutil.rmtree(out, ignore_errors=True)
        try:
            os.rename(tmp_out, out)
        except OSError:
            if os.path.exists(meta_p):
                shutil.rmtree(tmp_out, ignore_errors=True)
            else:
                raise
        _gc()
        if not keep_target:
            shutil.rmtree(target, ignore_errors=True)
        return out, meta


def _complete_entry(out, meta_p):
    """The meta data of a cache entry, if every fact file it lists is there."""
    try:
        meta = json.load(open(meta_p))
    except (OSError, ValueError):
        return None
    for f in meta.get("files") or []:
        if not os.path.exists(os.path.join(out, f)):
            return None
    if not os.path.exists(os.path.join(out, "nuts_rs.facts.jsonl")):
        return None
    return meta


def _gc(keep=120):
    """Keep the fact cache bounded (oldest entries first). Other processes may remove entries concurrently."""
    d = os.path.join(CACHE, "facts")
    ents = []
    try:
        names = os.listdir(d)
    except OSError:
        return
    for e in names:
        if ".tmp." in e:
            continue
        p = os.path.join(d, e)
        try:
            ents.append((os.path.getmtime(p), p))
        except OSError:
            continue
    ents.sort()
    import time
    now = time.time()
    for _m, p in ents[:-keep]:
        if now - _m < 1800:
            continue        # a young entry may belong to a check running in parallel that has not read it yet
        shutil.rmtree(p, ignore_errors=True)


if __name__ == "__main__":
    cfg = sys.argv[1] if len(sys.argv) > 1 else "all"
    repo = sys.argv[2] if len(sys.argv) > 2 else "/repo"
    try:
        d, m = extract(repo, cfg)
    except BuildFailed as e:
        print(e.log)
        raise SystemExit(2)
    print(d, json.dumps(m))

"""Fact database + MIR/HIR helper analyses shared by all rules."""
import json
import os
from collections import defaultdict


class Facts:
    def __init__(self, facts_dir, meta=None):
        self.dir = facts_dir
        self.meta = meta or {}
        self.bodies = {}  # path -> Body
        self.adts = {}
        self.impls = []
        self.traits = {}
        self.statics = []
        self.consts = []
        self.settings_stats = []
        self.crates = []
        self.moved = {}
        for fn in sorted(os.listdir(facts_dir)):
            if not fn.endswith(".facts.jsonl"):
                continue
            with open(os.path.join(facts_dir, fn)) as f:
                lines = f.readlines()
            lines = self._canonical_paths(lines)
            lines = self._canonical_items(lines)
            lines = self._canonical_fields(lines)
            lines = self._canonical_variants(lines)
            lines = self._canonical_fns(lines)
            if True:
                for line in lines:
                    r = json.loads(line)
                    k = r["k"]
                    if k == "body":
                        b = Body(r, self)
                        self.bodies[b.path] = b
                    elif k == "adt":
                        self.adts[r["path"]] = r
                    elif k == "impl":
                        self.impls.append(r)
                    elif k == "trait":
                        self.traits[r["path"]] = r
                    elif k == "static":
                        self.statics.append(r)
                    elif k == "const":
                        self.consts.append(r)
                    elif k == "settings_stats":
                        self.settings_stats.append(r)
                    elif k == "crate":
                        self.crates.append(r)
        self._cg = None
        if not hasattr(self, "renamed_fields"):
            self.renamed_fields = {}
        if not hasattr(self, "renamed_fns"):
            self.renamed_fns = {}
        if not hasattr(self, "renamed_variants"):
            self.renamed_variants = {}
        self.transparent = self._transparent_fields()
        self.removed_helpers = {}   # helpers inlined into all their callers by normalise(): not bodies of their own any more

    def _canonical_paths(self, lines):
        """Items (types, free functions) that were moved to another module of the crate keep their baseline path: an item whose
        name is unique, whose current path is not a baseline path and whose baseline path no longer exists is renamed back, textually,
        in every fact (paths and type strings). The rules name items by the paths of the tree they were written against."""
        import re
        here = os.path.dirname(os.path.abspath(__file__))
        bp = os.path.join(here, "baseline_items.json")
        if not os.path.exists(bp):
            return lines
        base = json.load(open(bp))
        cur = {"adt": set(), "fn": set(), "trait": set()}
        for line in lines:
            if line.startswith('{"k":"adt"') or line.startswith('{"k": "adt"') or '"k":"adt"' in line[:20]:
                cur["adt"].add(json.loads(line)["path"])
            elif '"k":"trait"' in line[:22] or '"k": "trait"' in line[:22]:
                cur["trait"].add(json.loads(line)["path"])
            elif '"k":"body"' in line[:20] or '"k": "body"' in line[:20]:
                r = json.loads(line)
                if r["kind"] == "fn":
                    cur["fn"].add(strip_generics(r["path"]))
        mapping = {}
        for kind in ("adt", "fn", "trait"):
            bset = set(base.get(kind, []))
            by_name = {}
            for p_ in bset:
                by_name.setdefault(p_.split("::")[-1], []).append(p_)
            cur_names = {}
            for p_ in cur[kind]:
                cur_names.setdefault(p_.split("::")[-1], []).append(p_)
            for p_ in cur[kind]:
                if p_ in bset or "::" not in p_:
                    continue
                nm = p_.split("::")[-1]
                cands = [q for q in by_name.get(nm, []) if q not in cur[kind]]
                if len(cands) == 1 and len(cur_names[nm]) == 1:
                    mapping[p_] = cands[0]
        if not mapping:
            return lines
        self.moved.update(mapping)
        pats = [(re.compile(r"(?<![\w:])" + re.escape(a) + r"(?![\w])"), b_) for a, b_ in sorted(mapping.items(), key=lambda x: -len(x[0]))]
        out = []
        for line in lines:
            for rx, b_ in pats:
                if rx.pattern and b_ is not None:
                    line = rx.sub(b_, line)
            out.append(line)
        return out

    def _transparent_fields(self):
        """Fields of the kind `X.g: Y` where X is a type of the baseline and Y a local struct that the baseline did not have: state that was
        regrouped into a helper struct (`NutsChain { core: ChainCore, record: DrawRecord, .. }`). In value trees and source-level trees such a
        field is transparent - `self.core.state` is read as `self.state` - so that rules stated over the fields of X still find them. Only
        when no field name of Y collides with a field of X (or of another regrouped struct of X)."""
        here = os.path.dirname(os.path.abspath(__file__))
        bp = os.path.join(here, "baseline_fields.json")
        if not os.path.exists(bp):
            return set()
        base = json.load(open(bp))
        out = set()
        for xp, x in self.adts.items():
            if xp not in base or x.get("kind") != "struct" or not x.get("variants"):
                continue
            xf = x["variants"][0]["fields"]
            names = [f["name"] for f in xf]
            cand = []
            for f in xf:
                y = f.get("adt")
                if not y or y in base or y not in self.adts or y == xp:
                    continue
                ya = self.adts[y]
                if ya.get("kind") != "struct" or not ya.get("variants"):
                    continue
                ty = f["ty"].strip()
                if ty.startswith(("&", "std::", "alloc::", "core::")):
                    continue          # only a plain by-value sub-struct, not Vec<Y>, Option<Y>, Arc<Y>
                cand.append((f["name"], y, [g["name"] for g in ya["variants"][0]["fields"]]))
            seen = list(names)
            for (g, y, yf) in cand:
                if any(n in seen for n in yf):
                    continue
                seen += yf
                out.add((xp, g))
        return out

    def _canonical_items(self, lines):
        """A type or trait that was only renamed keeps its baseline path: within one module, a type (trait) that is not in the
        baseline and a baseline type (trait) that no longer exists are the same item when their declarations agree - same kind,
        same variants, same field names and types (same method names and signatures), the item's own name aside - and the match is
        unique. The new path is rewritten to the baseline one in every fact."""
        import re
        here = os.path.dirname(os.path.abspath(__file__))
        bf = os.path.join(here, "baseline_fields.json")
        bs = os.path.join(here, "baseline_sigs.json")
        if not (os.path.exists(bf) and os.path.exists(bs)):
            return lines
        base = json.load(open(bf))
        sigs = json.load(open(bs))
        cur_adts = {}
        cur_traits = {}
        for line in lines:
            if '"k":"adt"' in line[:20]:
                r = json.loads(line)
                cur_adts[r["path"]] = r
            elif '"k":"trait"' in line[:22]:
                r = json.loads(line)
                cur_traits[r["path"]] = r

        def modof(p_):
            return p_.rsplit("::", 1)[0] if "::" in p_ else ""

        def shape_adt(path, kind, variants):
            nm = path.rsplit("::", 1)[-1]
            out = [kind]
            for v in variants:
                vn = "<self>" if v["name"] == nm else v["name"]
                out.append((vn, tuple((f[0], re.sub(r"(?<![\w:])" + re.escape(path) + r"(?![\w])", "<self>", f[1])) for f in v["fields"])))
            return tuple(out)
        mapping = {}
        gone = [p_ for p_ in base if p_ not in cur_adts and "::" in p_]
        came = [p_ for p_ in cur_adts if p_ not in base and "::" in p_]
        for c in came:
            r = cur_adts[c]
            sc = shape_adt(c, r.get("kind"), [{"name": v["name"], "fields": [(f["name"], f["ty"]) for f in v["fields"]]} for v in r["variants"]])
            cands = [g for g in gone if modof(g) == modof(c) and shape_adt(g, base[g].get("kind"), base[g]["variants"]) == sc]
            others = [c2 for c2 in came if c2 != c and modof(c2) == modof(c) and
                      shape_adt(c2, cur_adts[c2].get("kind"), [{"name": v["name"], "fields": [(f["name"], f["ty"]) for f in v["fields"]]} for v in cur_adts[c2]["variants"]]) == sc]
            if len(cands) == 1 and not others and (len(sc) > 1 and any(v[1] for v in sc[1:]) or len(sc) > 2):
                mapping[c] = cands[0]
        tb = {k[6:]: v for k, v in sigs.items() if k.startswith("trait ")}
        tgone = [p_ for p_ in tb if p_ not in cur_traits]
        tcame = [p_ for p_ in cur_traits if p_ not in tb and "::" in p_]
        for c in tcame:
            def selfsub(x, p_):
                return re.sub(r"(?<![\w:])" + re.escape(p_) + r"(?![\w])", "<self>", x or "")
            items = {it["name"]: [selfsub(x, c) for x in list(it["inputs"]) + [it.get("output") or ""]] for it in cur_traits[c]["items"] if it.get("inputs") is not None}
            cands = []
            for g in tgone:
                if modof(g) != modof(c):
                    continue
                bi = {n: [selfsub(x, g) for x in sg] for n, sg in tb[g]["names"].items()}
                if bi == items and items:
                    cands.append(g)
            if len(cands) == 1:
                mapping[c] = cands[0]
        if not mapping:
            return lines
        self.moved.update(mapping)
        pats = [(re.compile(r"(?<![\w:])" + re.escape(a) + r"(?![\w])"), b_) for a, b_ in sorted(mapping.items(), key=lambda x: -len(x[0]))]
        names = {b_: (a.rsplit("::", 1)[-1], b_.rsplit("::", 1)[-1]) for a, b_ in mapping.items() if a in cur_adts and cur_adts[a].get("kind") == "struct"}
        out = []
        for line in lines:
            for rx, b_ in pats:
                line = rx.sub(b_, line)
            for oldpath, (nn, on) in names.items():
                if '"' + nn + '"' in line:
                    # the single "variant" of a struct carries the struct's name: only in aggregates / the record of that struct
                    line = line.replace('"adt":"%s","variant":"%s"' % (oldpath, nn), '"adt":"%s","variant":"%s"' % (oldpath, on))
                    if '"k":"adt"' in line[:20] and ('"path":"%s"' % oldpath) in line[:300]:
                        line = line.replace('"name":"%s"' % nn, '"name":"%s"' % on)
            out.append(line)
        return out

    def _canonical_variants(self, lines):
        """An enum variant that was only renamed keeps its baseline name: in an enum with the baseline's number of variants, the
        variants whose names disappeared / appeared are paired by position when their payloads agree."""
        import re
        here = os.path.dirname(os.path.abspath(__file__))
        bp = os.path.join(here, "baseline_fields.json")
        if not os.path.exists(bp):
            return lines
        base = json.load(open(bp))
        base_variant_names = {v["name"] for a in base.values() for v in a["variants"]}
        mapping = {}
        for line in lines:
            if '"k":"adt"' not in line[:20]:
                continue
            r = json.loads(line)
            b = base.get(r["path"])
            if not b or r.get("kind") != "enum" or len(b["variants"]) != len(r["variants"]):
                continue
            bn = [v["name"] for v in b["variants"]]
            cn = [v["name"] for v in r["variants"]]
            ok = True
            pairs = []
            for bv, cv in zip(b["variants"], r["variants"]):
                if bv["name"] == cv["name"]:
                    continue
                if bv["name"] in cn or cv["name"] in bn or [list(f) for f in bv["fields"]] != [[f["name"], f["ty"]] for f in cv["fields"]]:
                    ok = False
                    break
                pairs.append((cv["name"], bv["name"]))
            if ok:
                for n_, o_ in pairs:
                    mapping[(r["path"], n_)] = o_
        if not mapping:
            return lines
        self.renamed_variants = {"%s::%s" % k: v for k, v in mapping.items()}
        GA = r'(?:::<(?:[^"<>]|<(?:[^"<>]|<(?:[^"<>]|<[^"<>]*>)*>)*>)*>)?'
        novel = {}
        for (adt, n_), o_ in mapping.items():
            if n_ not in base_variant_names:
                novel.setdefault(n_, set()).add(o_)
        novel = {n_: next(iter(o_)) for n_, o_ in novel.items() if len(o_) == 1}
        pats = [(re.compile(r'(?<![\w:])(' + re.escape(adt) + GA + r'::)' + re.escape(n_) + r'(?![\w])'), o_, n_, adt) for (adt, n_), o_ in mapping.items()]
        out = []
        for line in lines:
            for rx, o_, n_, adt in pats:
                if n_ not in line:
                    continue
                line = rx.sub(lambda m, o_=o_: m.group(1) + o_, line)
                line = line.replace('"adt":"%s","variant":"%s"' % (adt, n_), '"adt":"%s","variant":"%s"' % (adt, o_))
                if '"k":"adt"' in line[:20] and json.dumps(adt) in line[:200]:
                    line = line.replace('"name":"%s"' % n_, '"name":"%s"' % o_)
            for n_, o_ in novel.items():
                if '"' + n_ + '"' in line:
                    for k_ in ("d", "name", "variant"):
                        line = line.replace('"%s":"%s"' % (k_, n_), '"%s":"%s"' % (k_, o_))
                    # the variant's name as a string (derived Debug / Serialize / Deserialize tables): renamed on both sides alike
                    line = line.replace('"lk":"str","v":"%s"' % n_, '"lk":"str","v":"%s"' % o_)
                if '\\"' + n_ + '\\"' in line:
                    line = line.replace('"c":"\\"%s\\""' % n_, '"c":"\\"%s\\""' % o_)
            out.append(line)
        return out

    def _canonical_fields(self, lines):
        """A field that was only renamed keeps its baseline name: for a struct/variant that exists in the baseline with the same
        number of fields, the names that disappeared and the names that appeared are paired in declaration order when their types
        agree; the new name is rewritten to the baseline one in the ADT record, in MIR projections and aggregates of that ADT, and
        (when the new name is not a baseline field name of any type) in the source-level trees. Rules name the fields they reason
        about by the names of the tree they were written against; a renamed field is the same field."""
        import re
        here = os.path.dirname(os.path.abspath(__file__))
        bp = os.path.join(here, "baseline_fields.json")
        if not os.path.exists(bp):
            return lines
        base = json.load(open(bp))
        all_base_names = {n for a in base.values() for v in a["variants"] for n, _ in v["fields"]}
        mapping = {}     # (adt, new) -> old
        for line in lines:
            if '"k":"adt"' not in line[:20]:
                continue
            r = json.loads(line)
            bv = base.get(r["path"])
            if not bv:
                continue
            bv = {v["name"]: v["fields"] for v in bv["variants"]}
            for v in r["variants"]:
                bf = bv.get(v["name"])
                if bf is None or len(bf) != len(v["fields"]):
                    continue
                cn = [f["name"] for f in v["fields"]]
                bn = [n for n, _ in bf]
                gone = [(n, t) for n, t in bf if n not in cn]
                came = [(f["name"], f["ty"]) for f in v["fields"] if f["name"] not in bn]
                if not gone or len(gone) != len(came):
                    continue
                if all(g[1] == c[1] for g, c in zip(gone, came)) and all(not c[0].isdigit() for c in came):
                    for g, c in zip(gone, came):
                        mapping[(r["path"], c[0])] = g[0]
        if not mapping:
            return lines
        self.renamed_fields = dict(mapping)
        novel = {}
        for (adt, new_), old_ in mapping.items():
            if new_ not in all_base_names:
                novel.setdefault(new_, set()).add(old_)
        novel = {n: next(iter(o)) for n, o in novel.items() if len(o) == 1}
        out = []
        for line in lines:
            for (adt, new_), old_ in mapping.items():
                if '"' + new_ + '"' not in line:
                    continue
                qa = re.escape(json.dumps(adt)[1:-1])
                if '"k":"adt"' in line[:20] and json.dumps(adt) in line[:200]:
                    line = line.replace('"name":"%s"' % new_, '"name":"%s"' % old_)
                line = re.sub(r'"n":"%s","of":"%s"' % (re.escape(new_), qa), '"n":"%s","of":"%s"' % (old_, adt), line)
                def fix(m, new_=new_, old_=old_):
                    return m.group(1) + m.group(2).replace('"%s"' % new_, '"%s"' % old_) + m.group(3)
                line = re.sub(r'("adt":"%s","variant":"[^"]*","fields":\[)([^\]]*)(\])' % qa, fix, line)
            if '"k":"body"' in line[:20]:
                for new_, old_ in novel.items():
                    if '"' + new_ + '"' in line:
                        line = line.replace('"name":"%s"' % new_, '"name":"%s"' % old_)
            out.append(line)
        return out

    def _canonical_fns(self, lines):
        """A function that was only renamed keeps its baseline name: within one container (a module for free functions, a type for
        inherent methods, a trait for trait methods and all their impls) the names that disappeared and the names that appeared are
        paired when there are equally many of them and their signatures agree pairwise; the new name is rewritten to the baseline one
        in every path. A renamed function is the same function; without this it would be treated as a helper introduced later."""
        import re
        here = os.path.dirname(os.path.abspath(__file__))
        bp = os.path.join(here, "baseline_sigs.json")
        if not os.path.exists(bp):
            return lines
        base = json.load(open(bp))
        cur = {}
        order = {}
        for line in lines:
            if '"k":"body"' in line[:20]:
                head = line[:line.find('"mir"')] if '"mir"' in line else line
                m = re.search(r'"path":"((?:[^"\\]|\\.)*)","kind":"(fn|method)"', head)
                if not m:
                    continue
                r = json.loads(line)
                if r["kind"] not in ("fn", "method") or (r.get("parent") or {}).get("trait"):
                    continue
                if (r.get("parent") or {}).get("kind") == "trait":
                    continue
                sp = strip_generics(r["path"])
                if "::" not in sp or sp.startswith("<"):
                    continue
                cont, nm = sp.rsplit("::", 1)
                cur.setdefault(cont, {})[nm] = list(r.get("inputs") or []) + [r.get("output")]
                order.setdefault(cont, []).append((r["span"]["file"], r["span"]["line"], nm))
            elif '"k":"trait"' in line[:22]:
                r = json.loads(line)
                for it in r["items"]:
                    if it.get("inputs") is not None:
                        cur.setdefault("trait " + r["path"], {})[it["name"]] = list(it["inputs"]) + [it.get("output")]
                        order.setdefault("trait " + r["path"], []).append(("", len(order.get("trait " + r["path"], [])), it["name"]))
        all_base_names = {n for c in base.values() for n in c["names"]}
        mapping = {}
        for cont, names in cur.items():
            b = base.get(cont)
            if not b:
                continue
            gone = [n for n in b["order"] if n not in names]
            came = [n for (_f, _l, n) in sorted(order[cont]) if n not in b["names"]]
            if not gone or len(gone) != len(came):
                continue
            if all(b["names"][g] == names[c] for g, c in zip(gone, came)):
                for g, c in zip(gone, came):
                    mapping[(cont, c)] = g
        if not mapping:
            return lines
        self.renamed_fns = {"%s::%s" % k: v for k, v in mapping.items()}
        GA = r'(?:::<(?:[^"<>]|<(?:[^"<>]|<(?:[^"<>]|<[^"<>]*>)*>)*>)*>)?'
        pats = []
        novel = {}
        for (cont, new_), old_ in mapping.items():
            if cont.startswith("trait "):
                tp = re.escape(cont[6:])
                pats.append((re.compile(r'(?<![\w:])(' + tp + r'::)' + re.escape(new_) + r'(?![\w])'), old_, new_))
                pats.append((re.compile(r'( as ' + tp + r'(?:<(?:[^"<>]|<(?:[^"<>]|<(?:[^"<>]|<[^"<>]*>)*>)*>)*>)?>::)' + re.escape(new_) + r'(?![\w])'), old_, new_))
            else:
                pats.append((re.compile(r'(?<![\w:])(' + re.escape(cont) + GA + r'::)' + re.escape(new_) + r'(?![\w])'), old_, new_))
            if new_ not in all_base_names:
                novel.setdefault(new_, set()).add(old_)
        novel = {n: next(iter(o)) for n, o in novel.items() if len(o) == 1}
        out = []
        for line in lines:
            for rx, old_, new_ in pats:
                if new_ in line:
                    line = rx.sub(lambda m, old_=old_: m.group(1) + old_, line)
            for new_, old_ in novel.items():
                if '"' + new_ + '"' in line:
                    for k_ in ("name", "fn_name", "method"):
                        line = line.replace('"%s":"%s"' % (k_, new_), '"%s":"%s"' % (k_, old_))
            out.append(line)
        return out

    def hir_bodies(self):
        """Every function body with its source-level (HIR) tree, including helpers whose MIR was inlined into their callers:
        rules that match source-level constructs wherever they occur use this list."""
        return list(self.bodies.values()) + list(self.removed_helpers.values())

    # ---------- lookup helpers ----------
    def body(self, path):
        return self.bodies.get(path)

    def any_body(self, path):
        """A body by path, including helpers whose MIR was inlined into their callers (their HIR is still the source of the call's meaning)."""
        return self.bodies.get(path) or self.removed_helpers.get(path)

    def bodies_where(self, pred):
        return [b for b in self.bodies.values() if pred(b)]

    def trait_method_impls(self, trait_suffix, method):
        """Bodies that implement `method` of a trait whose path ends with trait_suffix."""
        out = []
        for b in self.bodies.values():
            p = b.parent
            if b.kind == "method" and p.get("kind") == "impl" and p.get("trait") and \
               path_ends(p["trait"], trait_suffix) and p.get("fn_name") == method:
                out.append(b)
        return sorted(out, key=lambda b: b.path)

    def inherent_methods(self, adt_suffix, method):
        out = []
        for b in self.bodies.values():
            p = b.parent
            if b.kind == "method" and p.get("kind") == "impl" and not p.get("trait") and \
               p.get("self_adt") and path_ends(p["self_adt"], adt_suffix) and p.get("fn_name") == method:
                out.append(b)
        return sorted(out, key=lambda b: b.path)

    def closures_of(self, fn_path):
        return sorted([b for b in self.bodies.values()
                       if b.kind == "closure" and b.parent.get("fn") == fn_path], key=lambda b: b.path)

    def impls_of_trait(self, trait_suffix):
        return [i for i in self.impls if i.get("trait") and path_ends(i["trait"], trait_suffix)]

    def adt(self, suffix):
        m = [a for p, a in self.adts.items() if path_ends(p, suffix)]
        return m[0] if len(m) == 1 else None

    # ---------- call graph ----------
    def callgraph(self):
        if self._cg is None:
            self._cg = CallGraph(self)
        return self._cg


def path_ends(path, suffix):
    """`a::b::C` ends with `b::C` on a `::` boundary (generic args stripped)."""
    if path is None:
        return False
    path = strip_generics(path)
    return path == suffix or path.endswith("::" + suffix)


def strip_generics(s):
    out = []
    depth = 0
    for ch in s:
        if ch == "<":
            depth += 1
        elif ch == ">":
            depth -= 1
        elif depth == 0:
            out.append(ch)
    return "".join(out).replace("::::", "::")


def loc(span):
    if not span:
        return "?"
    f = span.get("file", "?")
    i = f.find("/src/")
    # keep repo-relative path
    for marker in ("/nuts-derive/", "/nuts-storable/"):
        j = f.find(marker)
        if j >= 0:
            return "%s:%s" % (f[j + 1:], span.get("line"))
    if i >= 0:
        return "%s:%s" % (f[i + 1:], span.get("line"))
    return "%s:%s" % (f, span.get("line"))


# =====================================================================================
# MIR body
# =====================================================================================
class Body:
    def __init__(self, r, facts):
        self.r = r
        self.facts = facts
        self.path = r["path"]
        self.kind = r["kind"]
        self.parent = r["parent"]
        self.span = r["span"]
        self.mir = r.get("mir")
        self.hir = r.get("hir")
        self.captures = r.get("captures", [])
        self.blocks = self.mir["blocks"] if self.mir else []
        self.locals = self.mir["locals"] if self.mir else []
        self.arg_count = self.mir["arg_count"] if self.mir else 0
        self._succ = None
        self._pred = None
        self._dom = None
        self._pdom = None
        self._defs = None
        self._cenv = None

    def __repr__(self):
        return "<Body %s>" % self.path

    @property
    def fn_name(self):
        return self.parent.get("fn_name")

    def loc(self):
        return loc(self.span)

    # ---------- CFG ----------
    def term(self, bb):
        return self.blocks[bb]["term"]

    def succs(self, bb, unwind=False):
        t = self.blocks[bb]["term"]
        k = t["k"]
        out = []
        if k == "goto":
            out = [t["target"]]
        elif k == "switch":
            out = [a["target"] for a in t["arms"]] + [t["otherwise"]]
        elif k in ("call", "drop", "assert"):
            if t.get("target") is not None:
                out = [t["target"]]
            if unwind and t.get("unwind") is not None:
                out.append(t["unwind"])
        elif k == "other":
            out = list(t.get("succ", []))
        return out

    def succ_map(self):
        if self._succ is None:
            self._succ = [self.succs(i) for i in range(len(self.blocks))]
            self._pred = [[] for _ in self.blocks]
            for i, ss in enumerate(self._succ):
                for s in ss:
                    self._pred[s].append(i)
        return self._succ

    def pred_map(self):
        self.succ_map()
        return self._pred

    def reachable_blocks(self):
        succ = self.succ_map()
        seen = {0}
        st = [0]
        while st:
            b = st.pop()
            for s in succ[b]:
                if s not in seen:
                    seen.add(s)
                    st.append(s)
        return seen

    def is_cleanup(self, bb):
        return self.blocks[bb]["cleanup"]

    def exits(self):
        """Return blocks (normal function exits)."""
        return [i for i in self.reachable_blocks() if self.blocks[i]["term"]["k"] == "return"]

    def dominators(self):
        """dom[b] = set of blocks dominating b (normal edges only)."""
        if self._dom is None:
            self._dom = _dom_sets(len(self.blocks), self.succ_map(), self.pred_map(), [0])
        return self._dom

    def postdominators(self, exits=None):
        """pdom[b] = set of blocks post-dominating b w.r.t. normal `return` exits."""
        if exits is None:
            if self._pdom is None:
                self._pdom = _dom_sets(len(self.blocks), self.pred_map(), self.succ_map(), self.exits())
            return self._pdom
        return _dom_sets(len(self.blocks), self.pred_map(), self.succ_map(), list(exits))

    def dominates(self, a, b):
        return a in self.dominators().get(b, set())

    def reach_from(self, start, avoid=(), succ_filter=None):
        """Blocks reachable from `start` (list or int) via normal edges, not entering `avoid`.

        In a body with inlined helpers the search is path-sensitive for constants and enum variants built on the path taken
        (`return Err(Kind::A)` in a helper, `match` on it in the caller), see reach_feasible."""
        if succ_filter is None and getattr(self, "inlined_from", None):
            starts = [start] if isinstance(start, int) else list(start)
            out = set()
            for s_ in starts:
                out |= self.reach_feasible(s_, avoid)
            return out
        succ = self.succ_map()
        avoid = set(avoid)
        starts = [start] if isinstance(start, int) else list(start)
        seen = set()
        st = []
        for s in starts:
            if s not in avoid:
                seen.add(s)
                st.append(s)
        while st:
            b = st.pop()
            for s in succ[b]:
                if s in avoid or s in seen:
                    continue
                if succ_filter and not succ_filter(b, s):
                    continue
                seen.add(s)
                st.append(s)
        return seen

    def _untracked_locals(self):
        """Locals whose value can change behind the back of a per-path environment (address taken mutably / raw)."""
        if getattr(self, "_untracked", None) is None:
            u = set()
            for blk in self.blocks:
                for st in blk["stmts"]:
                    if st["k"] == "assign":
                        rv = st["rv"]
                        if rv["k"] == "rawptr" or (rv["k"] == "ref" and rv.get("bk") == "mut"):
                            u.add(rv["pl"]["l"])
            self._untracked = u
        return self._untracked

    def restricted(self, blocks):
        """Context manager: value trees are computed from the definitions inside `blocks` only (the part of the CFG that is feasible
        under some assumption), so that `x = if flag {a} else {b}` has one definition when the flag is assumed."""
        body = self

        class _R(object):
            def __enter__(self_):
                self_.old = getattr(body, "_restrict", None)
                body._restrict = set(blocks)
                return body

            def __exit__(self_, *a):
                body._restrict = self_.old
                return False
        return _R()

    def feasible_step(self, x, env, oracle=None):
        """One block of the path-sensitive walk: (environment after the block, feasible successors, was the branch decided by the environment)."""
        succ = self.succ_map()
        untracked = self._untracked_locals()

        def ev_place(env, pl):
            if oracle is not None:
                r_ = oracle(pl)
                if r_ is not None:
                    return r_
            v = env.get(pl["l"])
            for e in pl["p"]:
                if v is None or isinstance(v, bool):
                    return None
                if e == "*":
                    if v[0] == "R":
                        v = v[1]
                        continue
                    return None
                if isinstance(e, dict) and "d" in e:
                    if v[0] == "V" and v[1] == e["d"]:
                        continue
                    return None
                if isinstance(e, dict) and "f" in e and v[0] == "V":
                    v = v[2][e["f"]] if e["f"] < len(v[2]) else None
                    continue
                return None
            return v

        def ev_op(env, o):
            if o["k"] == "const":
                c = o["const"].get("v")
                if c in ("true", "false"):
                    return c == "true"
                # a unit variant of an enum as a constant (`&Phase::Main` is promoted): Enum::Variant
                ty = str(o["const"].get("ty") or "")
                base = ty.lstrip("&").strip()
                if isinstance(c, str) and base and c.startswith(strip_generics(base) + "::") and "(" not in c and "{" not in c:
                    val = ("V", c.rsplit("::", 1)[-1], ())
                    return ("R", val) if ty.startswith("&") else val
                return None
            if o["k"] in ("copy", "move"):
                return ev_place(env, o["pl"])
            return None
        env = dict(env)
        for st in self.blocks[x]["stmts"]:
            if st["k"] == "setdiscr":
                env.pop(st["pl"]["l"], None)
                continue
            if st["k"] != "assign":
                continue
            l = st["pl"]["l"]
            if st["pl"]["p"] or l in untracked:
                env.pop(l, None)
                continue
            rv = st["rv"]
            val = None
            if rv["k"] == "use":
                val = ev_op(env, rv["op"])
            elif rv["k"] == "ref" and rv.get("bk") in ("shared", "Shared", None):
                pv = ev_place(env, rv["pl"])
                val = ("R", pv) if pv is not None and not isinstance(pv, bool) else None
            elif rv["k"] == "un" and rv["op"] == "Not":
                a = ev_op(env, rv["a"])
                val = (not a) if isinstance(a, bool) else None
            elif rv["k"] == "bin" and rv["op"] in ("BitOr", "BitAnd"):
                a, b2 = ev_op(env, rv["a"]), ev_op(env, rv["b"])
                if rv["op"] == "BitOr" and (a is True or b2 is True):
                    val = True
                elif rv["op"] == "BitAnd" and (a is False or b2 is False):
                    val = False
                elif isinstance(a, bool) and isinstance(b2, bool):
                    val = (a or b2) if rv["op"] == "BitOr" else (a and b2)
            elif rv["k"] == "agg" and rv.get("ak") == "adt" and rv.get("variant") is not None:
                val = ("V", rv["variant"], tuple(ev_op(env, o) for o in rv["ops"]))
            elif rv["k"] == "agg" and rv.get("ak") == "tuple":
                val = ("V", None, tuple(ev_op(env, o) for o in rv["ops"]))
            elif rv["k"] == "discr":
                v = ev_place(env, rv["pl"])
                if v is not None and not isinstance(v, bool) and v[0] == "V" and v[1] is not None:
                    val = ("D", v[1])
            if val is None:
                env.pop(l, None)
            else:
                env[l] = val
        t = self.blocks[x]["term"]
        if t["k"] == "call":
            res = None
            cp = strip_generics(t["callee"].get("path", ""))
            if cp.endswith(("PartialEq::eq", "PartialEq::ne")) and len(t["args"]) == 2 and not t["dest"]["p"]:
                # derived equality of two unit variants known on this path (`phase == Phase::Main`)
                a, b2 = ev_op(env, t["args"][0]), ev_op(env, t["args"][1])
                if a is not None and b2 is not None and not isinstance(a, bool) and not isinstance(b2, bool) and a[0] == "R" and b2[0] == "R":
                    a, b2 = a[1], b2[1]
                    if a[0] == "V" and b2[0] == "V" and a[2] == () and b2[2] == () and a[1] is not None and b2[1] is not None:
                        res = (a[1] == b2[1]) if cp.endswith("::eq") else (a[1] != b2[1])
            # library facts about `?`: the residual of a Result converts into an Err; branching a known Ok / Err gives Continue / Break
            dty = str(t["dest"].get("ty") or self.local_ty(t["dest"]["l"]) or "")
            if res is None and cp.endswith("FromResidual::from_residual") and not t["dest"]["p"] and strip_generics(dty).endswith("result::Result"):
                res = ("V", "Err", (None,))
            if res is None and cp.endswith("Try::branch") and len(t["args"]) == 1 and not t["dest"]["p"]:
                a = ev_op(env, t["args"][0])
                if a is not None and not isinstance(a, bool) and a[0] == "V" and a[1] in ("Ok", "Err", "Some", "None"):
                    res = ("V", "Continue" if a[1] in ("Ok", "Some") else "Break", (None,))
            if res is None:
                env.pop(t["dest"]["l"], None)
            else:
                env[t["dest"]["l"]] = res
        nxt = succ[x]
        decided = False
        if t["k"] == "switch" and t["discr"]["k"] in ("copy", "move") and not t["discr"]["pl"]["p"]:
            v = env.get(t["discr"]["pl"]["l"])
            if isinstance(v, bool) and t.get("discr_ty") == "bool":
                tgt = None
                for a in t["arms"]:
                    if (a["val"] != 0) == v:
                        tgt = a["target"]
                nxt = [tgt if tgt is not None else t["otherwise"]]
                decided = True
            elif v is not None and not isinstance(v, bool) and v[0] == "D" and all(a.get("name") for a in t["arms"]):
                tgt = None
                for a in t["arms"]:
                    if a["name"] == v[1]:
                        tgt = a["target"]
                nxt = [tgt if tgt is not None else t["otherwise"]]
                decided = True
        return env, nxt, decided

    def reach_feasible(self, start, avoid=(), known=None, oracle=None):
        """Reachability that follows only the feasible edge of a switch whose discriminant is known *on the path taken*:
        booleans (`x = const`, `y = move x`, `z = !x`) and enum values built by aggregates (`r = Err(Kind::A)`; `match r`),
        including nested payloads. Everything else is explored on all edges; on state explosion the plain (larger) set is returned."""
        avoid = set(avoid)
        seen = set()
        out = set()
        stack = [(start, tuple(sorted((known or {}).items())))]
        steps = 0
        while stack:
            steps += 1
            if steps > 40000:
                return self.reach_from(start, avoid, succ_filter=lambda a, b: True)
            x, envt = stack.pop()
            if x in avoid or (x, envt) in seen:
                continue
            seen.add((x, envt))
            out.add(x)
            env, nxt, _dec = self.feasible_step(x, dict(envt), oracle)
            et = tuple(sorted(env.items(), key=lambda kv: kv[0]))
            for y in nxt:
                stack.append((y, et))
        return out

    def reach_strict(self, start, avoid=()):
        """Blocks reachable by at least one edge from start."""
        succ = self.succ_map()
        avoid = set(avoid)
        seen = set()
        st = [s for s in succ[start] if s not in avoid]
        seen.update(st)
        while st:
            b = st.pop()
            for s in succ[b]:
                if s not in avoid and s not in seen:
                    seen.add(s)
                    st.append(s)
        return seen

    def back_edges(self):
        dom = self.dominators()
        out = []
        for b in self.reachable_blocks():
            for s in self.succ_map()[b]:
                if s in dom.get(b, ()):  # s dominates b
                    out.append((b, s))
        return out

    def natural_loops(self):
        """header -> set(blocks)"""
        pred = self.pred_map()
        loops = defaultdict(set)
        for (b, h) in self.back_edges():
            body = {h, b}
            st = [b] if b != h else []
            while st:
                x = st.pop()
                for p in pred[x]:
                    if p not in body:
                        body.add(p)
                        st.append(p)
            loops[h] |= body
        return dict(loops)

    # ---------- calls ----------
    def calls(self, include_cleanup=False):
        """Yield (bb, term) of every reachable call terminator."""
        rb = self.reachable_blocks() if not include_cleanup else range(len(self.blocks))
        for i in sorted(rb):
            blk = self.blocks[i]
            if blk["cleanup"] and not include_cleanup:
                continue
            t = blk["term"]
            if t["k"] == "call":
                yield i, t

    def calls_to(self, pred, include_cleanup=False):
        out = []
        for bb, t in self.calls(include_cleanup):
            c = t["callee"]
            if "path" in c and pred(c):
                out.append((bb, t))
        return out

    # ---------- definitions / slices ----------
    def defs(self):
        """local -> list of ('stmt', bb, idx, stmt) / ('call', bb, term) that write to it (any projection)."""
        if self._defs is None:
            d = defaultdict(list)
            for bi, blk in enumerate(self.blocks):
                for si, st in enumerate(blk["stmts"]):
                    if st["k"] in ("assign", "setdiscr"):
                        d[st["pl"]["l"]].append(("stmt", bi, si, st))
                t = blk["term"]
                if t["k"] == "call":
                    d[t["dest"]["l"]].append(("call", bi, None, t))
            self._defs = d
        return self._defs

    def local_name(self, l):
        if l < len(self.locals):
            return self.locals[l].get("name")
        return None

    def local_ty(self, l):
        return self.locals[l]["ty"]

    def is_arg(self, l):
        return 1 <= l <= self.arg_count

    def value(self, operand, depth=0, seen=None):
        """Resolve an operand to an expression tree through single-definition temporaries.

        Node kinds:
          ('const', text, value)       constants
          ('arg', n, name)             function parameter
          ('local', n, name)           multiply-defined / user local that cannot be resolved further
          ('field', base, name)        field projection
          ('deref', base)
          ('index', base)
          ('call', path, [args], callee_dict)
          ('bin', op, a, b) / ('un', op, a) / ('cast', a) / ('ref', a) / ('agg', what, [ops], fields) / ('discr', a)
          ('upvar', name)              closure capture
        """
        if seen is None:
            seen = frozenset()
        k = operand["k"]
        if k == "const":
            c = operand["const"]
            if "fn" in c:
                return ("fnref", c["fn"]["path"], c["fn"])
            if c.get("tuple_fields"):
                # a named tuple constant is the tuple of its (evaluated) fields
                return ("agg", "tuple", [("const", "%s.%d" % (c["c"], i), f.get("v")) for i, f in enumerate(c["tuple_fields"])])
            return ("const", c["c"], c.get("v"))
        if k in ("copy", "move"):
            return self.place_value(operand["pl"], depth, seen)
        return ("unknown",)

    def coroutine_env_locals(self):
        """Locals that hold `&mut <this coroutine>` (copies of `_1.pointer` of the pinned self of an async block)."""
        if getattr(self, "_cenv", None) is None:
            env = set()
            if self.kind == "closure" and self.arg_count >= 1 and self.locals[1]["ty"].startswith("std::pin::Pin<&mut {async"):
                for l, ds in self.defs().items():
                    for d in ds:
                        if d[0] == "stmt" and d[3]["k"] == "assign" and not d[3]["pl"]["p"] and d[3]["rv"]["k"] == "use":
                            o = d[3]["rv"]["op"]
                            if o["k"] in ("copy", "move") and o["pl"]["l"] == 1 and len(o["pl"]["p"]) == 1 and \
                               isinstance(o["pl"]["p"][0], dict) and o["pl"]["p"][0].get("n") == "pointer":
                                env.add(l)
            self._cenv = env
        return self._cenv

    def place_value(self, pl, depth=0, seen=frozenset()):
        # captured variable of an async block: (*env).<i> without a variant downcast
        if pl["l"] in self.coroutine_env_locals() and len(pl["p"]) >= 2 and pl["p"][0] == "*" and \
           isinstance(pl["p"][1], dict) and "f" in pl["p"][1] and pl["p"][1]["f"] < len(self.captures):
            base = ("upvar", self.captures[pl["p"][1]["f"]]["var"])
            rest = pl["p"][2:]
        else:
            base = self.local_value(pl["l"], depth, seen)
            rest = pl["p"]
        for e in rest:
            if e == "*":
                # &x then *  cancels
                if base[0] == "ref":
                    base = base[1]
                else:
                    base = ("deref", base)
            elif isinstance(e, dict) and "f" in e:
                if e.get("of") == "closure" and base[0] in ("arg", "deref") and self.kind == "closure":
                    inner = base[1] if base[0] == "deref" else base
                    if inner[0] == "arg" and inner[1] == 1:
                        base = ("upvar", e["n"])
                        continue
                if base[0] == "agg" and base[1] in ("tuple",) and e["f"] < len(base[2]):
                    base = base[2][e["f"]]
                    continue
                if base[0] == "agg" and "::" in str(base[1]) and base[3] and e.get("n") in base[3]:
                    # field of a struct / variant built right here
                    base = base[2][base[3].index(e["n"])]
                    continue
                if e.get("n") is not None and (e.get("of"), e["n"]) in self.facts.transparent:
                    continue          # state regrouped into a helper struct: `self.core.state` reads as `self.state`
                base = ("field", base, e["n"] if e["n"] is not None else str(e["f"]))
            elif isinstance(e, dict) and "d" in e:
                # `(x as V)` where x is built in several places (an enum returned by a helper with one aggregate per variant): only the
                # aggregate of variant V can be what is looked at here
                if base[0] == "local" and depth < 30:
                    aggs = [d for d in self.defs().get(base[1], []) if d[0] == "stmt" and d[3]["k"] == "assign" and not d[3]["pl"]["p"]
                            and d[3]["rv"]["k"] == "agg" and d[3]["rv"].get("ak") == "adt"]
                    mine = [d for d in aggs if d[3]["rv"].get("variant") == e["d"]]
                    others = [d for d in self.defs().get(base[1], []) if d not in aggs]
                    if len(mine) == 1 and not others:
                        base = self.rvalue_value(mine[0][3]["rv"], depth + 1, seen | {base[1]})
                        continue
                base = ("downcast", base, e["d"])
            elif isinstance(e, dict) and ("idx" in e or "cidx" in e):
                base = ("index", base)
            else:
                base = ("proj", base, str(e))
        return base

    def local_value(self, l, depth=0, seen=frozenset()):
        if self.is_arg(l):
            return ("arg", l, self.local_name(l))
        if l in seen or depth > 40:
            return ("local", l, self.local_name(l))
        ds = self.defs().get(l, [])
        if getattr(self, "_restrict", None) is not None:
            # evaluation on a sub-graph (the blocks feasible under an assumption): definitions elsewhere do not count
            ds = [d for d in ds if d[1] in self._restrict]
        # a store through the pointer parameter of an inlined helper (`(*self).f = ..`) does not redefine the pointer
        if self.locals[l].get("inl_param"):
            ds = [d for d in ds if not (d[3]["pl" if d[0] == "stmt" else "dest"]["p"][:1] == ["*"])]
        # whole-local definitions only
        whole = [d for d in ds if not d[3]["pl" if d[0] == "stmt" else "dest"]["p"]]
        if len(ds) != 1 or len(whole) != 1:
            return ("local", l, self.local_name(l))
        d = whole[0]
        seen2 = seen | {l}
        if d[0] == "call":
            t = d[3]
            c = t["callee"]
            args = [self.value(a, depth + 1, seen2) for a in t["args"]]
            if "path" in c:
                return ("call", c["path"], args, c)
            return ("icall", self.value(c["indirect"], depth + 1, seen2), args)
        st = d[3]
        if st["k"] != "assign":
            return ("local", l, self.local_name(l))
        return self.rvalue_value(st["rv"], depth + 1, seen2)

    def rvalue_value(self, rv, depth=0, seen=frozenset()):
        k = rv["k"]
        if k == "use":
            return self.value(rv["op"], depth, seen)
        if k == "ref":
            return ("ref", self.place_value(rv["pl"], depth, seen))
        if k == "rawptr":
            return ("ref", self.place_value(rv["pl"], depth, seen))
        if k == "bin":
            return ("bin", rv["op"], self.value(rv["a"], depth, seen), self.value(rv["b"], depth, seen))
        if k == "un":
            return ("un", rv["op"], self.value(rv["a"], depth, seen))
        if k == "cast":
            return ("cast", self.value(rv["op"], depth, seen))
        if k == "discr":
            return ("discr", self.place_value(rv["pl"], depth, seen))
        if k == "agg":
            what = rv.get("adt") or rv.get("closure") or rv["ak"]
            if rv["ak"] == "adt":
                what = rv["adt"] + "::" + rv["variant"]
            return ("agg", rv["ak"] if rv["ak"] != "adt" else what,
                    [self.value(o, depth, seen) for o in rv["ops"]], rv.get("fields"))
        if k == "repeat":
            return ("repeat", self.value(rv["op"], depth, seen))
        return ("unknown", rv.get("dbg", k))


def _dom_sets(n, succ, pred, roots):
    """Generic iterative dominator sets over graph (succ/pred) from multiple roots."""
    # nodes reachable from roots
    reach = set()
    st = list(roots)
    reach.update(roots)
    while st:
        b = st.pop()
        for s in succ[b]:
            if s not in reach:
                reach.add(s)
                st.append(s)
    roots = set(roots)
    dom = {}
    allr = set(reach)
    for b in reach:
        dom[b] = {b} if b in roots else set(allr)
    changed = True
    order = sorted(reach)
    while changed:
        changed = False
        for b in order:
            if b in roots:
                continue
            ps = [p for p in pred[b] if p in reach]
            if not ps:
                new = {b}
            else:
                new = set.intersection(*[dom[p] for p in ps]) | {b}
            if new != dom[b]:
                dom[b] = new
                changed = True
    return dom


# =====================================================================================
# value-tree helpers
# =====================================================================================
def vt_walk(v):
    """Yield every node of a value tree."""
    if not isinstance(v, tuple):
        return
    yield v
    for x in v[1:]:
        if isinstance(x, tuple):
            yield from vt_walk(x)
        elif isinstance(x, list):
            for y in x:
                yield from vt_walk(y)


def vt_calls(v):
    return [n for n in vt_walk(v) if n[0] == "call"]


def vt_has_call(v, suffix):
    return any(path_ends(n[1], suffix) for n in vt_calls(v))


def vt_fields(v):
    return [n[2] for n in vt_walk(v) if n[0] == "field"]


def vt_args(v):
    return [n for n in vt_walk(v) if n[0] == "arg"]


def vt_str(v, depth=0):
    if not isinstance(v, tuple):
        return str(v)
    if depth > 12:
        return "…"
    k = v[0]
    if k == "const":
        return v[2] if v[2] is not None else v[1]
    if k == "arg":
        return "%s" % (v[2] or ("_%d" % v[1]))
    if k == "local":
        return "%s" % (v[2] or ("_%d" % v[1]))
    if k == "upvar":
        return "^%s" % v[1]
    if k == "field":
        return "%s.%s" % (vt_str(v[1], depth + 1), v[2])
    if k == "deref":
        return "*%s" % vt_str(v[1], depth + 1)
    if k == "ref":
        return "&%s" % vt_str(v[1], depth + 1)
    if k == "call":
        return "%s(%s)" % (short(v[1]), ", ".join(vt_str(a, depth + 1) for a in v[2]))
    if k == "bin":
        return "(%s %s %s)" % (vt_str(v[2], depth + 1), v[1], vt_str(v[3], depth + 1))
    if k == "un":
        return "%s(%s)" % (v[1], vt_str(v[2], depth + 1))
    if k == "agg":
        return "%s{%s}" % (short(str(v[1])), ", ".join(vt_str(a, depth + 1) for a in v[2]))
    if k == "downcast":
        return "(%s as %s)" % (vt_str(v[1], depth + 1), v[2])
    if k == "discr":
        return "discr(%s)" % vt_str(v[1], depth + 1)
    if k == "cast":
        return "cast(%s)" % vt_str(v[1], depth + 1)
    if k == "fnref":
        return "fn:%s" % short(v[1])
    return "%s" % (k,)


def short(path):
    p = strip_generics(path)
    parts = p.split("::")
    return "::".join(parts[-2:]) if len(parts) > 1 else p


# =====================================================================================
# call graph
# =====================================================================================
class CallGraph:
    """Edges caller-path -> callee-paths (workspace bodies only).

    Trait-method calls that the compiler could not resolve to one impl are edges to every
    workspace impl of that method (sound over-approximation). Closures are linked from the body
    that creates them.
    """

    def __init__(self, facts):
        self.f = facts
        self.edges = defaultdict(set)
        self.ext_calls = defaultdict(list)  # caller -> [(callee_path, bb, term)]
        impls_by_method = defaultdict(list)
        for b in facts.bodies.values():
            p = b.parent
            if b.kind == "method" and p.get("kind") == "impl" and p.get("trait"):
                impls_by_method[(strip_generics(p["trait"]), p["fn_name"])].append(b.path)
        for b in facts.bodies.values():
            for bi, blk in enumerate(b.blocks):
                for st in blk["stmts"]:
                    if st["k"] == "assign" and st["rv"]["k"] == "agg" and st["rv"]["ak"] == "closure":
                        self.edges[b.path].add(st["rv"]["closure"])
                t = blk["term"]
                if t["k"] not in ("call", "tailcall"):
                    continue
                c = t["callee"]
                if "path" not in c:
                    continue
                for cl in c.get("closures", []):
                    if cl in facts.bodies:
                        self.edges[b.path].add(cl)
                tgt = c.get("resolved") or c["path"]
                if tgt in facts.bodies:
                    self.edges[b.path].add(tgt)
                elif c.get("trait") and not c.get("resolved"):
                    key = (strip_generics(c["trait"]), c["name"])
                    cands = impls_by_method.get(key, [])
                    if cands:
                        for x in cands:
                            self.edges[b.path].add(x)
                    # default method body in the trait itself
                    if c["path"] in facts.bodies:
                        self.edges[b.path].add(c["path"])
                    if not cands:
                        self.ext_calls[b.path].append((c["path"], bi, t))
                else:
                    if c["path"] in facts.bodies:
                        self.edges[b.path].add(c["path"])
                    else:
                        self.ext_calls[b.path].append((tgt, bi, t))

    def reachable(self, roots):
        seen = set()
        st = []
        for r in roots:
            if r in self.f.bodies and r not in seen:
                seen.add(r)
                st.append(r)
        while st:
            x = st.pop()
            for y in self.edges.get(x, ()):
                if y not in seen and y in self.f.bodies:
                    seen.add(y)
                    st.append(y)
        return seen

    def callers_of(self, path):
        return sorted(c for c, es in self.edges.items() if path in es)


# =====================================================================================
# HIR helpers
# =====================================================================================
def hir_walk(n):
    """Yield every dict node that has a 'k' key (pre-order)."""
    if isinstance(n, dict):
        if "k" in n:
            yield n
        for key, v in n.items():
            if key in ("span", "ty", "res") and key != "res":
                continue
            if isinstance(v, (dict, list)):
                yield from hir_walk(v)
    elif isinstance(n, list):
        for x in n:
            yield from hir_walk(x)


def hir_find(n, kind):
    return [x for x in hir_walk(n) if x.get("k") == kind]


def hir_callee(n):
    """Resolved callee def path for Call / MethodCall nodes."""
    if n.get("k") == "MethodCall":
        return n.get("callee")
    if n.get("k") == "Call":
        f = n.get("f", {})
        if f.get("k") == "Path":
            r = f.get("res", {})
            return r.get("def") or n.get("callee")
        return n.get("callee")
    return None


# =====================================================================================
# control dependence and backward slices (methods added to Body)
# =====================================================================================
def _control_deps(self):
    """bb -> set of (switch_bb, succ_bb): bb executes only if switch_bb took the edge to succ_bb.

    Computed on the sub-graph of blocks that can reach a normal return (panic-only arms of
    asserts are not branches of the algorithm)."""
    if getattr(self, "_cd", None) is not None:
        return self._cd
    pdom = self.postdominators()
    succ = self.succ_map()
    cd = defaultdict(set)
    for a in pdom:
        ss = [s for s in succ[a] if s in pdom]
        if len(set(ss)) < 2:
            continue
        for s in set(ss):
            # every block that post-dominates s but does not strictly post-dominate a
            for b in pdom[s]:
                if b == a or b not in pdom[a]:
                    cd[b].add((a, s))
                elif b in pdom[a] and b == a:
                    cd[b].add((a, s))
    self._cd = cd
    return cd


def _control_deps_trans(self, bb):
    """Transitive control dependences of bb: set of (switch_bb, succ_bb)."""
    cd = self.control_deps()
    out = set()
    st = [bb]
    seen = {bb}
    while st:
        b = st.pop()
        for (a, s) in cd.get(b, ()):
            if (a, s) not in out:
                out.add((a, s))
            if a not in seen:
                seen.add(a)
                st.append(a)
    return out


def _operand_locals(o):
    if o["k"] in ("copy", "move"):
        out = [o["pl"]["l"]]
        for e in o["pl"]["p"]:
            if isinstance(e, dict) and "idx" in e:
                out.append(e["idx"])
        return out
    return []


def _rvalue_operands(rv):
    k = rv["k"]
    if k in ("use", "repeat", "cast"):
        return [rv["op"]]
    if k in ("ref", "rawptr", "discr"):
        return [{"k": "copy", "pl": rv["pl"]}]
    if k == "bin":
        return [rv["a"], rv["b"]]
    if k == "un":
        return [rv["a"]]
    if k == "agg":
        return list(rv["ops"])
    return []


def _mut_borrow_calls(self):
    """local L -> list of call terminators that receive `&mut L` (directly or via a reborrow temp)."""
    if getattr(self, "_mbc", None) is not None:
        return self._mbc
    tmp_of = {}  # temp local -> borrowed local
    for blk in self.blocks:
        for st in blk["stmts"]:
            if st["k"] == "assign" and st["rv"]["k"] in ("ref", "rawptr") and st["rv"].get("bk") in ("mut", "Mut") and not st["pl"]["p"]:
                src = st["rv"]["pl"]
                tmp_of[st["pl"]["l"]] = src["l"]
    # resolve chains (reborrows of temps)
    def root(l, d=0):
        while l in tmp_of and d < 10 and not self.local_name(l):
            l = tmp_of[l]
            d += 1
        return l
    out = defaultdict(list)
    for bi, blk in enumerate(self.blocks):
        t = blk["term"]
        if t["k"] != "call":
            continue
        for a in t["args"]:
            if a["k"] in ("copy", "move") and a["pl"]["l"] in tmp_of:
                out[root(a["pl"]["l"])].append((bi, t))
    self._mbc = out
    return out


def _slice(self, start_operands, control=True, start_bb=None, mut_flows=False):
    """Flow-insensitive backward slice.

    Returns dict with:
      args:   set of (arg_index, tuple(field names...)) read
      fields: set of field names read anywhere in the slice
      calls:  set of callee paths whose results flow in
      callees: list of callee dicts
      consts: set of constant texts
      upvars: set of capture names
      locals: set of locals visited
    """
    res = {"args": set(), "fields": set(), "calls": set(), "callees": [], "consts": set(),
           "upvars": set(), "locals": set(), "named": set(), "roots": set()}
    defs = self.defs()
    work = []
    seen_bb = set()

    def add_operand(o):
        if o["k"] == "const":
            c = o["const"]
            res["consts"].add(c.get("v") or c["c"])
            if "named" in c:
                res["named"].add(c["named"])
            return
        if o["k"] in ("copy", "move"):
            add_place(o["pl"])

    def add_place(pl):
        l = pl["l"]
        names = tuple(e["n"] if e.get("n") is not None else str(e.get("f")) for e in pl["p"] if isinstance(e, dict) and "f" in e)
        for n in names:
            res["fields"].add(n)
        if names:
            res["roots"].add((l, names))
        for e in pl["p"]:
            if isinstance(e, dict) and "idx" in e:
                work.append(e["idx"])
        if self.is_arg(l):
            if self.kind == "closure" and l == 1 and names:
                res["upvars"].add(names[0])
            res["args"].add((l, names))
        # field-sensitive for locals that are only ever built by whole aggregates (tuples / structs)
        first = pl["p"][0] if pl["p"] else None
        if isinstance(first, dict) and "f" in first and not self.is_arg(l):
            ds = defs.get(l, [])
            # look through whole-value moves (`_a = move _b`), e.g. the return place of an inlined helper
            for _ in range(6):
                if len(ds) == 1 and ds[0][0] == "stmt" and ds[0][3]["k"] == "assign" and not ds[0][3]["pl"]["p"] and \
                        ds[0][3]["rv"]["k"] == "use" and ds[0][3]["rv"]["op"]["k"] in ("copy", "move") and \
                        not ds[0][3]["rv"]["op"]["pl"]["p"] and not self.is_arg(ds[0][3]["rv"]["op"]["pl"]["l"]):
                    add_bb_control(ds[0][1])
                    ds = defs.get(ds[0][3]["rv"]["op"]["pl"]["l"], [])
                else:
                    break
            if ds and all(d[0] == "stmt" and d[3]["k"] == "assign" and not d[3]["pl"]["p"] and d[3]["rv"]["k"] == "agg"
                          and len(d[3]["rv"]["ops"]) > first["f"] for d in ds):
                for d in ds:
                    add_operand(d[3]["rv"]["ops"][first["f"]])
                    add_bb_control(d[1])
                return
        work.append(l)

    def add_bb_control(bb):
        if not control or bb in seen_bb:
            return
        seen_bb.add(bb)
        for (a, _s) in self.control_deps_trans(bb):
            t = self.blocks[a]["term"]
            if t["k"] == "switch":
                add_operand(t["discr"])
                if "enum_place" in t:
                    add_place(t["enum_place"])

    for o in start_operands:
        add_operand(o)
    if start_bb is not None:
        add_bb_control(start_bb)
    while work:
        l = work.pop()
        if l in res["locals"]:
            continue
        res["locals"].add(l)
        for d in defs.get(l, []):
            if d[0] == "stmt":
                st = d[3]
                if st["k"] == "assign":
                    for o in _rvalue_operands(st["rv"]):
                        add_operand(o)
                add_bb_control(d[1])
            else:
                t = d[3]
                c = t["callee"]
                if "path" in c:
                    res["calls"].add(c["path"])
                    res["callees"].append(c)
                else:
                    add_operand(c["indirect"])
                for a in t["args"]:
                    add_operand(a)
                add_bb_control(d[1])
        if mut_flows:
            # writes through `&mut l` passed to calls: every other argument may flow into l
            for (bi, t) in self.mut_borrow_calls().get(l, []):
                c = t["callee"]
                if "path" in c:
                    res["calls"].add(c["path"])
                    res["callees"].append(c)
                for a in t["args"]:
                    add_operand(a)
                add_bb_control(bi)
    return res


Body.control_deps = _control_deps
Body.control_deps_trans = _control_deps_trans
Body.slice = _slice
Body.mut_borrow_calls = _mut_borrow_calls

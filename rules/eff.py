"""EFF: field-level read/write effects of calls, from the `&` / `&mut` parameter types of the (bodiless) Math trait
methods, propagated through workspace helper functions and trivial accessors."""
from .facts import path_ends, strip_generics, vt_walk, vt_str

_ACC = {}
_SUM = {}


def trait_sig(F, callee):
    """Declared parameter types of a trait method (by trait path + name)."""
    tr = callee.get("trait")
    if not tr:
        return None
    t = F.traits.get(strip_generics(tr)) or next((v for k, v in F.traits.items() if path_ends(strip_generics(tr), k) or path_ends(k, strip_generics(tr))), None)
    if not t:
        return None
    for it in t["items"]:
        if it["name"] == callee["name"] and it.get("inputs") is not None:
            return it["inputs"]
    return None


def accessor_alias(F, path):
    """If the workspace fn `path` just returns a reference to / copy of a field path of its first parameter, return the field tuple."""
    _ACC = F.__dict__.setdefault("_eff_acc", {})
    if path in _ACC:
        return _ACC[path]
    b = F.bodies.get(path)
    res = None
    if b is not None and b.arg_count >= 1 and len([1 for _ in b.calls()]) <= 1:
        ds = b.defs().get(0, [])
        if len(ds) == 1 and ds[0][0] == "stmt" and ds[0][3]["k"] == "assign":
            v = b.rvalue_value(ds[0][3]["rv"])
            r = _plain_place(v)
            if r and r[0] == ("arg", 1):
                res = r[1]
    _ACC[path] = res
    return res


def _plain_place(v):
    fields = []
    while True:
        if v[0] in ("ref", "deref", "cast"):
            v = v[1]
        elif v[0] == "field":
            fields.append(v[2])
            v = v[1]
        elif v[0] == "call" and strip_generics(v[1]).endswith(("Deref::deref", "DerefMut::deref_mut")):
            v = v[2][0]
        else:
            break
    if v[0] == "arg":
        return (("arg", v[1]), tuple(reversed(fields)))
    if v[0] == "local":
        return (("local", v[1]), tuple(reversed(fields)))
    if v[0] == "upvar":
        return (("upvar", v[1]), tuple(reversed(fields)))
    return None


def place_of(F, b, v, depth=0):
    """(root, fields) of a value tree, looking through refs, accessors, expect/unwrap and Deref."""
    fields = []
    while depth < 30:
        depth += 1
        k = v[0]
        if k in ("ref", "deref", "cast"):
            v = v[1]
        elif k == "field":
            fields.append(v[2])
            v = v[1]
        elif k == "downcast":
            v = v[1]
        elif k == "call":
            p = strip_generics(v[1])
            c = v[3]
            tgt = c.get("resolved") or c.get("path")
            if p.endswith(("Deref::deref", "DerefMut::deref_mut", "Result::expect", "Result::unwrap", "Option::unwrap", "Option::expect",
                           "Option::as_ref", "Option::as_mut", "AsRef::as_ref", "Borrow::borrow", "Clone::clone", "ManuallyDrop::deref")) and v[2]:
                v = v[2][0]
            elif p.endswith(("State::try_point_mut", "State::point")) and v[2]:
                fields.append("@point")
                v = v[2][0]
            elif p.endswith("Rc::get_mut") and v[2]:
                v = v[2][0]
            else:
                al = accessor_alias(F, tgt) if tgt in F.bodies else None
                if al is not None and v[2]:
                    fields.extend(reversed(al))
                    v = v[2][0]
                else:
                    return None
        else:
            break
    if v[0] == "arg":
        return (("arg", v[1]), tuple(reversed(fields)))
    if v[0] == "local":
        return (("local", v[1]), tuple(reversed(fields)))
    if v[0] == "upvar":
        return (("upvar", v[1]), tuple(reversed(fields)))
    return None


def scalar_values(b, a):
    """Value tree(s) of a scalar operand; a local assigned in 2..4 branches yields one alternative per branch."""
    v = b.value(a)
    if v[0] == "local":
        ds = b.defs().get(v[1], [])
        if 2 <= len(ds) <= 4 and all(d[0] == "stmt" and d[3]["k"] == "assign" and not d[3]["pl"]["p"] for d in ds):
            return [b.rvalue_value(d[3]["rv"]) for d in ds]
    return [v]


def call_effects(F, b, t, depth=0):
    """Effects of one call terminator: list of (mode, (root, fields), leaf_callee_name, scalar_args)

    mode 'W' for arguments bound to `&mut` vector-like parameters, 'R' for `&`.
    For workspace callees the callee's summary is instantiated at the call site."""
    c = t["callee"]
    out = []
    if "path" not in c:
        return out
    sig = trait_sig(F, c)
    tgt = c.get("resolved") or c["path"]
    if sig is not None and tgt not in F.bodies:
        scal = []
        for a, ty in zip(t["args"], sig):
            if ty in ("f64", "u64", "usize", "bool", "(f64, f64)", "std::option::Option<f64>"):
                scal += scalar_values(b, a)
        for i, (a, ty) in enumerate(zip(t["args"], sig)):
            if i == 0:
                continue
            if not ty.startswith("&"):
                continue
            if ty.startswith("&mut R") or ty == "&mut R":
                continue
            mode = "W" if ty.startswith("&mut") or ty.startswith("&'a mut") else "R"
            pl = place_of(F, b, b.value(a))
            out.append((mode, pl, c["name"], scal, i))
        return out
    if tgt in F.bodies and depth < 4:
        summ = fn_summary(F, tgt, depth + 1)
        argpl = [place_of(F, b, b.value(a)) for a in t["args"]]
        for (pi, mode, fields, leaf, scal, ai) in summ:
            if pi - 1 < len(argpl) and argpl[pi - 1] is not None:
                root, f0 = argpl[pi - 1]
                out.append((mode, (root, f0 + fields), leaf, scal, ai))
    return out


def fn_summary(F, path, depth=0):
    """[(param_index, mode, fields, leaf callee name, scalars, arg index)] for a workspace function."""
    _SUM = F.__dict__.setdefault("_eff_sum", {})
    if path in _SUM:
        return _SUM[path]
    _SUM[path] = []
    b = F.bodies.get(path)
    res = []
    if b is not None:
        for bb, t in b.calls():
            for (mode, pl, leaf, scal, ai) in call_effects(F, b, t, depth):
                if pl is None:
                    continue
                root, fields = pl
                if root[0] == "arg":
                    res.append((root[1], mode, fields, leaf, scal, ai))
        # direct field stores through parameters
        for bi, blk in enumerate(b.blocks):
            if blk["cleanup"]:
                continue
            for st in blk["stmts"]:
                if st["k"] == "assign" and st["pl"]["p"] and b.is_arg(st["pl"]["l"]):
                    fs = tuple(e["n"] for e in st["pl"]["p"] if isinstance(e, dict) and "f" in e and e.get("n"))
                    if fs:
                        res.append((st["pl"]["l"], "W", fs, "=", [b.rvalue_value(st["rv"])], -1))
    _SUM[path] = res
    return res


def reset():
    _ACC.clear()
    _SUM.clear()

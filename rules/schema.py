"""SCHEMA: reconstruct every `Storable` impl (derived or manual) from the HIR of its five functions.

An impl is read into
  names   : ordered entries  ('lit', name) | ('deleg', T)
  get_all : ordered entries  ('lit', name, value_node) | ('deleg', T, optional?)
  item_type / dims / event_dim : ordered arms ('lit', name, body) | ('deleg', T, fn) | ('wild', diverges)
Nothing here matches source text: literals come from `Lit` nodes, delegation targets from the resolved generic arguments
of `Storable::<fn>` paths, variants from resolved constructor paths.
"""
from .facts import path_ends, strip_generics, hir_walk, loc
from . import common as K

FNS = ("names", "item_type", "dims", "event_dim", "get_all")


class Impl:
    def __init__(self, rec):
        self.rec = rec
        self.self_ty = rec["self_ty"]
        self.path = rec["path"]
        self.fn = {}
        self.derived = bool(rec.get("derived")) or "Derive" in ((rec.get("span") or {}).get("macro") or "")
        self.problems = []


def storable_impls(F):
    out = []
    for i in F.impls:
        tr = i.get("trait")
        if not tr or not path_ends(tr, "Storable"):
            continue
        im = Impl(i)
        for it in i.get("items", []):
            b = F.bodies.get(it["path"])
            if b is not None and it["name"] in FNS:
                im.fn[it["name"]] = b
        out.append(im)
    return sorted(out, key=lambda x: x.path)


def _str_lits(n):
    return [x["lit"]["v"] for x in hir_walk(n) if x.get("k") == "Lit" and x["lit"]["lk"] == "str"]


def _storable_path(n, fn=None):
    """If node n is a Path resolving to `Storable::<fn>`, return (fn name, Self type)."""
    if n.get("k") != "Path":
        return None
    r = n.get("res", {})
    if r.get("trait") and path_ends(r["trait"], "Storable") and r.get("gargs"):
        if fn is None or r.get("name") == fn:
            return (r.get("name"), r["gargs"][0])
    return None


def _deleg_call(n, fn=None):
    """Call / MethodCall of a Storable function on another type -> (fn, T)."""
    n = K.peel(n)
    if n.get("k") == "Call":
        return _storable_path(K.peel(n["f"]), fn)
    if n.get("k") == "MethodCall":
        cal = n.get("callee") or ""
        if path_ends(cal, "Storable::" + (fn or n.get("method", ""))) or (fn is None and ".Storable::" in cal):
            g = n.get("gargs") or []
            return (n.get("method"), g[0] if g else None)
    return None


def names_entries(b):
    """Ordered entries of names(): the value the function returns, statement by statement."""
    out = []
    h = b.hir["value"]
    stmts = h.get("stmts", []) if h.get("k") == "Block" else []
    for st in stmts:
        e = st.get("e") if st.get("k") in ("Semi", "ExprStmt") else None
        if e is None:
            continue
        e = K.peel(e)
        if e.get("k") == "MethodCall" and e.get("method") in ("extend", "push", "extend_from_slice", "append"):
            arg = e["args"][0]
            d = None
            for x in hir_walk(arg):
                d = d or (_deleg_call(x, "names") if x.get("k") in ("Call", "MethodCall") else None)
            if d:
                out.append(("deleg", d[1]))
            else:
                for s in _str_lits(arg):
                    out.append(("lit", s))
    tail = h.get("expr") if h.get("k") == "Block" else h
    if tail is not None and not out:
        # `vec!["a", "b"]` as the whole body (manual impls)
        t = K.peel(tail)
        d = _deleg_call(t, "names") if t.get("k") in ("Call", "MethodCall") else None
        if d:
            out.append(("deleg", d[1]))
        else:
            for s in _str_lits(t):
                out.append(("lit", s))
    return out


def lookup_arms(b, fn):
    """Arms of the `match item {..}` of item_type / dims / event_dim. Returns (arms, whole_body_if_no_match)."""
    h = b.hir["value"]
    ms = [x for x in hir_walk(h) if x.get("k") == "Match" and x.get("src") == "Normal"]
    if not ms:
        return None, h
    m = ms[0]
    arms = []
    for a in m["arms"]:
        p = a["pat"]
        if p.get("k") == "PExpr" and p["e"].get("k") == "PLit" and p["e"]["lit"]["lk"] == "str":
            arms.append(("lit", p["e"]["lit"]["v"], a["body"]))
        elif p.get("k") == "Binding" and a.get("guard"):
            g = a["guard"]
            ty = None
            for x in hir_walk(g):
                d = _deleg_call(x, "names") if x.get("k") in ("Call", "MethodCall") else None
                if d:
                    ty = d[1]
            bd = None
            for x in hir_walk(a["body"]):
                d = _deleg_call(x, fn) if x.get("k") in ("Call", "MethodCall") else None
                if d:
                    bd = d[1]
            arms.append(("deleg", ty, bd))
        elif p.get("k") in ("Wild", "Binding"):
            div = any(x.get("k") in ("Call", "MethodCall") and "panic" in (K.callee_of(x) or "") for x in hir_walk(a["body"]))
            arms.append(("wild", div, a["body"]))
        elif p.get("k") == "Or":
            for q in p["pats"]:
                if q.get("k") == "PExpr" and q["e"].get("k") == "PLit":
                    arms.append(("lit", q["e"]["lit"]["v"], a["body"]))
        else:
            arms.append(("other", p.get("k"), a["body"]))
    return arms, None


def get_all_entries(b):
    out = []
    h = b.hir["value"]

    def visit_stmt_expr(e, optional=False):
        e = K.peel(e)
        k = e.get("k")
        if k == "MethodCall" and e.get("method") == "push":
            tup = K.peel(e["args"][0])
            if tup.get("k") == "Tup" and len(tup["es"]) == 2:
                ls = _str_lits(tup["es"][0])
                out.append(("lit", ls[0] if ls else None, tup["es"][1], optional))
            return
        if k == "MethodCall" and e.get("method") == "extend":
            d = None
            for x in hir_walk(e["args"][0]):
                d = d or (_deleg_call(x, "get_all") if x.get("k") in ("Call", "MethodCall") else None)
            out.append(("deleg", d[1] if d else None, e["args"][0], optional))
            return
        if k == "If":
            # `if let Some(inner) = &mut self.f { result.extend(inner.get_all(parent)) }` -> optional flattening
            for br in (e.get("then"), e.get("else")):
                if br is None:
                    continue
                brp = br
                for st in (brp.get("stmts", []) if brp.get("k") == "Block" else []):
                    if st.get("k") in ("Semi", "ExprStmt"):
                        visit_stmt_expr(st["e"], True)
                if brp.get("k") == "Block" and brp.get("expr"):
                    visit_stmt_expr(brp["expr"], True)
            return
        if k == "Block":
            for st in e.get("stmts", []):
                if st.get("k") in ("Semi", "ExprStmt"):
                    visit_stmt_expr(st["e"], optional)
            if e.get("expr"):
                visit_stmt_expr(e["expr"], optional)

    if h.get("k") == "Block":
        for st in h.get("stmts", []):
            if st.get("k") in ("Semi", "ExprStmt"):
                visit_stmt_expr(st["e"])
        tail = h.get("expr")
        if tail is not None and not out:
            # manual impl: `vec![("name", Some(Value::..))]`
            for t in [x for x in hir_walk(tail) if x.get("k") == "Tup" and len(x["es"]) == 2]:
                ls = _str_lits(t["es"][0])
                if ls:
                    out.append(("lit", ls[0], t["es"][1], False))
    return out


def value_variant(F, node):
    """Value variants an expression can construct: set of variant names (through `From<X> for Value` impls)."""
    out = set()
    for x in hir_walk(node):
        if x.get("k") != "Path":
            continue
        r = x.get("res", {})
        d = r.get("def", "")
        if r.get("enum") and _is_value(r["enum"]):
            out.add(r.get("name"))
        elif path_ends(d, "From::from") and r.get("gargs") and _is_value(r["gargs"][0]):
            v = from_table(F).get(r["gargs"][1])
            out.add(v or ("?from<%s>" % r["gargs"][1]))
        elif path_ends(d, "Into::into") and r.get("gargs") and len(r["gargs"]) > 1 and _is_value(r["gargs"][1]):
            v = from_table(F).get(r["gargs"][0])
            out.add(v or ("?into<%s>" % r["gargs"][0]))
    for x in hir_walk(node):
        if x.get("k") == "MethodCall" and x.get("method") == "into":
            g = x.get("gargs") or []
            if len(g) > 1 and _is_value(g[1]):
                v = from_table(F).get(g[0])
                out.add(v or ("?into<%s>" % g[0]))
    return out


def _is_value(p):
    return p in ("Value", "nuts_storable::Value")


def from_table(F):
    """source type -> Value variant, read from the bodies of `impl From<X> for Value`."""
    t = F.__dict__.get("_from_table")
    if t is not None:
        return t
    t = {}
    for i in F.impls:
        if i.get("trait") and path_ends(i["trait"], "From") and _is_value(i.get("self_ty") or ""):
            src = (i.get("trait_args") or [None, None])[1]
            for it in i.get("items", []):
                b = F.bodies.get(it["path"])
                if b is None:
                    continue
                for blk in b.blocks:
                    for st in blk["stmts"]:
                        if st["k"] == "assign" and st["rv"]["k"] == "agg" and st["rv"]["ak"] == "adt" and path_ends(st["rv"]["adt"], "Value"):
                            t[src] = st["rv"]["variant"]
    F.__dict__["_from_table"] = t
    return t


def item_type_variant(node):
    for x in hir_walk(node):
        if x.get("k") == "Path":
            r = x.get("res", {})
            if r.get("enum") and r["enum"] in ("ItemType", "nuts_storable::ItemType"):
                return r.get("name")
    return None


def dims_list(node):
    return _str_lits(node)


def event_of(node):
    """event_dim arm body: None | Some("name") -> (present, name)"""
    n = K.peel(node)
    ls = _str_lits(n)
    has_some = any(x.get("k") == "Path" and x.get("res", {}).get("name") == "Some" for x in hir_walk(n))
    has_none = any(x.get("k") == "Path" and x.get("res", {}).get("name") == "None" for x in hir_walk(n))
    if has_some and ls:
        return ls[0]
    if has_none:
        return None
    return "?"


def self_fields_read(node):
    out = []
    for x in hir_walk(node):
        if x.get("k") == "Field" and K.local_name(x["e"]) == "self":
            out.append(x["name"])
    return out


# admissible Value variants per declared ItemType (scalar, vector)
ADMISSIBLE = {
    "U64": ("ScalarU64", "U64"), "I64": ("ScalarI64", "I64"), "F64": ("ScalarF64", "F64"), "F32": ("ScalarF32", "F32"),
    "Bool": ("ScalarBool", "Bool"), "String": ("ScalarString", "Strings"),
    "DateTime64": (None, "DateTime64"), "TimeDelta64": (None, "TimeDelta64"),
}


def other_result_ops(b):
    """Method calls on the vector a names()/get_all() body returns, other than the appends the reconstruction understands
    (sort, reverse, dedup, retain, insert, swap ... would reorder or drop entries behind the reconstruction's back)."""
    h = b.hir["value"]
    if h.get("k") != "Block":
        return []
    res = K.local_id(h.get("expr")) if h.get("expr") is not None else None
    if res is None:
        return []
    out = []
    for x in hir_walk(h):
        if x.get("k") == "MethodCall" and K.local_id(x["recv"]) == res and x.get("method") not in ("extend", "push", "len", "extend_from_slice", "append", "reserve"):
            out.append(x.get("method"))
        if x.get("k") in ("Assign", "AssignOp") and K.local_id(x["l"]) == res:
            out.append("assign")
    return out

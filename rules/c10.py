"""C10 - parallel sampling is deterministic and independent of scheduling (structural clauses)."""
import re

from .facts import path_ends, loc, strip_generics, vt_walk, vt_str
from . import common as K
from . import eff as E
from . import inline as IN

LEVEL = ("Static structural conditions of schedule-independent determinism: no ambient source of nondeterminism (OS/thread RNG, entropy, "
         "wall clock, environment, thread identity, RandomState values, static mut / interior-mutable statics / thread locals) is called "
         "anywhere in the library; Instant readings flow only into ChainProgress.runtime and controller timing (R1); each chain's RNG is built "
         "in the spawning function from (seed, chain_id) alone with stream chain_id + c, c >= 1, the controller uses the same seed with a "
         "constant stream outside that image, every RNG-taking call in the worker gets that per-chain RNG, and every Settings::new_chain seeds "
         "the chain RNG from its rng argument only (R2); the worker closure captures only per-chain owned values, shared references to the "
         "Sync model/settings and the two per-chain Arc<Mutex<..>> created for this chain (R3); chains read no storage or progress state back "
         "(R5); every computed draw is recorded exactly once whatever the timing of pause/resume commands (R6, shared with C12-R2); the worker-thread count reaches nothing but the thread-pool size (R7). No order-sensitive iteration over default-hasher maps on the record / finalize / inspect paths (R4, shared with C14-R3): recorded values cannot depend on the per-process hash seed. Bit-identity of "
         "floating-point results as an observed fact is not decided."
         " Added: no order-dependent rayon operation (sum/reduce/fold/find_any/current_num_threads) in code reachable from a chain (R1)."
         " Added (round 4): no mutating Chain operation in the worker is conditional on storage / progress state (R9)."
         " Added (round 5): per-dimension event counts are combined by component-wise maxima over the chains (R10 = C15-R6 analysis); a first-wins insert keyed by a non-key component inside a hash-ordered loop is order-sensitive (R4).")
EXPLANATION = ("Who-may-call over every MIR call site of the library crates against a table of ambient nondeterminism sources, static-item inventory, "
               "value-provenance (def-use trees) of RNG constructors and stream selectors, closure-capture inventory by type class; each zero-expected "
               "matcher is exercised on the positive-control crate fixtures/positive on every run.")
TRUSTED = ["rustc nightly MIR + closure_captures", "nutsfacts extractor", "rules/c10.py", "rand: ChaCha8Rng streams with distinct stream ids are independent; seed_from_u64 is a pure function"]
TECHNIQUE = "static analysis: who-may-call table + static inventory + value provenance of RNG construction + closure-capture inventory"

# callee-path patterns (generic args stripped) that read ambient, run-dependent state
AMBIENT = [
    (r"(^|::)rand::rng$", "thread-local OS-seeded RNG"),
    (r"(^|::)rand::random(_\w+)?$", "thread-local OS-seeded RNG"),
    (r"thread_rng", "thread-local OS-seeded RNG"),
    (r"ThreadRng", "thread-local OS-seeded RNG"),
    (r"OsRng|SysRng|OsError", "OS entropy"),
    (r"from_os_rng|try_from_os_rng|from_entropy|make_rng", "OS entropy"),
    (r"getrandom", "OS entropy"),
    (r"SystemTime::now|SystemTime::elapsed|UNIX_EPOCH", "wall clock"),
    (r"RandomState::new|RandomState::default|DefaultHasher::new", "per-process random hash keys used as a value"),
    (r"std::env::(var|vars|var_os|args)", "process environment"),
    (r"std::process::id", "process id"),
    (r"std::thread::current|Thread::id|ThreadId|current_thread_index|rayon::current_num_threads", "thread identity / pool size"),
    (r"available_parallelism", "machine core count"),
]
CLOCK = re.compile(r"std::time::Instant::(now|elapsed)$")


# rayon operations whose result depends on how the work was split or which thread ran first (element-wise for_each / ordered collect do not)
PAR_ORDER_DEPENDENT = {"sum", "product", "reduce", "reduce_with", "try_reduce", "try_reduce_with", "fold", "fold_with", "try_fold", "try_fold_with",
                       "find_any", "position_any", "find_map_any", "current_num_threads", "current_thread_index", "max_num_threads"}


def ambient_calls(F):
    """[(body, bb, term, why)] for every call of an ambient source; clock calls separately."""
    amb, clock = [], []
    for b in F.bodies.values():
        for bb, t in b.calls():
            p = K.callee_path(t)
            if not p:
                continue
            hit = None
            for pat, why in AMBIENT:
                if re.search(pat, p):
                    hit = why
                    break
            if hit:
                # RandomState::new inside HashMap::new is not a call in *our* bodies; a direct call is
                amb.append((b, bb, t, hit))
            elif CLOCK.search(p):
                clock.append((b, bb, t))
    return amb, clock


def static_items(F):
    return [s for s in F.statics if s.get("mutable") or s.get("thread_local") or not s.get("freeze", True)]


def r1(F, R, P):
    R.rule("C10-R1", "no library function calls an ambient nondeterminism source (table AMBIENT), there is no static mut / interior-mutable static / "
                     "thread_local; Instant::now/elapsed occur only in the sampler's controller/wait code and in the worker, where the reading flows "
                     "only into ChainProgress::update's duration argument, which update() stores only in `runtime`")
    ncalls = 0
    for b in F.bodies.values():
        ncalls += sum(1 for _ in b.calls())
    amb, clock = ambient_calls(F)
    for (b, bb, t, why) in amb:
        R.bad("C10-R1", "%s:%s" % (b.path, K.callee_path(t)), "%s @%s" % (b.path, loc(t["span"])), "call of %s (%s)" % (K.callee_path(t), why))
    for s in static_items(F):
        R.bad("C10-R1", "static:%s" % s["path"], loc(s["span"]), "global mutable state: static %s: %s (mutable=%s thread_local=%s freeze=%s)" % (
            s["path"], s["ty"], s.get("mutable"), s.get("thread_local"), s.get("freeze")))
    R.ok("C10-R1", "scan", "library crates", "%d call sites and %d static items scanned against %d ambient-source patterns: %d hits" % (
        ncalls, len(F.statics), len(AMBIENT), len(amb) + len(static_items(F))))
    # clock readings
    worker = worker_body(F)
    cg = F.callgraph()
    roots = [x.path for nm in ("draw", "expanded_draw", "set_position") for x in F.trait_method_impls("chain::Chain", nm)]
    roots += [x.path for x in F.trait_method_impls("sampler::Settings", "new_chain")]
    for tr in ("ChainStorage", "TraceStorage", "StorageConfig"):
        roots += [x.path for x in F.bodies.values() if x.parent.get("trait") and path_ends(x.parent["trait"], tr)]
    chain_reach = cg.reachable(roots)
    if worker is not None:
        # helpers called by the worker (other than through the roots above) count as chain code too
        chain_reach |= cg.reachable([worker.path]) - {worker.path}
    clock_w = []
    if worker is not None:
        for bb, t in worker.calls():
            if CLOCK.search(K.callee_path(t)):
                clock_w.append((worker, bb, t))
    clock = [(b, bb, t) for (b, bb, t) in clock if not (worker is not None and b.path == worker.path)] + clock_w
    for (b, bb, t) in clock:
        p = K.callee_path(t)
        site = "%s @%s" % (b.path, loc(t["span"]))
        key = "%s:%s" % (b.path, p.split("::")[-1])
        if b.path in chain_reach and not (worker is not None and b.path == worker.path):
            R.bad("C10-R1", key, site, "clock read in code reachable from a chain / storage / new_chain (%s): a wall-clock value can influence what is sampled or recorded" % p)
            continue
        if worker is not None and b.path == worker.path:
            if p.endswith("::now"):
                # every use of the Instant local must be `Instant::elapsed(&now)`
                l = t["dest"]["l"]
                uses = local_uses(b, l)
                badu = [u for u in uses if not (u[0] == "call" and K.callee_path(u[2]).endswith("Instant::elapsed"))]
                if badu:
                    R.bad("C10-R1", key, site, "Instant reading in the worker is used by something other than elapsed(): %s" % badu[:2])
                else:
                    R.ok("C10-R1", key, site, "worker Instant::now() is only read by elapsed()")
            else:
                l = t["dest"]["l"]
                uses = local_uses(b, l)
                okk = uses and all(u[0] == "call" and path_ends(K.callee_path(u[2]), "ChainProgress::update") for u in uses)
                if okk:
                    R.ok("C10-R1", key, site, "elapsed() flows only into ChainProgress::update")
                else:
                    R.bad("C10-R1", key, site, "elapsed time in the worker flows into %s (may influence recorded values)" % (
                        [K.callee_path(u[2]) if u[0] == "call" else u[0] for u in uses][:3]))
        else:
            # controller / Sampler methods: timing of callbacks and timeouts only; must not be a chain or storage body
            okb = b.path not in chain_reach
            if okb:
                R.ok("C10-R1", key, site, "controller-side timing (progress callback / timeouts)")
            else:
                R.bad("C10-R1", key, site, "clock read in %s, which is neither the controller nor the worker accounting" % b.path)
    # work sharing inside chain code: a rayon call below Chain::draw / the math kernels splits and reduces in an order that depends on the size
    # of the thread pool and on work stealing (floating-point sums are not associative), so the draws would depend on num_cores
    npar = 0
    for pth in sorted(chain_reach):
        cb = F.bodies.get(pth)
        if cb is None or (worker is not None and cb.path == worker.path):
            continue
        for cbody in [cb] + K.all_closures_of(F, cb.path):
            for bb, t in cbody.calls():
                c = t["callee"]
                kr = str(c.get("krate") or "")
                pp = strip_generics(c.get("path") or "")
                if (kr.startswith("rayon") or pp.startswith(("rayon::", "rayon_core::"))) and pp.split("::")[-1] in PAR_ORDER_DEPENDENT:
                    npar += 1
                    R.bad("C10-R1", "%s:rayon:%s" % (cbody.path, pp.split("::")[-1]), "%s @%s" % (cbody.path, loc(t["span"])),
                          "chain code calls %s: the split and the order of the reduction depend on the thread pool, the result is not a function of seed and chain index alone" % pp)
    R.ok("C10-R1", "chain-code-sequential", "chain-reachable code", "%d functions reachable from a chain scanned: %d thread-pool calls" % (len(chain_reach), npar))
    # ChainProgress::update stores the duration only in `runtime`
    upd = [b for b in F.inherent_methods("ChainProgress", "update")]
    if not upd:
        R.missing("C10-R1", "ChainProgress::update")
    for b in upd:
        dur = [i for i in range(1, b.arg_count + 1) if "Duration" in b.local_ty(i)]
        wrote = set()
        for bi, blk in enumerate(b.blocks):
            if blk["cleanup"]:
                continue
            stmts = [st for st in blk["stmts"] if st["k"] == "assign"]
            for st in stmts:
                fs = [e["n"] for e in st["pl"]["p"] if isinstance(e, dict) and "f" in e and e.get("n")]
                if not fs:
                    continue
                sl = b.slice(E_ops(st["rv"]), control=False)
                if any(a[0] in dur for a in sl["args"]):
                    wrote.add(fs[-1] if fs[-1] not in ("0", "1") else fs[0])
            t = blk["term"]
            if t["k"] == "call":
                sl = b.slice(t["args"], control=False)
                if any(a[0] in dur for a in sl["args"]):
                    for a in t["args"]:
                        v = b.value(a)
                        for n in vt_walk(v):
                            if n[0] == "field":
                                wrote.add(n[2])
        wrote.discard("0")
        if wrote <= {"runtime"} and wrote:
            R.ok("C10-R1", "ChainProgress::update:duration", "%s @%s" % (b.path, b.loc()), "duration argument reaches only field `runtime`")
        else:
            R.bad("C10-R1", "ChainProgress::update:duration", "%s @%s" % (b.path, b.loc()), "duration argument reaches fields %s (expected only runtime)" % sorted(wrote))
    # positive control
    pamb, pclock = ambient_calls(P)
    pst = static_items(P)
    need = {"c10_clock_seed", "c10_random_state", "c10_thread_id", "c10_env"}
    got = {b.path.split("::")[-1] for (b, _bb, _t, _w) in pamb}
    if not need <= got or len(pst) < 3 or not any(b.path.endswith("c10_instant_into_value") for (b, _bb, _t) in pclock):
        R.bad("C10-R1", "positive-control", "fixtures/positive", "matcher failed to report planted constructs: calls %s (need %s), statics %d (need >=3)" % (sorted(got), sorted(need), len(pst)))
    else:
        R.ok("C10-R1", "positive-control", "fixtures/positive", "matcher reports the %d planted ambient calls, %d planted statics and the planted clock read" % (len(pamb), len(pst)))
    R.floor("C10-R1", 5)


def E_ops(rv):
    from .facts import _rvalue_operands
    return _rvalue_operands(rv)


def local_uses(b, l):
    """Uses of local l (whole or projected, through `&l` temporaries one level): [('call', bb, term) | ('stmt', bb, stmt)]."""
    out = []
    alias = {l}
    changed = True
    while changed:
        changed = False
        for bi, blk in enumerate(b.blocks):
            for st in blk["stmts"]:
                if st["k"] == "assign" and not st["pl"]["p"] and st["pl"]["l"] not in alias and not b.local_name(st["pl"]["l"]):
                    rv = st["rv"]
                    src = None
                    if rv["k"] in ("ref", "rawptr"):
                        src = rv["pl"]["l"]
                    elif rv["k"] == "use" and rv["op"]["k"] in ("copy", "move"):
                        src = rv["op"]["pl"]["l"]
                    if src in alias:
                        alias.add(st["pl"]["l"])
                        changed = True
    for bi, blk in enumerate(b.blocks):
        if blk["cleanup"]:
            continue
        for st in blk["stmts"]:
            if st["k"] != "assign":
                continue
            if st["pl"]["l"] in alias and not st["pl"]["p"]:
                continue
            from .facts import _rvalue_operands, _operand_locals
            ls = []
            for o in _rvalue_operands(st["rv"]):
                ls += _operand_locals(o)
            if any(x in alias for x in ls):
                out.append(("stmt", bi, st))
        t = blk["term"]
        if t["k"] == "call":
            from .facts import _operand_locals
            ls = []
            for a in t["args"]:
                ls += _operand_locals(a)
            if any(x in alias for x in ls):
                out.append(("call", bi, t))
        elif t["k"] == "switch":
            from .facts import _operand_locals
            if any(x in alias for x in _operand_locals(t["discr"])):
                out.append(("switch", bi, t))
    return out


# ---------------------------------------------------------------------------------------------
def spawn_fn(F):
    """The function that hands the worker closure to rayon (`ScopeFifo::spawn_fifo`)."""
    c = [b for b in F.bodies.values() if b.kind != "closure" and b.calls_to(lambda c: path_ends(c["path"], "ScopeFifo::spawn_fifo"))]
    return c[0] if len(c) == 1 else None


def draw_methods(F):
    """Names of the methods of trait chain::Chain that produce a draw (their result carries the Progress of the draw): draw, expanded_draw today."""
    cache = F.__dict__.setdefault("_draw_methods", {})
    if "m" not in cache:
        names = set()
        for p_, t in F.traits.items():
            if path_ends(p_, "chain::Chain"):
                for it in t.get("items", []):
                    if it.get("inputs") is not None and "Progress" in str(it.get("output") or ""):
                        names.add(it["name"])
        cache["m"] = names or {"draw", "expanded_draw"}
    return cache["m"]


def is_draw_call(F, c):
    return any(path_ends(c.get("path", ""), "Chain::" + n) for n in draw_methods(F))


def worker_body(F):
    """The closure (nested in the spawning function) that runs the draw loop."""
    s = spawn_fn(F)
    if s is None:
        return None
    cache = F.__dict__.setdefault("_worker_body", {})
    if "w" not in cache:
        c = []
        for b in K.all_closures_of(F, s.path):
            ib = IN.inlined(F, b, IN.sampler_helper)
            if ib.calls_to(lambda c: is_draw_call(F, c)):
                c.append(ib)
        cache["w"] = c[0] if len(c) == 1 else None
    return cache["w"]


def controller_scope(F):
    """The closure that creates the trace and starts the chains (calls StorageConfig::new_trace)."""
    c = [b for b in F.bodies.values() if b.kind == "closure" and b.path.startswith("sampler::") and
         b.calls_to(lambda c: path_ends(c["path"], "StorageConfig::new_trace"))]
    return IN.inlined(F, c[0], IN.sampler_helper) if len(c) == 1 else None


def rng_ctor_calls(b):
    out = []
    for bb, t in b.calls():
        p = K.callee_path(t)
        if re.search(r"SeedableRng::(seed_from_u64|from_seed|from_rng|try_from_rng|from_os_rng|try_from_os_rng|fork)|ChaCha\d+Rng::(new|from)|StdRng|SmallRng", p):
            out.append((bb, t))
    return out


def _resolve_fields(v):
    """`(Struct { a: x, .. }).a` -> x, through refs/derefs (a value passed to a function as a field of a parameter struct)."""
    if not isinstance(v, tuple):
        return v
    if v[0] == "field":
        base = _resolve_fields(v[1])
        b0 = base
        while b0[0] in ("ref", "deref"):
            b0 = b0[1]
        if b0[0] == "agg" and len(b0) > 3 and isinstance(b0[3], list) and v[2] in b0[3]:
            return _resolve_fields(b0[2][b0[3].index(v[2])])
        return ("field", base) + tuple(v[2:])
    if v[0] in ("ref", "deref", "cast"):
        return (v[0], _resolve_fields(v[1])) + tuple(v[2:])
    return v


def r2(F, R):
    R.rule("C10-R2", "the per-chain RNG is seed_from_u64(seed parameter) with set_stream(chain_id + c), c >= 1 constant, built in the spawning function "
                     "and moved into the worker; the controller RNG uses the same seed and a constant stream not of that form; start() receives "
                     "settings.seed() and the distinct loop index as chain id; every RNG-taking call of the worker gets `&mut` that RNG; every "
                     "Settings::new_chain seeds the chain RNG by try_from_rng(rng argument) and constructs no other RNG")
    s = spawn_fn(F)
    if s is None:
        R.missing("C10-R2", "function calling ScopeFifo::spawn_fifo")
        return
    site = "%s @%s" % (s.path, s.loc())
    ctors = rng_ctor_calls(s)
    streams = s.calls_to(lambda c: c.get("name") == "set_stream")
    c_off = None
    seed_tree = None     # the seed of the chain RNG, as a tree over the spawning function's parameters
    cid_tree = None      # the chain-dependent summand of the stream selector, likewise
    if len(ctors) != 1:
        R.bad("C10-R2", s.path + ":rng-ctor", site, "expected exactly one RNG construction in the spawning function, found %d" % len(ctors))
    else:
        bb, t = ctors[0]
        v = [s.value(a) for a in t["args"]]
        if t["callee"]["name"] == "seed_from_u64" and len(v) == 1 and v[0][0] == "arg":
            seed_tree = v[0]
            R.ok("C10-R2", s.path + ":rng-ctor", "%s @%s" % (s.path, loc(t["span"])), "rng = seed_from_u64(parameter `%s`)" % v[0][2])
        elif t["callee"]["name"] == "seed_from_u64" and len(v) == 1 and v[0][0] == "call" and path_ends(v[0][1], "Settings::seed"):
            seed_tree = v[0]
            R.ok("C10-R2", s.path + ":rng-ctor", "%s @%s" % (s.path, loc(t["span"])), "rng = seed_from_u64(settings.seed())")
        else:
            R.bad("C10-R2", s.path + ":rng-ctor", "%s @%s" % (s.path, loc(t["span"])), "per-chain RNG is not seed_from_u64(seed): %s(%s)" % (
                t["callee"]["name"], ", ".join(vt_str(x) for x in v)))
    if len(streams) != 1:
        R.bad("C10-R2", s.path + ":stream", site, "expected exactly one set_stream call, found %d" % len(streams))
    else:
        bb, t = streams[0]
        v = s.value(t["args"][1])
        ok = False
        if v[0] == "field" and v[1][0] == "bin" and v[1][1] in ("AddWithOverflow", "Add"):
            v = v[1]
        if v[0] == "bin" and v[1] in ("AddWithOverflow", "Add"):
            a, c = v[2], v[3]
            if c[0] != "const":
                a, c = c, a
            a_root = a
            while a_root[0] in ("field", "deref", "ref", "cast"):
                a_root = a_root[1]
            if a_root[0] == "arg" and c[0] == "const":
                # a parameter, or a field of a parameter (`spec.chain_id`); what it is bound to is judged at the call of start()
                cid_tree = a
                try:
                    c_off = int(c[2])
                except (TypeError, ValueError):
                    c_off = None
                ok = c_off is not None and c_off >= 1
        rcv = s.value(t["args"][0])
        same_rng = ctors and any(n[0] == "call" and n[1].endswith("seed_from_u64") for n in vt_walk(rcv))
        if ok and same_rng:
            R.ok("C10-R2", s.path + ":stream", "%s @%s" % (s.path, loc(t["span"])), "stream = chain_id + %d on the seeded RNG" % c_off)
        else:
            R.bad("C10-R2", s.path + ":stream", "%s @%s" % (s.path, loc(t["span"])), "stream selector is %s on %s; expected chain_id + c (c >= 1) on the seeded RNG "
                  "(a constant or chain-independent stream makes chains identical)" % (vt_str(s.value(t["args"][1])), vt_str(rcv)))
        # stream selection must dominate the spawn
        sp = s.calls_to(lambda c: path_ends(c["path"], "ScopeFifo::spawn_fifo"))
        if sp and not s.dominates(bb, sp[0][0]):
            R.bad("C10-R2", s.path + ":stream-order", site, "set_stream does not dominate spawn_fifo")
    # the rng moved into the worker is that local
    w = worker_body(F)
    if w is None:
        R.missing("C10-R2", "worker closure (calls Chain::expanded_draw)")
        return
    rng_caps = [c for c in w.captures if "Rng" in c["ty"]]
    if len(rng_caps) == 1 and rng_caps[0]["by"] == "ByValue" and not rng_caps[0]["ty"].startswith("&"):
        R.ok("C10-R2", w.path + ":rng-capture", "%s @%s" % (w.path, w.loc()), "worker owns its RNG (%s captured by value)" % rng_caps[0]["ty"])
    else:
        R.bad("C10-R2", w.path + ":rng-capture", "%s @%s" % (w.path, w.loc()), "worker RNG captures: %s (expected exactly one owned RNG)" % rng_caps)
    rng_name = rng_caps[0]["var"] if rng_caps else "rng"
    # RNG-taking calls in the worker (and its nested closures)
    n_rng_calls = 0
    for wb in [w] + K.all_closures_of(F, w.path):
        for bb, t in wb.calls():
            sig = E.trait_sig(F, t["callee"])
            if not sig:
                continue
            for i, ty in enumerate(sig):
                if ty.replace(" ", "") in ("&mutR",) and i < len(t["args"]):
                    n_rng_calls += 1
                    v = wb.value(t["args"][i])
                    key = "%s:%s#rng" % (wb.path, t["callee"]["name"])
                    st = "%s @%s" % (wb.path, loc(t["span"]))
                    base = v
                    while base[0] in ("ref", "deref"):
                        base = base[1]
                    if base == ("upvar", rng_name):
                        R.ok("C10-R2", key, st, "%s gets &mut of the chain's own RNG" % t["callee"]["name"])
                    else:
                        R.bad("C10-R2", key, st, "%s gets RNG %s instead of the chain's own RNG" % (t["callee"]["name"], vt_str(v)))
        if rng_ctor_calls(wb):
            R.bad("C10-R2", wb.path + ":extra-rng", wb.path, "worker constructs another RNG: %s" % [K.callee_path(t) for _b, t in rng_ctor_calls(wb)])
    if n_rng_calls < 3:
        R.bad("C10-R2", w.path + ":rng-calls", w.path, "expected >= 3 RNG-taking calls in the worker (math, new_chain, init_position), found %d" % n_rng_calls)
    # controller
    cs = controller_scope(F)
    if cs is None:
        R.missing("C10-R2", "controller scope closure (calls StorageConfig::new_trace)")
    else:
        ct = rng_ctor_calls(cs)
        st_ = cs.calls_to(lambda c: c.get("name") == "set_stream")
        okc = len(ct) == 1 and len(st_) == 1
        if okc:
            v = cs.value(ct[0][1]["args"][0])
            sv = cs.value(st_[0][1]["args"][1])
            seed_ok = v[0] == "call" and path_ends(v[1], "Settings::seed")
            stream_ok = sv[0] == "const" and c_off is not None and int(sv[2]) < c_off
            if seed_ok and stream_ok:
                R.ok("C10-R2", cs.path + ":controller-rng", "%s @%s" % (cs.path, loc(ct[0][1]["span"])),
                     "controller RNG = seed_from_u64(settings.seed()), stream %s < %d = smallest chain stream" % (sv[2], c_off))
            else:
                R.bad("C10-R2", cs.path + ":controller-rng", "%s @%s" % (cs.path, loc(ct[0][1]["span"])),
                      "controller RNG seed=%s stream=%s collides with or is unrelated to the chain streams chain_id + %s" % (vt_str(v), vt_str(sv), c_off))
        else:
            R.bad("C10-R2", cs.path + ":controller-rng", cs.path, "expected one RNG construction and one set_stream in the controller, found %d/%d" % (len(ct), len(st_)))
        starts = cs.calls_to(lambda c: path_ends(c["path"], "ChainProcess::start"))
        if not starts:
            R.missing("C10-R2", "call of ChainProcess::start")
        from .c02 import subst_args
        for bb, t in starts:
            argvals = [cs.value(a) for a in t["args"]]
            st = "%s @%s" % (cs.path, loc(t["span"]))
            sv = subst_args(seed_tree, argvals) if seed_tree is not None else None
            if sv and sv[0] == "call" and path_ends(sv[1], "Settings::seed"):
                R.ok("C10-R2", cs.path + ":start.seed", st, "the chain RNG is seeded with settings.seed()")
            else:
                R.bad("C10-R2", cs.path + ":start.seed", st, "the chain RNG is seeded with %s, not settings.seed()" % (vt_str(sv) if sv else None))
            cv = _resolve_fields(subst_args(cid_tree, argvals)) if cid_tree is not None else None
            it = cv and any(n[0] == "call" and n[1].endswith("::next") for n in vt_walk(cv)) and any(n[0] == "agg" and "Range" in str(n[1]) for n in vt_walk(cv))
            if it:
                R.ok("C10-R2", cs.path + ":start.chain_id", st, "chain_id = item of a Range iteration (distinct per chain)")
            else:
                R.bad("C10-R2", cs.path + ":start.chain_id", st, "chain_id argument is %s, not the distinct loop index" % (vt_str(cv) if cv else None))
    # new_chain impls
    ncs = F.trait_method_impls("sampler::Settings", "new_chain")
    for b in ncs:
        ct = []
        for nb in [b] + K.all_closures_of(F, b.path):
            ct += [(nb, bb, t) for bb, t in rng_ctor_calls(nb)]
        key = b.path + ":chain-rng"
        st = "%s @%s" % (b.path, b.loc())
        if len(ct) == 1 and ct[0][2]["callee"]["name"] == "try_from_rng":
            v = ct[0][0].value(ct[0][2]["args"][0])
            base = v
            while base[0] in ("ref", "deref"):
                base = base[1]
            if base[0] == "arg" and "R" in b.local_ty(base[1]):
                R.ok("C10-R2", key, st, "chain RNG = try_from_rng(rng argument)")
                continue
        R.bad("C10-R2", key, st, "chain RNG construction: %s" % [(K.callee_path(t), [vt_str(nb.value(a)) for a in t["args"]]) for nb, _bb, t in ct])
    if len(ncs) < 6:
        R.missing("C10-R2", "impl Settings::new_chain (found %d, expected 6)" % len(ncs))
    R.floor("C10-R2", 14)


CAP_OK = [
    (r"^&[A-Z]\w*$", "shared reference to a Sync generic (model / settings)"),
    (r"^(u64|usize|u32|i64|bool|f64)$", "owned scalar"),
    (r"^rand::rngs::ChaCha\d+Rng$", "owned RNG"),
    (r"^std::sync::mpsc::Receiver<sampler::ChainCommand>$", "owned mailbox receiver"),
    (r"^std::sync::mpsc::Sender<std::result::Result<\(\), anyhow::Error>>$", "owned result sender"),
    (r"^std::sync::Arc<std::sync::Mutex<std::option::Option<<T as storage::core::TraceStorage>::ChainStorage>>>$", "per-chain trace slot"),
    (r"^std::sync::Arc<std::sync::Mutex<sampler::ChainProgress>>$", "per-chain progress"),
]


def r3(F, R):
    R.rule("C10-R3", "capture inventory of the closure given to spawn_fifo and of its nested closures: only per-chain owned values, shared references "
                     "to the Sync model/settings, and the two per-chain Arc<Mutex<..>> which are created (Arc::new) in the spawning function itself")
    s = spawn_fn(F)
    if s is None:
        R.missing("C10-R3", "function calling ScopeFifo::spawn_fifo")
        return
    sp = s.calls_to(lambda c: path_ends(c["path"], "ScopeFifo::spawn_fifo"))[0]
    top = sp[1]["callee"].get("closures", [])
    if len(top) != 1 or top[0] not in F.bodies:
        R.missing("C10-R3", "closure argument of spawn_fifo")
        return
    tb = F.bodies[top[0]]
    for cb in [tb] + K.all_closures_of(F, tb.path):
        for c in cb.captures:
            key = "%s:%s" % (cb.path, c["var"])
            site = "%s @%s" % (cb.path, cb.loc())
            cls = None
            for pat, what in CAP_OK:
                if re.match(pat, c["ty"]):
                    cls = what
                    break
            if c["by"] != "ByValue" and not cls:
                cls = None
            if cls is None and cb.path != tb.path:
                # a nested closure capturing a variable that its enclosing closure *declares* (not one the enclosing closure captured itself):
                # state local to this worker invocation, i.e. to this chain
                parent_path = cb.path[:cb.path.rindex("::{closure")]
                pb = F.bodies.get(parent_path)
                if pb is not None and c["var"] not in {pc["var"] for pc in pb.captures} and any(l.get("name") == c["var"] for l in pb.locals[pb.arg_count + 1:]):
                    cls = "variable declared inside the worker (per chain)"
            if cls is None:
                R.bad("C10-R3", key, site, "capture `%s: %s` (%s) is not in the allowed classes (shared mutable state between chains?)" % (c["var"], c["ty"], c["by"]))
            elif c["by"] != "ByValue" and not c["ty"].startswith("&"):
                # by-reference capture of an owned thing of an enclosing closure: fine only inside nested closures of the worker
                if cb.path == tb.path:
                    R.bad("C10-R3", key, site, "top-level worker closure borrows `%s` from the spawning frame" % c["var"])
                else:
                    R.ok("C10-R3", key, site, "%s (borrowed from the enclosing worker closure)" % cls)
            else:
                R.ok("C10-R3", key, site, cls)
    # the Arc captures are created in the spawning function for this chain only
    agg = s.value(sp[1]["args"][1])
    n_arc = 0
    if agg[0] == "agg":
        for v in agg[2]:
            if v[0] == "call" and v[1].endswith("Clone::clone"):
                inner = v[2][0]
                while inner[0] in ("ref", "deref"):
                    inner = inner[1]
                if inner[0] == "call" and strip_generics(inner[1]).endswith("Arc::new"):
                    n_arc += 1
                    R.ok("C10-R3", s.path + ":arc#%d" % n_arc, "%s @%s" % (s.path, s.loc()), "captured Arc is a clone of an Arc::new(..) made in this call of the spawning function")
                else:
                    R.bad("C10-R3", s.path + ":arc#%d" % n_arc, "%s @%s" % (s.path, s.loc()), "captured Arc is a clone of %s (not created per chain)" % vt_str(inner))
            elif "Arc" in vt_str(v) and not (v[0] == "call" and v[1].endswith("Clone::clone")):
                R.bad("C10-R3", s.path + ":arc-other", "%s @%s" % (s.path, s.loc()), "captured shared pointer %s" % vt_str(v))
    if n_arc != 2:
        R.bad("C10-R3", s.path + ":arc-count", s.path, "expected 2 per-chain Arc captures, found %d" % n_arc)
    R.floor("C10-R3", 10)


def r5(F, R):
    R.rule("C10-R5", "nothing flows back from shared state into the chain: in the worker, the values read under the trace / progress guards are used only "
                     "as receivers of record_sample / update / `started = true` (no read of ChainProgress or storage feeds the sampler or the RNG)")
    w = worker_body(F)
    if w is None:
        R.missing("C10-R5", "worker closure")
        return
    # every call whose receiver derives from a MutexGuard must be one of the allowed sinks
    allowed = ("ChainStorage::record_sample", "ChainProgress::update")
    n = 0
    for bb, t in w.calls():
        p = K.callee_path(t)
        if not t["args"]:
            continue
        v0 = w.value(t["args"][0])
        from_guard = any(nn[0] == "call" and strip_generics(nn[1]).endswith("Mutex::lock") for nn in vt_walk(v0))
        if not from_guard or t["callee"].get("krate") not in ("nuts_rs", "nuts_storable"):
            continue
        n += 1
        key = "%s:%s" % (w.path, p.split("::")[-1])
        site = "%s @%s" % (w.path, loc(t["span"]))
        if any(p.endswith(a) for a in allowed):
            R.ok("C10-R5", key, site, "guarded value used by %s" % p.split("::")[-1])
        else:
            R.bad("C10-R5", key, site, "value read under a shared guard is passed to %s" % p)
    # calls on the sampler must not take arguments derived from guards / progress
    for bb, t in w.calls():
        p = K.callee_path(t)
        if path_ends(p, "Chain::expanded_draw") or path_ends(p, "Chain::set_position") or path_ends(p, "Settings::new_chain"):
            sl = w.slice(t["args"][1:] if len(t["args"]) > 1 else [], control=False)
            badc = [c for c in sl["calls"] if strip_generics(c).endswith("Mutex::lock")]
            key = "%s:%s:args" % (w.path, p.split("::")[-1])
            if badc:
                R.bad("C10-R5", key, "%s @%s" % (w.path, loc(t["span"])), "argument of %s derives from shared guarded state" % p)
            else:
                R.ok("C10-R5", key, "%s @%s" % (w.path, loc(t["span"])), "arguments of %s do not derive from shared state" % p.split("::")[-1])
    R.floor("C10-R5", 5)


def _param_outside_pool(n, pname, is_root, argi):
    """does the thread-count parameter occur in value tree n outside a ThreadPoolBuilder::num_threads(..) sub-tree?"""
    if not isinstance(n, tuple):
        return False
    if n[0] == "call" and strip_generics(n[1]).endswith("ThreadPoolBuilder::num_threads"):
        return False
    if (n[0] == "upvar" and n[1] == pname) or (n[0] == "arg" and is_root and n[1] == argi):
        return True
    for y in n[1:]:
        if isinstance(y, tuple) and _param_outside_pool(y, pname, is_root, argi):
            return True
        if isinstance(y, list) and any(_param_outside_pool(z, pname, is_root, argi) for z in y):
            return True
    return False


def r7(F, R):
    R.rule("C10-R7", "the number of worker threads influences nothing but the size of the thread pool: the `num_cores` parameter of Sampler::new is used only to "
                     "compute the argument of ThreadPoolBuilder::num_threads")
    bs = F.inherent_methods("sampler::Sampler", "new")
    if len(bs) != 1:
        R.missing("C10-R7", "Sampler::new")
        return
    b = bs[0]
    idx = [i for i in range(1, b.arg_count + 1) if b.local_name(i) == "num_cores" or (b.local_ty(i) == "usize" and i == 4)]
    if not idx:
        R.missing("C10-R7", "usize thread-count parameter of Sampler::new")
        return
    pname = b.local_name(idx[0])
    bodies = [b] + K.all_closures_of(F, b.path)
    uses = []
    for x in bodies:
        for bb, t in x.calls():
            for ai, a in enumerate(t["args"]):
                v = x.value(a)
                if any((n[0] == "upvar" and n[1] == pname) or (x.path == b.path and n[0] == "arg" and n[1] == idx[0]) for n in vt_walk(v)):
                    uses.append((x, t, ai))
        for bi, blk in enumerate(x.blocks):
            tt = blk["term"]
            if tt["k"] == "switch":
                v = x.value(tt["discr"])
                if _param_outside_pool(v, pname, x.path == b.path, idx[0]):
                    uses.append((x, tt, -1))
    badu = []
    good = 0
    for (x, t, ai) in uses:
        if ai == -1:
            badu.append("%s branches on it" % x.path)
            continue
        nm = strip_generics(t["callee"].get("path", ""))
        v = x.value(t["args"][ai])

        def outside(n, inside=False):
            """does the parameter occur outside a num_threads(..) sub-tree?"""
            if not isinstance(n, tuple):
                return False
            if n[0] == "call" and strip_generics(n[1]).endswith("ThreadPoolBuilder::num_threads"):
                return False
            if (n[0] == "upvar" and n[1] == pname) or (n[0] == "arg" and x.path == b.path and n[1] == idx[0]):
                return True
            for y in n[1:]:
                if isinstance(y, tuple) and outside(y):
                    return True
                if isinstance(y, list) and any(outside(z) for z in y):
                    return True
            return False
        if nm.endswith("ThreadPoolBuilder::num_threads"):
            good += 1
        elif not outside(v):
            continue    # the builder object that already received num_threads(..)
        elif t["callee"].get("closures") and x.path == b.path:
            continue    # moved into the controller closure
        else:
            badu.append("%s passes it to %s" % (x.path.split("::")[-1], nm))
    site = "%s @%s" % (b.path, b.loc())
    if good >= 1 and not badu:
        R.ok("C10-R7", b.path + ":num_cores", site, "`%s` reaches only ThreadPoolBuilder::num_threads (%d use)" % (pname, good))
    else:
        R.bad("C10-R7", b.path + ":num_cores", site, "the worker-thread count `%s` is also used elsewhere: %s - results may depend on the number of threads" % (pname, badu))


def r9(F, R):
    R.rule("C10-R9", "what a chain computes does not depend on where its draws go: in the worker, no operation on the chain object (a method of trait Chain on the "
                     "sampler: it may consume the chain's random stream) is executed or skipped depending on a value obtained from the storage, the trace slot or "
                     "the progress - within one iteration the conditions on the way to such a call read only the mailbox and the chain's own results")
    w = worker_body(F)
    if w is None:
        R.missing("C10-R9", "worker closure")
        return
    loops = w.natural_loops()
    mutating = set()
    for p_, tr in F.traits.items():
        if path_ends(p_, "chain::Chain"):
            mutating |= {it["name"] for it in tr.get("items", []) if it.get("inputs") and str(it["inputs"][0]).startswith("&mut")}
    chain_calls = [(bb, t) for bb, t in w.calls() if t["callee"].get("trait") and path_ends(t["callee"]["trait"], "chain::Chain") and t["callee"].get("name") in mutating]
    if not chain_calls:
        R.missing("C10-R9", "Chain method calls in the worker")
        return
    STORAGE = ("ChainStorage::", "TraceStorage::", "storage::", "ChainProgress::")
    n = 0
    for bb, t in chain_calls:
        inner = [(h, body) for h, body in loops.items() if bb in body]
        if not inner:
            continue
        h, body = max(inner, key=lambda x: len(x[1]))
        hits, _ex = K.iter_paths(w, h, [bb], within=body)
        n += 1
        site = "%s @%s" % (w.path, loc(t["span"]))
        key = "%s:%s#%d" % (w.path, t["callee"]["name"], n)
        if hits is None:
            R.bad("C10-R9", key, site, "too many paths to enumerate")
            continue
        sws = sorted({sw for (_tb, cs, _p) in hits for (sw, _v) in cs})
        tainted = []
        for sw in sws:
            sl = w.slice([w.blocks[sw]["term"]["discr"]], control=False)
            calls = [c for c in sl["calls"] if any(x in strip_generics(c) for x in STORAGE)]
            tys = [w.local_ty(l) for l in sl["locals"] if "ChainStorage" in w.local_ty(l) or "ChainProgress" in w.local_ty(l)]
            ups = [u for u in sl.get("upvars", []) if str(u) in ("chain_trace", "progress")]
            if calls or tys or ups:
                tainted.append((sw, (calls or tys or ups)[0]))
        if tainted:
            sw, what = tainted[0]
            R.bad("C10-R9", key, site, "Chain::%s is executed or skipped depending on a condition (%s) that reads %s: the chain's random stream and results would "
                  "depend on the storage configuration" % (t["callee"]["name"], loc(w.blocks[sw]["term"].get("span") or w.span), str(what)[:80]))
        else:
            R.ok("C10-R9", key, site, "Chain::%s: %d condition(s) on the way from the loop head, none reads storage / progress state" % (t["callee"]["name"], len(sws)))
    R.floor("C10-R9", 1)


def run(F, R, config=None):
    P = K.positive_facts()
    r1(F, R, P)
    if "parallel" in features(F):
        r2(F, R)
        r3(F, R)
        r5(F, R)
        r7(F, R)
        r9(F, R)
        # what is recorded must not depend on when control commands arrive: every computed draw is recorded exactly once (shared with C12-R2)
        from . import c12
        w = worker_body(F)
        if w is not None:
            c12.r2(F, R, w, c12.mailbox(F, w), rid="C10-R6")
    else:
        R.not_evaluated.append("C10-R2/R3/R5: feature `parallel` is off in this configuration (no parallel sampler compiled)")
    # what a backend stores must not depend on when flush / inspect were called: nothing is written around a buffered writer (C14-R9 analysis)
    from . import c14
    K.borrow_rule(R, lambda sub: c14.r9(F, sub, P), "C10-R8", "the stored trace does not depend on the timing of flush()/inspect(): no backend hands bytes to the file "
                  "around its BufWriter, which would write them a second time at the next flush (C14-R9 analysis)", only_rules={"C14-R9"})
    # what is stored for chain i must not depend on the other chains: the event arrays are trimmed to the maximum count over the chains (C15-R6 analysis)
    if "zarr" in features(F):
        from . import c15
        K.borrow_rule(R, lambda sub: c15.r6(F, sub), "C10-R10", "the events stored for a chain do not depend on which other chains ran: per-dimension event counts are combined "
                      "by component-wise maxima over the chains, never by a minimum or a tuple ordering (C15-R6 analysis)", only_rules={"C15-R6"})
    R.assume("rand: seed_from_u64 / set_stream are pure; ChaCha8 streams with distinct ids are independent")
    R.assume("Model::math / Model::init_position / Math::* are supplied by the user and are deterministic functions of their arguments and the RNG they are handed")
    R.assume("floating-point kernels are deterministic on one machine (no rule can decide hardware behaviour)")
    from . import c14
    c14.r3(F, R, P, rid="C10-R4")


def features(F):
    for c in F.crates:
        if c["name"] == "nuts_rs":
            return c["features"]
    return []


FEATURE_RULES = {"C10-R2": "parallel", "C10-R3": "parallel", "C10-R5": "parallel", "C10-R6": "parallel", "C10-R7": "parallel", "C10-R9": "parallel"}
CONFIGS = ["all", "default", "nodefault"]
SELFTEST = True

"""C19 - settings survive serialisation and reproduce the same chain (structural clauses)."""
from .facts import path_ends, loc, strip_generics, vt_walk, vt_str
from . import common as K
from . import tys as T
from . import c10 as C10
from . import serde_tables as ST

LEVEL = ("Static structural conditions: every ADT reachable through field types from the settings types that implement `Settings` (and every "
         "instantiation of their generic parameters) has exactly one Serialize and one Deserialize impl, both produced by serde's derive "
         "(no hand-written impl), the key table written by the derived serialiser equals the key table accepted by the derived "
         "deserialiser over exactly the type's fields / variants with nothing skipped, defaulted, aliased or conditionally written - i.e. no "
         "#[serde(..)] attribute has changed one direction only - and every leaf field type is a plain scalar / Option of scalar (R1) - under these conditions the derived pair is mutually inverse through serde_json::Value (trusted: "
         "serde_derive, serde_json for finite floats); the settings reference handed to StorageConfig::new_trace and to every chain is one and "
         "the same immutable value and the Zarr backends serialise exactly that parameter into the `sampler_settings` attribute (R2); "
         "Settings::new_chain and everything it calls reads no ambient state (statics, clock, entropy, environment), so equal settings, "
         "chain id and RNG give an equal chain (R3); every field of a settings struct is read by the code that builds or runs the chain "
         "- no field is silently ignored after deserialisation (R4). Text round trip of floats and non-finite values are not decided."
         " Added: no settings field is (de)serialised through a custom function (deserialize_with / serialize_with) (R1); the serialised value reaches the Zarr attribute untouched and the root group is written by new_trace only (R2); serde_json is built with float_roundtrip (R5, manifest)."
         " Added (round 5): the (sampler_name, adaptation_name) tag pairs of the presets are constants and pairwise distinct (R6).")
EXPLANATION = ("ADT/impl/attribute facts from the type-checked crate (derive provenance from macro expansion spans), type-closure computation with "
               "generic substitution, value provenance of the settings reference in the controller MIR, who-may-call for ambient state.")
TRUSTED = ["rustc nightly", "nutsfacts extractor", "rules/c19.py, rules/tys.py", "serde_derive: derived Serialize/Deserialize without attributes are mutual inverses through serde_json::Value"]
TECHNIQUE = "static analysis: derive/attribute inventory over the type closure of the settings types + value provenance on MIR"

LEAF_OK = {"bool", "u64", "usize", "u32", "i64", "f64", "u8", "u16", "i32"}


def settings_roots(F):
    return sorted({s["self_ty"] for s in F.settings_stats})


def serde_impls(F, adt_path, which):
    out = []
    for i in F.impls:
        if i.get("self_adt") == adt_path and i.get("trait") and (path_ends(i["trait"], which) or strip_generics(i["trait"]).endswith("::" + which)):
            out.append(i)
    return out


def is_serde_derive(i, which):
    sp = i.get("span") or {}
    return bool(sp.get("exp")) and ("Derive" in sp.get("macro", "")) and which in sp.get("macro", "") and not sp.get("macro_local", False)


def serde_attrs(attrs):
    return [a for a in attrs or [] if (a.get("path") or "").split("::")[0] == "serde"]


def closure_of(F, roots):
    """ADT instantiations reachable through field types. Returns {adt_path: set(instantiation strings)} and leaf problems."""
    seen = {}
    leaves = []
    work = [T.parse(r) for r in roots]
    while work:
        t = work.pop()
        h, args = t
        if h in ("&", "&mut", "tuple", "slice", "array"):
            work += args
            if h in ("&", "&mut"):
                leaves.append(("reference type in settings", T.show(t)))
            continue
        if h in LEAF_OK:
            continue
        if h in ("std::option::Option", "core::option::Option"):
            work += args
            continue
        adt = F.adts.get(h)
        if adt is None:
            leaves.append(("non-local / unsupported type", T.show(t)))
            continue
        inst = T.show(t)
        if inst in seen.setdefault(h, set()):
            continue
        seen[h].add(inst)
        gens = [g for g in adt.get("generics", []) if not g.startswith("'")]
        env = {g: a for g, a in zip(gens, args)}
        for v in adt["variants"]:
            for f in v["fields"]:
                work.append(T.subst(T.parse(f["ty"]), env))
    return seen, leaves


def r1(F, R):
    R.rule("C19-R1", "for every ADT in the field-type closure of the Settings implementors: exactly one derived Serialize and one derived Deserialize "
                     "impl, no manual impl; writer/reader key tables of the two expansions agree field by field (variant by variant), nothing skipped / "
                     "defaulted / aliased / conditional; leaf types are plain scalars or Option of them")
    roots = settings_roots(F)
    if len(roots) < 6:
        R.missing("C19-R1", "Settings implementors (found %d, expected 6)" % len(roots))
    seen, leaves = closure_of(F, roots)
    for why, ty in leaves:
        R.bad("C19-R1", "leaf:" + ty, "settings type closure", "%s: %s" % (why, ty))
    for adt_path in sorted(seen):
        adt = F.adts[adt_path]
        site = "%s @%s" % (adt_path, loc(adt.get("span")))
        for which in ("Serialize", "Deserialize"):
            imps = serde_impls(F, adt_path, which)
            key = "%s:%s" % (adt_path, which)
            if len(imps) != 1:
                R.bad("C19-R1", key, site, "%d impls of %s for %s (expected exactly one, derived)" % (len(imps), which, adt_path))
            elif not is_serde_derive(imps[0], which):
                R.bad("C19-R1", key, "%s @%s" % (adt_path, loc(imps[0].get("span"))), "hand-written impl of %s for %s: round trip is no longer guaranteed by the derive pair" % (which, adt_path))
            else:
                R.ok("C19-R1", key, site, "derived %s" % which)
        # reader/writer table agreement read off the derive expansion (helper attributes are not visible in HIR)
        okt, detail, probs = ST.check_adt(F, adt)
        key = "%s:tables" % adt_path
        if okt:
            R.ok("C19-R1", key, site, detail)
        else:
            for pr in probs:
                R.bad("C19-R1", "%s:%s" % (key, pr.split(":")[0][:60]), site, "serialiser and deserialiser of %s disagree: %s" % (adt_path, pr))
    # no field goes through a custom function on its way in or out (`deserialize_with`, `serialize_with`, `with`): the derive then emits a
    # private `__DeserializeWith` / `__SerializeWith` wrapper type below the impl; a normalising reader (clamp, fold, default) changes values
    for adt_path in sorted(seen):
        short = strip_generics(adt_path)
        wrappers = sorted(p_ for p_ in F.adts if ("__DeserializeWith" in p_ or "__SerializeWith" in p_) and (" for " + short) in strip_generics(p_).replace("<", " ").replace(">", " ") + " ")
        if not wrappers:
            wrappers = sorted(p_ for p_ in F.adts if ("__DeserializeWith" in p_ or "__SerializeWith" in p_) and ("for " + adt_path.split("<")[0]) in p_)
        key = "%s:plain-fields" % adt_path
        site = "%s @%s" % (adt_path, loc(F.adts[adt_path].get("span")))
        if wrappers:
            R.bad("C19-R1", key, site, "%d field(s) of %s are (de)serialised through a custom function (%s): the value read back need not be the value written" % (
                len(wrappers), adt_path, "deserialize_with" if any("__DeserializeWith" in w for w in wrappers) else "serialize_with"))
        else:
            R.ok("C19-R1", key, site, "every field uses the Serialize/Deserialize impl of its type")
    R.info("C19-R1", "closure: %s" % {k: sorted(v) for k, v in seen.items()})
    R.floor("C19-R1", 30)
    return seen


def _attr_text(a):
    t = a.get("text", "")
    import re
    ids = re.findall(r'Ident\(\\?"?([A-Za-z_]+)', t)
    return "(" + ",".join(ids[:4]) + ")" if ids else ""


def r2(F, R):
    R.rule("C19-R2", "in the controller the settings handed to StorageConfig::new_trace and to every ChainProcess::start are the same immutable value "
                     "(never mutably borrowed or reassigned); each Zarr StorageConfig::new_trace serialises exactly its settings parameter into "
                     "the attribute `sampler_settings`")
    cs = C10.controller_scope(F)
    if cs is None:
        R.missing("C19-R2", "controller scope closure")
    else:
        nt = cs.calls_to(lambda c: path_ends(c["path"], "StorageConfig::new_trace"))
        stt = cs.calls_to(lambda c: path_ends(c["path"], "ChainProcess::start"))
        sp = C10.spawn_fn(F)
        names = [sp.local_name(i) for i in range(1, sp.arg_count + 1)] if sp else []

        def root(v):
            while v[0] in ("ref", "deref"):
                v = v[1]
            return v
        vals = []
        for bb, t in nt:
            vals.append(("new_trace", t, root(cs.value(t["args"][1]))))
        for bb, t in stt:
            if "settings" in names:
                vals.append(("start", t, root(cs.value(t["args"][names.index("settings")]))))
        roots = {vt_str(v[2]) for v in vals}
        site = "%s @%s" % (cs.path, cs.loc())
        if len(vals) >= 2 and len(roots) == 1 and vals[0][2][0] == "upvar":
            up = vals[0][2][1]
            R.ok("C19-R2", cs.path + ":same-settings", site, "new_trace and %d start call(s) all receive the captured `%s`" % (len(stt), up))
            # provenance of that capture in the parent closure: `&settings` of the value moved into the thread
            parent = F.bodies.get(cs.parent_path()) if hasattr(cs, "parent_path") else None
        else:
            R.bad("C19-R2", cs.path + ":same-settings", site, "settings arguments differ: %s" % [(n, vt_str(v)) for n, _t, v in vals])
        # no mutable access to any captured settings value in the controller closures
        mut = []

        def settings_place(b, pl):
            """place rooted at a captured / parameter `settings*` value (not behind the shared reference)"""
            l = pl["l"]
            fs = [e for e in pl["p"] if isinstance(e, dict) and "f" in e]
            if b.kind == "closure" and l == 1 and fs and (fs[0].get("n") or "").startswith("settings"):
                return True
            return b.is_arg(l) and (b.local_name(l) or "") == "settings"
        for b in [F.bodies[p] for p in F.bodies if p.startswith("sampler::Sampler::<F>::new")]:
            for bi, blk in enumerate(b.blocks):
                for st in blk["stmts"]:
                    if st["k"] != "assign":
                        continue
                    rv = st["rv"]
                    if rv["k"] in ("ref", "rawptr") and rv.get("bk") in ("mut", "Mut") and settings_place(b, rv["pl"]):
                        mut.append((b, st))
                    if st["pl"]["p"] and settings_place(b, st["pl"]):
                        mut.append((b, st))
        if mut:
            for b, st in mut:
                R.bad("C19-R2", b.path + ":settings-mutated", "%s @%s" % (b.path, loc(st["span"])), "the run's settings value is mutably borrowed / written in the controller")
        else:
            R.ok("C19-R2", "controller:settings-immutable", "sampler::Sampler::new and closures", "no mutable borrow of or store into the captured settings")
        # the reference capture is a borrow of the thread closure's own `settings`
        par = [b for b in F.bodies.values() if b.kind == "closure" and cs.path.startswith(b.path + "::{closure") and cs.path.count("{closure") == b.path.count("{closure") + 1]
        okp = False
        for pb in par:
            for bi, blk in enumerate(pb.blocks):
                for st in blk["stmts"]:
                    if st["k"] == "assign" and st["rv"]["k"] == "agg" and st["rv"].get("closure") == cs.path:
                        for op in st["rv"]["ops"]:
                            v = pb.value(op)
                            # by type of the captured variable (the Settings implementor), not by its name
                            sname = {c["var"] for c in pb.captures if c.get("ty", "") == "S" and c.get("by") == "ByValue"}
                            if v[0] == "ref" and v[1][0] == "upvar" and v[1][1] in sname:
                                okp = True
        if okp:
            R.ok("C19-R2", cs.path + ":settings_ref", site, "captured settings reference = &settings of the value moved into the controller thread")
        else:
            R.bad("C19-R2", cs.path + ":settings_ref", site, "captured settings reference is not a borrow of the thread's own settings value")
    # zarr backends: scope = new_trace, its nested closures / async blocks and the storage helpers they call
    n = 0
    cg = F.callgraph()
    for b in F.trait_method_impls("StorageConfig", "new_trace"):
        if "zarr" not in b.path:
            continue
        scope = [F.bodies[p] for p in sorted(cg.reachable([b.path])) if p.startswith(("storage::", "<storage::"))]
        tv = [(x, t) for x in scope for bb, t in x.calls() if strip_generics(t["callee"].get("path", "")).endswith("serde_json::to_value")]
        site = "%s @%s" % (b.path, b.loc())
        if not tv:
            R.bad("C19-R2", b.path + ":to_value", site, "the Zarr trace does not serialise the settings (no serde_json::to_value reachable from new_trace)")
            continue
        n += 1
        for x, t in tv:
            ok_, how = _traces_to_settings_param(F, cg, b, x, x.value(t["args"][0]), 0)
            key = b.path + ":to_value"
            if ok_:
                R.ok("C19-R2", key, "%s @%s" % (x.path, loc(t["span"])), "serde_json::to_value(settings parameter of new_trace)%s" % how)
            else:
                R.bad("C19-R2", key, "%s @%s" % (x.path, loc(t["span"])), "serialised value is not new_trace's settings parameter: %s" % how)
        # the serialised value is stored as it is: nothing takes a mutable reference to it or writes into it on its way into the attribute map
        for x, t in tv:
            res = t["dest"]["l"]
            fam = {res}
            changed = True
            while changed:
                changed = False
                for blk in x.blocks:
                    for st in blk["stmts"]:
                        if st["k"] == "assign" and not st["pl"]["p"] and st["pl"]["l"] not in fam:
                            rv = st["rv"]
                            if rv["k"] == "use" and rv["op"]["k"] in ("copy", "move") and rv["op"]["pl"]["l"] in fam:
                                fam.add(st["pl"]["l"])
                                changed = True
                    tt = blk["term"]
                    if tt["k"] == "call" and not tt["dest"]["p"] and tt["dest"]["l"] not in fam:
                        pth = strip_generics(tt["callee"].get("path", ""))
                        if pth.endswith(("Try::branch", "Result::context", "Result::with_context", "Context::context", "Context::with_context")) and tt["args"] and \
                                tt["args"][0]["k"] in ("copy", "move") and tt["args"][0]["pl"]["l"] in fam:
                            fam.add(tt["dest"]["l"])
                            changed = True
            touched = []
            for blk in x.blocks:
                for st in blk["stmts"]:
                    if st["k"] == "assign":
                        if st["rv"]["k"] in ("ref", "rawptr") and st["rv"].get("bk") in ("mut", "Mut") and st["rv"]["pl"]["l"] in fam:
                            touched.append(loc(st["span"]))
                        if st["pl"]["l"] in fam and st["pl"]["p"] and not (isinstance(st["pl"]["p"][0], dict) and "d" in st["pl"]["p"][0]):
                            touched.append(loc(st["span"]))
            k2 = b.path + ":attribute-value"
            if touched:
                R.bad("C19-R2", k2, "%s @%s" % (x.path, touched[0]), "the serialised settings are modified before they are stored (mutable access at %s): the attribute is "
                      "no longer the serialisation of the settings the run used" % ", ".join(sorted(set(touched))[:3]))
            else:
                R.ok("C19-R2", k2, "%s @%s" % (x.path, loc(t["span"])), "the value of to_value(settings) reaches the attribute map untouched")
        # the attribute is written unconditionally: a Map::insert with the key, and no insert-if-absent anywhere in scope
        has_key = False
        inserts = 0
        cond = []
        for x in scope:
            for bb, t in x.calls():
                pth = strip_generics(t["callee"].get("path", ""))
                if pth.endswith("Map::insert") or (t["callee"].get("name") == "insert" and "serde_json" in pth):
                    inserts += 1
                if "or_insert" in (t["callee"].get("name") or "") or pth.endswith(("Map::entry", "VacantEntry::insert")) and "serde_json" in pth:
                    cond.append((x, t))
                for a in t["args"]:
                    v = x.value(a)
                    if any(n_[0] == "const" and "sampler_settings" in str(n_[2] or n_[1]) for n_ in vt_walk(v)):
                        has_key = True
        if cond:
            for x, t in cond:
                R.bad("C19-R2", b.path + ":attribute-conditional", "%s @%s" % (x.path, loc(t["span"])),
                      "attributes are inserted only if absent (%s): metadata of an earlier run in the same store survive and no longer describe this run" % t["callee"].get("name"))
        elif has_key and inserts:
            R.ok("C19-R2", b.path + ":attribute", site, "stored under attribute \"sampler_settings\" by an overwriting insert (%d inserts in scope)" % inserts)
        else:
            R.bad("C19-R2", b.path + ":attribute", site, "serialised settings are not inserted under \"sampler_settings\" (key seen: %s, overwriting inserts: %d)" % (has_key, inserts))
    # the root group (which carries sampler_settings) is created and its metadata stored by new_trace only: a later GroupBuilder::build on it
    # starts from empty attributes and store_metadata() then erases the settings
    if "zarr" in C10.features(F):
        nt_scope = set()
        for b in F.trait_method_impls("StorageConfig", "new_trace"):
            if "zarr" in b.path:
                nt_scope |= set(cg.reachable([b.path])) | {b.path}
                nt_scope |= {c.path for c in K.all_closures_of(F, b.path)}
        ng = 0
        for x in sorted(F.bodies.values(), key=lambda z: z.path):
            if not x.path.startswith(("storage::zarr", "<storage::zarr")):
                continue
            for bb, t in x.calls():
                pth = strip_generics(t["callee"].get("path", ""))
                if pth.endswith(("GroupBuilder::build", "Group::store_metadata", "Group::async_store_metadata")) or \
                        (t["callee"].get("name") in ("store_metadata", "async_store_metadata") and "group::Group" in str(t["callee"].get("self_ty") or t["callee"].get("impl_self") or "")):
                    ng += 1
                    top = x.path
                    while "::{closure" in top:
                        top = top[:top.rindex("::{closure")]
                    key = "%s:group-metadata#%d" % (x.path, ng)
                    if x.path in nt_scope or top in nt_scope:
                        R.ok("C19-R2", key, "%s @%s" % (x.path, loc(t["span"])), "group metadata written while the trace is created")
                    else:
                        R.bad("C19-R2", key, "%s @%s" % (x.path, loc(t["span"])), "%s outside new_trace: a group rebuilt later starts with empty attributes and its store_metadata() "
                              "erases `sampler_settings`" % pth.split("::", 2)[-1])
    if "zarr" in C10.features(F) and n < 2:
        R.missing("C19-R2", "Zarr new_trace serialising the settings (found %d, expected 2)" % n)


def _traces_to_settings_param(F, cg, root, x, v, depth):
    """Does value tree v (in body x) denote the `settings` parameter of root (= new_trace)? Looks through captures and helper parameters."""
    base = v
    while base[0] in ("ref", "deref"):
        base = base[1]
    if depth > 4:
        return False, "too deep"
    if base[0] == "upvar":
        src = K.capture_sources(F, x).get(base[1])
        if not src:
            return False, "capture %s has no source" % base[1]
        ok_, how = _traces_to_settings_param(F, cg, root, src[0], src[1], depth + 1)
        return ok_, how + " via capture `%s`" % base[1]
    if base[0] == "arg":
        if x.path == root.path:
            return (base[2] == "settings"), (" " if base[2] == "settings" else "parameter `%s`" % base[2])
        # helper: every call of x within the scope must pass the settings at this position
        scope_paths = cg.reachable([root.path])
        callers = [F.bodies[c] for c in cg.callers_of(x.path) if c in F.bodies and c in scope_paths]
        if not callers:
            return False, "helper %s has no caller" % x.path
        hows = []
        for cb in callers:
            for bb, t in cb.calls():
                tgt = t["callee"].get("resolved") or t["callee"].get("path")
                if tgt != x.path or base[1] - 1 >= len(t["args"]):
                    continue
                ok_, how = _traces_to_settings_param(F, cg, root, cb, cb.value(t["args"][base[1] - 1]), depth + 1)
                if not ok_:
                    return False, "helper %s is called with %s" % (x.path, how)
                hows.append(how)
        if not hows:
            return False, "no resolved call of helper %s" % x.path
        return True, " via helper %s" % x.path.split("::")[-1]
    return False, vt_str(v)


def r3(F, R):
    R.rule("C19-R3", "Settings::new_chain (all impls) and every workspace function reachable from it call no ambient-state source and the workspace "
                     "has no mutable statics: the chain is a function of (settings, chain id, math, rng)")
    cg = F.callgraph()
    ncs = F.trait_method_impls("sampler::Settings", "new_chain")
    reach = cg.reachable([b.path for b in ncs])
    amb, _clock = C10.ambient_calls(F)
    hits = [(b, t, why) for (b, bb, t, why) in amb if b.path in reach]
    for b, t, why in hits:
        R.bad("C19-R3", "%s:%s" % (b.path, K.callee_path(t)), "%s @%s" % (b.path, loc(t["span"])), "reachable from Settings::new_chain: %s" % why)
    st = C10.static_items(F)
    for s in st:
        R.bad("C19-R3", "static:" + s["path"], loc(s["span"]), "mutable global state %s" % s["path"])
    for b in ncs:
        R.ok("C19-R3", b.path, "%s @%s" % (b.path, b.loc()), "no ambient source among the %d workspace functions reachable from new_chain" % len(reach))
    if len(ncs) < 6:
        R.missing("C19-R3", "impl Settings::new_chain (found %d)" % len(ncs))


def r4(F, R, seen):
    R.rule("C19-R4", "every field of every settings ADT in the closure is read by some non-derived library function (a field that is written by "
                     "Default/deserialisation only and never read would make two different settings values behave identically - allowed - but a "
                     "field read nowhere is reported as information, not a violation)")
    reads = set()
    for b in F.bodies.values():
        sp = b.span or {}
        if sp.get("exp") and "Derive" in sp.get("macro", ""):
            continue
        for blk in b.blocks:
            if blk["cleanup"]:
                continue
            items = []
            for st in blk["stmts"]:
                if st["k"] == "assign":
                    from .facts import _rvalue_operands
                    for o in _rvalue_operands(st["rv"]):
                        if o["k"] in ("copy", "move"):
                            items.append(o["pl"])
            t = blk["term"]
            if t["k"] == "call":
                for a in t["args"]:
                    if a["k"] in ("copy", "move"):
                        items.append(a["pl"])
            elif t["k"] == "switch" and t["discr"]["k"] in ("copy", "move"):
                items.append(t["discr"]["pl"])
            for pl in items:
                for e in pl["p"]:
                    if isinstance(e, dict) and "f" in e and e.get("n") and e.get("of"):
                        reads.add((strip_generics(e["of"]), e["n"]))
    unread = []
    n = 0
    for adt_path in sorted(seen):
        adt = F.adts[adt_path]
        if adt["kind"] != "struct":
            continue
        for f in adt["variants"][0]["fields"]:
            n += 1
            if (strip_generics(adt_path), f["name"]) not in reads:
                unread.append("%s.%s" % (adt_path, f["name"]))
    R.ok("C19-R4", "field-reads", "settings ADTs", "%d settings fields, %d never read outside derives: %s" % (n, len(unread), unread))
    for u in unread:
        R.info("C19-R4", "settings field never read by library code: %s" % u)


def r5(F, R):
    """JSON text carries every f64 exactly."""
    import os
    R.rule("C19-R5", "the crate's own dependency on serde_json enables `float_roundtrip` (Cargo.toml): without it serde_json's number parser is the fast one, which is "
                     "off by one ulp for roughly one f64 in ten, so settings with arbitrary finite f64 fields do not survive to_string -> from_str (in builds where no "
                     "other dependency happens to switch the feature on)")
    repo = (F.meta or {}).get("repo") or "/repo"
    mp = os.path.join(repo, "Cargo.toml")
    try:
        import tomllib
        man = tomllib.load(open(mp, "rb"))
    except Exception as ex:      # noqa: BLE001
        R.missing("C19-R5", "Cargo.toml of the crate (%s)" % ex)
        return
    dep = (man.get("dependencies") or {}).get("serde_json")
    key = "Cargo.toml:serde_json"
    if dep is None:
        R.missing("C19-R5", "serde_json in [dependencies]")
        return
    feats = dep.get("features", []) if isinstance(dep, dict) else []
    if "float_roundtrip" in feats:
        R.ok("C19-R5", key, "Cargo.toml", "serde_json features %s" % feats)
    else:
        R.bad("C19-R5", key, "Cargo.toml", "serde_json is used with features %s: f64 settings fields are parsed inexactly from JSON text (1 ulp) unless another "
              "dependency enables float_roundtrip (the `zarr` feature does, the default build does not)" % (feats or "[]"))
    R.floor("C19-R5", 1)



def r6(F, R):
    R.rule("C19-R6", "the preset a trace was written with can be told from its metadata: the (sampler_name(), adaptation_name()) tag pair, which the Zarr backends "
                     "store next to `sampler_settings`, is a pair of constants per Settings impl and no two presets share a pair - otherwise the stored settings "
                     "object is read back as another preset (or fails to load)")
    tags = {}
    for fn in ("sampler_name", "adaptation_name"):
        for b in F.trait_method_impls("Settings", fn):
            if not b.path.startswith("<sampler::"):
                continue
            vals = []
            for d in b.defs().get(0, []):
                if d[0] == "stmt" and d[3]["k"] == "assign":
                    vals.append(b.rvalue_value(d[3]["rv"]))
            lit = [v[1] for v in vals if v[0] == "const"] if vals else []
            adt = b.parent.get("self_ty") or b.parent.get("self_adt") or b.path
            tags.setdefault(adt, {})[fn] = lit[0].strip('"') if len(lit) == 1 and len(vals) == 1 else None
    if len(tags) < 2:
        R.missing("C19-R6", "Settings::sampler_name / adaptation_name impls (found %d)" % len(tags))
        return
    seen_pairs = {}
    for adt, t in sorted(tags.items()):
        key = "%s:tags" % adt.replace("sampler::", "").replace("adapt_strategy::", "").replace("transform::", "")[:90]
        pair = (t.get("sampler_name"), t.get("adaptation_name"))
        if None in pair:
            R.bad("C19-R6", key, adt, "the preset tags are not constants: %s" % (pair,))
            continue
        if pair in seen_pairs:
            R.bad("C19-R6", key, adt, "presets %s and %s both write the tag pair %s into the trace metadata" % (seen_pairs[pair][:80], adt[:80], pair))
        else:
            seen_pairs[pair] = adt
            R.ok("C19-R6", key, adt, "tags %s" % (pair,))
    R.floor("C19-R6", 6)


def run(F, R, config=None):
    seen = r1(F, R)
    if "parallel" in C10.features(F):
        r2(F, R)
    else:
        R.not_evaluated.append("C19-R2: feature `parallel` off in this configuration")
    r3(F, R)
    r4(F, R, seen)
    r5(F, R)
    r6(F, R)
    R.assume("serde_derive: #[derive(Serialize, Deserialize)] without attributes are mutual inverses through serde_json::Value for structs/enums of scalars, Option and nested such types")
    R.assume("serde_json::Value represents every finite f64 and every u64 exactly (non-finite floats are excluded by the property)")


FEATURE_RULES = {"C19-R2": "parallel"}
CONFIGS = ["all", "default", "nodefault", "zarr"]
SELFTEST = True

"""C09 - adaptation windows discard stale draws and honour the schedule (structural clauses)."""
from .facts import path_ends, loc, strip_generics, vt_walk, vt_str
from . import common as K
from . import rel as Rl
from . import eff as E

LEVEL = ("Static structural conditions on the adaptation schedule: the estimator switch in GlobalStrategy::adapt executes only where the background "
         "estimator holds at least the current switch frequency (early frequency in the early phase, the growing window size afterwards) and another "
         "full window still fits before the final step-size window; the window size is written only by the constructor, the early->main seeding "
         "(max with the background count, never shrinking) and the growth step inside the switch branch (R1); a switch really replaces every "
         "foreground estimator by its background copy and renews the background (diagonal) / drops exactly the pre-split prefix of both deques and "
         "moves the split to the end (low rank), and the transformation is computed from the foreground estimators only (R2); the step-size search is "
         "re-run exactly under `transformation changed and no change seen before`, a latch cleared in the same branch and set only by the constructor "
         "(R3); the late (symmetric) estimator is fed exactly when no further window fits, the early one otherwise (R4); estimators receive a draw only "
         "when the collector marked it good, and that mark depends only on the divergence flag and the trajectory index (R5). Off-by-one arithmetic of "
         "the schedule and the 'older than two windows' count are not decided."
         " Added: only switch() removes elements from the estimation-window deques (R2); estimator lanes are judged on the inlined form (R4)."
         " Added (round 4): the transformation is frozen in the final window on every path (R8 = C06-R3 analysis, path-sensitive through phase enums and sub-structs of the strategy)."
         " Added (round 5): the step-size search re-run at the first transformation change restarts the estimator from what it found (R9 = C07-R5/R6 analysis)."
         " Added (round 6): an update that is due happens (R10 = C08-R2 converse clause); every trajectory starts at index 0, resampled momentum or not (R11 = C02-R7 clause). adapt() reports a change only when the transformation changed: its `true` is the mutator's own answer or follows a mutator that increments the id on all paths (R12; decided F20).")
EXPLANATION = "Control-dependence edge relations and value provenance on the MIR of the adapt strategy and of the two estimator strategies; field-writer inventory."
TRUSTED = ["rustc nightly MIR", "nutsfacts extractor", "rules/c09.py, rules/rel.py"]
TECHNIQUE = "static analysis: control-dependence edge relations + value provenance + field-writer inventory on MIR"


def global_adapt(F):
    bs = [b for b in F.trait_method_impls("AdaptStrategy", "adapt") if path_ends(b.parent.get("self_adt") or "", "GlobalStrategy")]
    return bs[0] if len(bs) == 1 else None


def alts(b, v, depth=0):
    """Possible value trees of v when it is a local assigned in several branches."""
    if v[0] == "field" and str(v[2]).isdigit() and v[1][0] == "local" and depth < 3:
        # component of a tuple that is built in several branches (`let (a, b) = if c {(x, y)} else {(u, w)}`, or a helper returning a pair)
        out = []
        for t_ in alts(b, v[1], depth):
            if t_[0] == "agg" and str(t_[1]) == "tuple" and int(v[2]) < len(t_[2]):
                out += alts(b, t_[2][int(v[2])], depth + 1)
            else:
                return [v]
        return out or [v]
    if v[0] == "local" and depth < 3:
        ds = b.defs().get(v[1], [])
        if 1 <= len(ds) <= 4 and all((d[0] == "stmt" and d[3]["k"] == "assign" and not d[3]["pl"]["p"]) or (d[0] == "call" and not d[3]["dest"]["p"]) for d in ds):
            out = []
            for d in ds:
                if d[0] == "call":
                    t = d[3]
                    out.append(("call", t["callee"].get("path", "?"), [b.value(a) for a in t["args"]], t["callee"]))
                else:
                    out += alts(b, b.rvalue_value(d[3]["rv"]), depth + 1)
            return out
    return [v]


def expanded_relations(b, bb):
    """Edge relations of bb with boolean locals expanded through their (possibly several) definitions: [(op, lhs, rhs)]"""
    out = []
    for (o, l, r, _s) in Rl.edge_relations(b, bb):
        if r is not None:
            out.append((o, l, r))
            continue
        if o not in ("True", "False"):
            continue
        for v in alts(b, l):
            neg = (o == "False")
            while v[0] == "un" and v[1] == "Not":
                neg = not neg
                vv = alts(b, v[2])
                v = vv[0] if len(vv) == 1 else v[2]
            if v[0] == "bin" and v[1] in Rl.NEG:
                out.append((Rl.NEG[v[1]] if neg else v[1], v[2], v[3]))
            else:
                out.append(("False" if neg else "True", v, None))
    return out


def r1(F, R):
    R.rule("C09-R1", "the estimator switch is control-dependent on `background_count() >= f` with f in {early switch frequency option, current window size} and on "
                     "`not (next_window + draw > final step-size window)`; current_window_size is written only by new(), by the never-shrinking early->main seeding and "
                     "by the growth step inside the switch branch")
    b = global_adapt(F)
    if b is None:
        R.missing("C09-R1", "impl AdaptStrategy::adapt for GlobalStrategy")
        return
    sw = b.calls_to(lambda c: path_ends(c["path"], "MassMatrixAdaptStrategy::switch"))
    if len(sw) != 1:
        R.bad("C09-R1", b.path + ":switch", b.path, "expected one switch call, found %d" % len(sw))
        return
    sbb, st = sw[0]
    site = "%s @%s" % (b.path, loc(st["span"]))
    rels = Rl.edge_relations(b, sbb)
    have_count = False
    have_room = False
    seen = []
    for (o, l, r, _s) in rels:
        vs = [(o, l, r)]
        if r is None and o in ("True", "False"):
            # a boolean local: expand its definition
            for v in alts(b, l):
                if v[0] == "bin" and v[1] in Rl.NEG:
                    vs.append((v[1] if o == "True" else Rl.NEG[v[1]], v[2], v[3]))
                elif v[0] == "un" and v[1] == "Not":
                    for v2 in alts(b, v[2]):
                        if v2[0] == "bin" and v2[1] in Rl.NEG:
                            vs.append((Rl.NEG[v2[1]] if o == "True" else v2[1], v2[2], v2[3]))
        for (op, x, y) in vs:
            if y is None:
                continue
            seen.append((op, vt_str(x)[:60], vt_str(y)[:60]))
            for (op2, a, c) in ((op, x, y), (Rl.FLIP.get(op), y, x)):
                if op2 == "Ge" and a[0] == "call" and strip_generics(a[1]).endswith("background_count"):
                    fs = set()
                    for v in alts(b, c):
                        n = Rl.self_field_name(v) if v[0] == "field" else None
                        chain = [nn[2] for nn in vt_walk(v) if nn[0] == "field"]
                        fs.add(tuple(chain))
                    names = {f[0] if f else None for f in fs}
                    if names and names <= {"early_mass_matrix_switch_freq", "current_window_size"} and len(names) == 2:
                        have_count = True
                if op2 == "Le":
                    sa, sc = vt_str(a), vt_str(c)
                    if "draw" in sa and "final_step_size_window" in sc and "AddWithOverflow" in sa:
                        have_room = True
    if have_count:
        R.ok("C09-R1", b.path + ":switch:count", site, "switch only when background_count() >= early frequency / current window size")
    else:
        R.bad("C09-R1", b.path + ":switch:count", site, "switch is not guarded by `background_count() >= {early_mass_matrix_switch_freq | current_window_size}`; guards: %s" % seen[:6])
    if have_room:
        R.ok("C09-R1", b.path + ":switch:room", site, "switch only when next_window + draw <= final step-size window")
    else:
        R.bad("C09-R1", b.path + ":switch:room", site, "switch is not guarded by `next window still fits before the final step-size window`; guards: %s" % seen[:6])
    # writers of the window size
    adt = b.parent.get("self_adt")
    for (wb, bb, stt, v, how) in K.field_writers(F, adt, "current_window_size"):
        wsite = "%s @%s" % (wb.path, loc(stt["span"]))
        s = vt_str(v)
        key = "%s:window<-%s" % (wb.path, how)
        if how == "agg" and wb.fn_name == "new" and "mass_matrix_switch_freq" in s:
            R.ok("C09-R1", key, wsite, "initial window size = options.mass_matrix_switch_freq")
        elif wb.path == b.path and how in ("assign", "call"):
            rl = Rl.edge_relations(wb, bb)
            in_switch = sbb in wb.reach_from(0) and wb.dominates(sbb, bb)
            if in_switch:
                # growth step: value mentions current_window_size and the growth option, executed only in the main phase
                av = alts(wb, v)
                grow = any("current_window_size" in vt_str(x) and ("mass_matrix_window_growth" in vt_str(x) or "max" in vt_str(x)) for x in av)
                main = any(o == "Ge" and vt_str(l) == "draw" and "early_end" in vt_str(r) for (o, l, r) in expanded_relations(wb, bb) if r is not None)
                if grow and main:
                    R.ok("C09-R1", key + ":grow", wsite, "window grows inside the switch branch: %s" % s[:80])
                else:
                    R.bad("C09-R1", key + ":grow", wsite, "window size written in the switch branch as %s (growth of the current size: %s, only in the main phase: %s)" % (
                        [vt_str(x)[:70] for x in av], grow, main))
            else:
                if "max" in s and "current_window_size" in s and "background_count" in s:
                    R.ok("C09-R1", key + ":seed", wsite, "early->main seeding: max(current, background_count())")
                else:
                    R.bad("C09-R1", key + ":other", wsite, "window size written outside the switch branch as %s" % s[:100])
        else:
            R.bad("C09-R1", key, wsite, "unexpected writer of current_window_size: %s" % s[:100])
    R.floor("C09-R1", 5)


def r2(F, R):
    R.rule("C09-R2", "switch effect: diagonal - every foreground estimator := mem::replace(background, fresh estimator), fields paired one to one, adapt() reads only "
                     "foreground estimators and background_count() only background ones; low rank - exactly background_split elements are popped from the front of both "
                     "deques and the split becomes the new length")
    for b in F.trait_method_impls("MassMatrixAdaptStrategy", "switch"):
        adt = b.parent.get("self_adt") or ""
        site = "%s @%s" % (b.path, b.loc())
        a = F.adts.get(adt)
        if a is None:
            continue
        rv_fields = [f["name"] for f in a["variants"][0]["fields"] if "RunningVariance" in f["ty"]]
        if rv_fields:
            pairs = []
            for fld in rv_fields:
                for (wb, bb, stt, v, how) in K.field_writers(F, adt, fld):
                    if wb.path != b.path or how not in ("assign", "call"):
                        continue
                    if v[0] == "call" and strip_generics(v[1]).endswith("mem::replace"):
                        src = [n[2] for n in vt_walk(v[2][0]) if n[0] == "field"]
                        fresh = v[2][1]
                        is_new = fresh[0] == "call" and strip_generics(fresh[1]).endswith("RunningVariance::new")
                        pairs.append((fld, src[0] if src else "?", is_new))
                    else:
                        pairs.append((fld, "<-" + vt_str(v)[:40], False))
            fg = [p[0] for p in pairs]
            bg = [p[1] for p in pairs]
            okk = len(pairs) * 2 == len(rv_fields) and sorted(fg + bg) == sorted(rv_fields) and all(p[2] for p in pairs) and not set(fg) & set(bg)
            if okk:
                R.ok("C09-R2", b.path + ":replace", site, "foreground <- background, background renewed: %s" % [(p[0], p[1]) for p in pairs])
            else:
                R.bad("C09-R2", b.path + ":replace", site, "switch does not replace every foreground estimator by its background and renew the background: %s over fields %s "
                      "(stale draws keep influencing the transformation)" % (pairs, rv_fields))
            # readers
            impl = b.parent.get("impl")
            for nm, want in (("background_count", set(bg)), ("current_count", set(fg)), ("adapt", set(fg))):
                for rb in F.trait_method_impls("MassMatrixAdaptStrategy", nm):
                    if rb.parent.get("impl") != impl:
                        continue
                    used = set()
                    for bb, t in rb.calls():
                        for x in t["args"]:
                            for n in vt_walk(rb.value(x)):
                                if n[0] == "field" and n[2] in rv_fields:
                                    used.add(n[2])
                    key = "%s:%s:reads" % (b.path, nm)
                    if used and used <= want:
                        R.ok("C09-R2", key, "%s @%s" % (rb.path, rb.loc()), "%s reads %s" % (nm, sorted(used)))
                    else:
                        R.bad("C09-R2", key, "%s @%s" % (rb.path, rb.loc()), "%s reads estimators %s, expected only %s" % (nm, sorted(used), sorted(want)))
        else:
            # deque strategy
            # who may shrink the window: only switch() removes elements from the draw/gradient deques (a cap applied elsewhere would move the
            # boundary between foreground and background without moving background_split)
            SHRINK = ("pop_front", "pop_back", "truncate", "drain", "clear", "remove", "retain", "retain_mut", "split_off", "swap_remove_back", "swap_remove_front", "resize", "resize_with")
            dq0 = {f["name"] for f in a["variants"][0]["fields"] if "VecDeque" in f["ty"]}
            for ob in sorted(F.bodies.values(), key=lambda x: x.path):
                oa = ob.parent.get("self_adt") or (F.bodies[ob.parent["fn"]].parent.get("self_adt") if ob.kind == "closure" and ob.parent.get("fn") in F.bodies else None)
                if oa != adt or ob.path == b.path:
                    continue
                for bb, t in ob.calls():
                    cp = strip_generics(t["callee"].get("path", ""))
                    if "VecDeque" in cp and cp.split("::")[-1] in SHRINK and t["args"]:
                        fl = {n[2] for n in vt_walk(ob.value(t["args"][0])) if n[0] == "field"} & dq0
                        if fl and not F.callgraph().callers_of(ob.path) and ob.kind != "closure" and not ob.parent.get("trait"):
                            R.ok("C09-R2", "%s:shrinks:%s" % (ob.path, sorted(fl)[0]), "%s @%s" % (ob.path, loc(t["span"])),
                                 "%s of %s in a function no library code calls (an unused reset); it would be reported as soon as it gets a caller" % (cp.split("::")[-1], sorted(fl)))
                        elif fl:
                            R.bad("C09-R2", "%s:shrinks:%s" % (ob.path, sorted(fl)[0]), "%s @%s" % (ob.path, loc(t["span"])),
                                  "%s removes elements from the window deque %s outside switch(): background_split no longer marks the start of the background window" % (
                                      cp.split("::")[-1], sorted(fl)))
            pops = [(bb, t) for bb, t in b.calls() if strip_generics(t["callee"].get("path", "")).endswith("VecDeque::pop_front")]
            fields = set()
            for bb, t in pops:
                fields |= {n[2] for n in vt_walk(b.value(t["args"][0])) if n[0] == "field"}
            dq = {f["name"] for f in a["variants"][0]["fields"] if "VecDeque" in f["ty"]}
            loops = b.natural_loops()
            in_loop = all(any(bb in body for body in loops.values()) for bb, _t in pops)
            # loop bound is the split field
            bound_ok = False
            for h_, body_ in loops.items():
                if pops and all(bb in body_ for bb, _t in pops):
                    n_, how_ = K.loop_trip_count(b, h_, body_)
                    if n_ is not None and Rl.self_field_name(n_) == "background_split":
                        bound_ok = True
            split_w = [(wb, bb, stt, v, how) for (wb, bb, stt, v, how) in K.field_writers(F, adt, "background_split") if wb.path == b.path]
            split_ok = len(split_w) == 1 and "len" in vt_str(split_w[0][3]) and any(f in vt_str(split_w[0][3]) for f in dq)
            # the new split is assigned after the loop
            after = split_ok and all(not any(split_w[0][1] in body for body in loops.values()) for _ in [0])
            if dq and fields == dq and in_loop and bound_ok and split_ok and after:
                R.ok("C09-R2", b.path + ":drop-prefix", site, "pops background_split elements from %s, then split = len" % sorted(dq))
            else:
                R.bad("C09-R2", b.path + ":drop-prefix", site, "low-rank switch: popped deques %s of %s, inside a 0..background_split loop: %s/%s, split := len afterwards: %s" % (
                    sorted(fields), sorted(dq), in_loop, bound_ok, bool(split_ok and after)))
    R.floor("C09-R2", 5)


def r3(F, R):
    R.rule("C09-R3", "first-change latch: inside adapt the step-size Strategy::init call is control-dependent on `did_change & has_initial_mass_matrix`; the latch is "
                     "set to false in that branch and to true only in new()")
    b = global_adapt(F)
    if b is None:
        R.missing("C09-R3", "GlobalStrategy::adapt")
        return
    inits = b.calls_to(lambda c: path_ends(c["path"], "stepsize::adapt::Strategy::init") or (c.get("name") == "init" and "stepsize" in c["path"]))
    site = "%s @%s" % (b.path, b.loc())
    if len(inits) != 1:
        R.bad("C09-R3", b.path + ":search", site, "expected one step-size search inside adapt, found %d" % len(inits))
        return
    ibb, it = inits[0]
    has_latch = False
    has_change = False
    conds = []
    for (o, l, r, _s) in Rl.edge_relations(b, ibb):
        if r is None and o == "True":
            if Rl.self_field_name(l) == "has_initial_mass_matrix":
                has_latch = True
            for v in alts(b, l):
                conds.append(vt_str(v)[:80])
                if v[0] == "call" and strip_generics(v[1]).endswith("MassMatrixAdaptStrategy::adapt"):
                    has_change = True
    if has_latch and has_change:
        R.ok("C09-R3", b.path + ":search-guard", "%s @%s" % (b.path, loc(it["span"])), "search re-run under `did_change & has_initial_mass_matrix`")
    else:
        R.bad("C09-R3", b.path + ":search-guard", "%s @%s" % (b.path, loc(it["span"])), "step-size search inside adapt runs under %s (expected: the transformation changed AND "
              "no change was seen before; latch conjunct: %s, change conjunct: %s)" % (conds, has_latch, has_change))
    adt = b.parent.get("self_adt")
    cleared = False
    for (wb, bb, stt, v, how) in K.field_writers(F, adt, "has_initial_mass_matrix"):
        wsite = "%s @%s" % (wb.path, loc(stt["span"]))
        if how == "agg" and wb.fn_name == "new" and v[0] == "const" and v[2] == "true":
            R.ok("C09-R3", wb.path + ":latch-init", wsite, "latch starts true")
        elif wb.path == b.path and v[0] == "const" and v[2] == "false" and (b.dominates(bb, ibb) or bb == ibb):
            same = {(x[0], x[1]) for x in b.control_deps_trans(bb)} == {(x[0], x[1]) for x in b.control_deps_trans(ibb)}
            if same:
                cleared = True
                R.ok("C09-R3", wb.path + ":latch-clear", wsite, "latch cleared in the branch that re-runs the search")
            else:
                R.bad("C09-R3", wb.path + ":latch-clear", wsite, "latch cleared under a different condition than the search")
        else:
            R.bad("C09-R3", wb.path + ":latch-write", wsite, "unexpected write of has_initial_mass_matrix: %s" % vt_str(v))
    if not cleared:
        R.bad("C09-R3", b.path + ":latch-never-cleared", site, "has_initial_mass_matrix is never cleared: the search is re-run after every change")
    R.floor("C09-R3", 3)


def r4(F, R):
    R.rule("C09-R4", "estimator lanes before the final window: on the `is_late` edge (no further window fits) the step-size estimator is advanced with the "
                     "symmetric acceptance statistic, on the other edge with the plain one (the estimator-update helpers of the step-size strategy are inlined, "
                     "whether they are two functions or one with a flag)")
    from . import c07 as C07
    b0 = global_adapt(F)
    if b0 is None:
        return
    b = C07.estimator_inlined(F, b0)
    site = "%s @%s" % (b.path, b.loc())
    found = False
    undecided = []
    for sw, blk in enumerate(b.blocks):
        t = blk["term"]
        if blk["cleanup"] or t["k"] != "switch" or t.get("discr_ty") != "bool":
            continue
        v = b.value(t["discr"])
        s = " ".join(vt_str(x) for x in alts(b, v))
        if not ("final_step_size_window" in s and "draw" in s and ("Gt" in s or ">" in s)):
            continue
        dl = t["discr"]["pl"]["l"] if t["discr"]["k"] in ("copy", "move") and not t["discr"]["pl"]["p"] else None
        known_l = {dl}
        # the user variable the discriminant is a copy of
        for d in b.defs().get(dl, []) if dl is not None else []:
            if d[0] == "stmt" and d[3]["k"] == "assign" and d[3]["rv"]["k"] == "use" and d[3]["rv"]["op"]["k"] in ("copy", "move") and not d[3]["rv"]["op"]["pl"]["p"]:
                known_l.add(d[3]["rv"]["op"]["pl"]["l"])
        tgt_true = t["otherwise"] if all(a["val"] == 0 for a in t["arms"]) else next((a["target"] for a in t["arms"] if a["val"] != 0), None)
        tgt_false = next((a["target"] for a in t["arms"] if a["val"] == 0), None) if tgt_true != t["otherwise"] or all(a["val"] == 0 for a in t["arms"]) else t["otherwise"]
        if tgt_true is None or tgt_false is None:
            continue
        late_f, ls = C07.estimator_feed(b, tgt_true, {l: True for l in known_l if l is not None}, avoid=[sw])
        early_f, es = C07.estimator_feed(b, tgt_false, {l: False for l in known_l if l is not None}, avoid=[sw])
        if not ls and not es:
            continue
        lsite = "%s @%s" % (b.path, loc((ls or es)[0][1]["span"]))
        sym = {f for f in late_f | early_f if "sym" in str(f)}
        if late_f and early_f and late_f <= sym and not (early_f & sym) and "?" not in late_f | early_f:
            found = True
            R.ok("C09-R4", b.path + ":lanes", lsite, "late estimator (%s) on is_late, early estimator (%s) otherwise" % (sorted(late_f), sorted(early_f)))
        elif late_f and early_f and early_f <= sym and not (late_f & sym):
            found = True
            R.bad("C09-R4", b.path + ":lanes", lsite, "early/late estimator updates are swapped with respect to is_late")
        else:
            # a test of is_late that does not choose the statistic (e.g. `could_switch && !is_late`): both lanes lie behind both edges
            undecided.append((sorted(late_f), sorted(early_f)))
    if not found:
        R.bad("C09-R4", b.path + ":lanes", site, "no branch on `next_window + draw > final window` selects the statistic fed to the step-size estimator "
              "(lanes behind the is_late tests found: %s)" % undecided[:3])
    R.floor("C09-R4", 1)


def r5(F, R):
    R.rule("C09-R5", "good-draw filter: every add_sample / push_back in update_estimators is control-dependent on the collector's is_good; is_good is assigned in "
                     "register_draw from the divergence flag and the trajectory index only")
    for b in F.trait_method_impls("MassMatrixAdaptStrategy", "update_estimators"):
        adds = [(bb, t) for bb, t in b.calls() if t["callee"].get("name") in ("add_sample", "push_back", "add_draw", "push")]
        site = "%s @%s" % (b.path, b.loc())
        if not adds:
            R.bad("C09-R5", b.path + ":adds", site, "update_estimators feeds no estimator")
            continue
        for i, (bb, t) in enumerate(adds):
            conds = []
            for (o, l, r, _s) in Rl.edge_relations(b, bb):
                if r is None:
                    conds.append((o, vt_str(l)))
            key = "%s:%s#%d" % (b.path, t["callee"]["name"], i)
            if any(o == "True" and c.endswith("is_good") for o, c in conds):
                R.ok("C09-R5", key, "%s @%s" % (b.path, loc(t["span"])), "only when collector.is_good")
            else:
                R.bad("C09-R5", key, "%s @%s" % (b.path, loc(t["span"])), "estimator fed regardless of is_good (conditions: %s): divergent / unmoved draws enter the mass matrix" % conds)
    # is_good writers
    coll = next((p for p in F.adts if path_ends(p, "DrawGradCollector")), None)
    for (wb, bb, stt, v, how) in K.field_writers(F, coll, "is_good"):
        wsite = "%s @%s" % (wb.path, loc(stt["span"]))
        if how == "agg":
            R.ok("C09-R5", wb.path + ":is_good-init", wsite, "initial value %s" % vt_str(v))
            continue
        from .facts import _rvalue_operands
        sl = wb.slice(_rvalue_operands(stt["rv"]), start_bb=bb)
        calls = {strip_generics(c).split("::")[-1] for c in sl["calls"]}
        fields = sl["fields"]
        okk = calls <= {"index_in_trajectory", "is_some", "abs", "point"} and ("divergence_info" in fields) and "index_in_trajectory" in calls
        if okk:
            R.ok("C09-R5", wb.path + ":is_good<-", wsite, "is_good depends on divergence_info.is_some() and index_in_trajectory() only")
        else:
            R.bad("C09-R5", wb.path + ":is_good<-", wsite, "is_good depends on calls %s / fields %s" % (sorted(calls), sorted(fields)))
    R.floor("C09-R5", 7)


def r6(F, R):
    """A switch of the estimator windows is followed, in the same draw, by a re-estimate of the transformation."""
    R.rule("C09-R6", "in GlobalStrategy::adapt every path from the estimator switch to the end of the draw calls MassMatrixAdaptStrategy::adapt exactly once "
                     "(the switch forces the update, whatever mass_matrix_update_freq is and in the early phase too): the transformation in use never stays on "
                     "an estimate from windows that were already discarded")
    b = global_adapt(F)
    if b is None:
        return
    sw = b.calls_to(lambda c: path_ends(c["path"], "MassMatrixAdaptStrategy::switch"))
    ad = b.calls_to(lambda c: path_ends(c["path"], "MassMatrixAdaptStrategy::adapt"))
    if len(sw) != 1 or not ad:
        R.bad("C09-R6", b.path + ":switch-forces-update", b.path, "expected one switch call and at least one adapt call, found %d / %d" % (len(sw), len(ad)))
        return
    sbb, st = sw[0]
    site = "%s @%s" % (b.path, loc(st["span"]))
    # feasible continuation after the switch: constants assigned on the way (force_update = true) decide `if force_update | (..)`
    known = K.known_bools_at(b, sbb)     # e.g. `let force_update = could_switch && !is_late; if force_update { switch(); .. }`
    reach = b.reach_feasible(st["target"], (), known) if st.get("target") is not None else set()
    exits = [x for x in reach if b.blocks[x]["term"]["k"] == "return"]
    adbs = [bb for bb, _t in ad if bb in reach]
    # every feasible path to a return passes an adapt call: remove the adapt blocks and see whether a return is still reachable
    skip = b.reach_feasible(st["target"], adbs, known) if st.get("target") is not None else set()
    missed = [x for x in skip if b.blocks[x]["term"]["k"] == "return"]
    if adbs and exits and not missed:
        R.ok("C09-R6", b.path + ":switch-forces-update", site, "after switch() every path re-estimates the transformation (adapt) before the draw ends")
    else:
        R.bad("C09-R6", b.path + ":switch-forces-update", site, "after switch() a path reaches the end of the draw without MassMatrixAdaptStrategy::adapt: the transformation "
              "keeps an estimate of the discarded windows until the next scheduled update")
    R.floor("C09-R6", 1)


def r7(F, R):
    """What the adaptation collectors are told about a draw is what the caller is told."""
    R.rule("C09-R7", "in nuts::draw, the SampleInfo given to Collector::register_draw is the SampleInfo returned with that draw (same value): a divergent draw is "
                     "registered as divergent, so the good-draw filter of the mass-matrix collectors (C09-R5) sees it")
    for b in [x for x in F.bodies.values() if x.kind != "closure" and x.calls_to(lambda c: path_ends(c["path"], "NutsTree::extend")) and x.fn_name != "extend"]:
        regs = b.calls_to(lambda c: path_ends(c["path"], "Collector::register_draw"))
        for i, (bb, t) in enumerate(regs):
            key = "%s:register#%d" % (b.path, i)
            site = "%s @%s" % (b.path, loc(t["span"]))
            info_op = next((a for a in t["args"] if a["k"] in ("copy", "move") and path_ends((b.local_ty(a["pl"]["l"]) or "").replace("&", "").strip(), "SampleInfo")), None)
            if info_op is None:
                R.bad("C09-R7", key, site, "register_draw call without a SampleInfo operand")
                continue
            il = K.root_local(b, info_op)
            # the (state, info) tuple built after this call on the way to the return
            rets = []
            for x in sorted(b.reach_from(t["target"])) if t.get("target") is not None else []:
                for st in b.blocks[x]["stmts"]:
                    if st["k"] == "assign" and st["rv"]["k"] == "agg" and st["rv"].get("ak") in ("tuple", "adt") and any(
                            o["k"] in ("copy", "move") and path_ends((b.local_ty(o["pl"]["l"]) or "").strip(), "SampleInfo") for o in st["rv"]["ops"]):
                        for o in st["rv"]["ops"]:
                            if o["k"] in ("copy", "move") and path_ends((b.local_ty(o["pl"]["l"]) or "").strip(), "SampleInfo"):
                                rets.append(K.root_local(b, o))
            if rets and all(r_ == il for r_ in rets):
                R.ok("C09-R7", key, site, "registered info is the returned info")
            elif not rets:
                R.ok("C09-R7", key, site, "no (state, info) pair is built after this registration on its paths")
            else:
                R.bad("C09-R7", key, site, "the draw is registered with one SampleInfo and returned with another: the collectors and the caller are told different things "
                      "(e.g. a divergence hidden from the adaptation)")
    R.floor("C09-R7", 3)




def _bump_blocks(b):
    out = []
    for bi, blk in enumerate(b.blocks):
        if blk["cleanup"]:
            continue
        for st in blk["stmts"]:
            if st["k"] == "assign" and st["pl"]["p"]:
                last = [e for e in st["pl"]["p"] if isinstance(e, dict) and "f" in e]
                if last and last[-1].get("n") == "id" and "Add" in vt_str(b.rvalue_value(st["rv"])):
                    out.append(bi)
    return out


def always_changes(F, b, depth=0, seen=()):
    """Does every path through b increment a transformation id (directly, or in a callee that always does)?"""
    if b is None or not b.blocks or depth > 4 or b.path in seen:
        return False
    marks = set(_bump_blocks(b))
    for bb, t in b.calls():
        c = t["callee"]
        cb = F.bodies.get(c.get("resolved") or c.get("path"))
        if cb is not None and cb.kind != "closure" and always_changes(F, cb, depth + 1, seen + (b.path,)):
            marks.add(bb)
    if not marks:
        return False
    rets = {x for x, blk in enumerate(b.blocks) if blk["term"]["k"] == "return"}
    return not (rets & b.reach_from(0, avoid=sorted(marks)))


def r12(F, R):
    R.rule("C09-R12", "adapt() says `changed` only when the transformation did change: in every MassMatrixAdaptStrategy::adapt a returned `true` is either a constant "
                      "on a path through a mutator that increments the transformation id on all of its paths, or the mutator's own answer. GlobalStrategy re-runs "
                      "the step-size search at the first `true` and never again: an estimate that the transformation rejected (non-finite window, failed "
                      "decomposition) but that is reported as a change spends the one re-run on an unchanged transformation, and the first real change goes without")
    n = 0
    for b in F.trait_method_impls("MassMatrixAdaptStrategy", "adapt"):
        n += 1
        key = b.path + ":changed-means-changed"
        site = "%s @%s" % (b.path, b.loc())
        sure = set()
        unsure = []
        for bb, t in b.calls():
            c = t["callee"]
            cb = F.bodies.get(c.get("resolved") or c.get("path"))
            if cb is None or cb.kind == "closure":
                continue
            if always_changes(F, cb):
                sure.add(bb)
            elif _reaches_bump(F, cb):
                unsure.append((bb, t))
        trues = []
        for bi, blk in enumerate(b.blocks):
            if blk["cleanup"]:
                continue
            for st in blk["stmts"]:
                if st["k"] == "assign" and st["pl"]["l"] == 0 and not st["pl"]["p"] and st["rv"]["k"] == "use" and st["rv"]["op"].get("k") == "const" \
                        and str((st["rv"]["op"].get("const") or {}).get("v")) == "true":
                    trues.append(bi)
        from_call = [bb for bb, t in b.calls() if t["dest"]["l"] == 0 and not t["dest"]["p"]]
        bad = [x for x in trues if x in b.reach_from(0, avoid=sorted(sure))]
        if not sure and not unsure:
            R.bad("C09-R12", key, site, "adapt() calls no transformation mutator")
        elif bad:
            who = ", ".join(sorted({t["callee"].get("name") or "?" for _bb, t in unsure})) or "no mutator"
            R.bad("C09-R12", key, site, "adapt() returns the constant `true` on a path whose only mutator (%s) can return without changing the transformation "
                  "(an early return before the id increment): a rejected estimate is reported as a change" % who)
        else:
            R.ok("C09-R12", key, site, "`true` only after a mutator that always increments the id" if trues else "the result is the mutator's own answer (%d call(s))" % len(from_call))
    R.floor("C09-R12", 2)


def _reaches_bump(F, b, depth=0, seen=()):
    if b is None or not b.blocks or depth > 4 or b.path in seen:
        return False
    if _bump_blocks(b):
        return True
    for _bb, t in b.calls():
        cb = F.bodies.get(t["callee"].get("resolved") or t["callee"].get("path"))
        if cb is not None and cb.kind != "closure" and _reaches_bump(F, cb, depth + 1, seen + (b.path,)):
            return True
    return False

def run(F, R, config=None):
    r1(F, R)
    r2(F, R)
    r3(F, R)
    r4(F, R)
    r5(F, R)
    r6(F, R)
    r7(F, R)
    r12(F, R)
    # "in the final window only the step size adapts": every transformation mutator in adapt() runs under draw < <start of the final window>
    from . import c06
    K.borrow_rule(R, lambda sub: c06.r3(F, sub), "C09-R8", "in the final step-size window the transformation is frozen: every transformation mutator called from adapt() "
                  "executes only where `draw < self.<final window>` holds on every path (C06-R3 analysis, path-sensitive for phase enums)", only_rules={"C06-R3"})
    # "the first transformation change re-runs the step-size search": the search itself (C07-R5/R6) and what it hands to the estimator
    from . import c07
    K.borrow_rule(R, lambda sub: c07.r5_r6(F, sub), "C09-R9", "the step-size search that is re-run at the first transformation change is the mirrored doubling / halving "
                  "search and both directions restart the estimator from the step size it found (C07-R5 / R6 analysis)", only_rules={"C07-R5", "C07-R6"})
    # "a window switch forces an update from the new foreground": adapt() itself must then update whenever it has three draws (C08-R2, converse clause)
    from . import c08, c02
    K.borrow_rule(R, lambda sub: c08.r2(F, sub), "C09-R10", "an update that is due happens: MassMatrixAdaptStrategy::adapt returns without touching the transformation only on "
                  "the `current_count() < 3` edge - no memo of `nothing new since the last update` survives a window switch (C08-R2 analysis)", only_rules={"C08-R2"},
                  only_keys=lambda k: "update-when-due" in k)
    # "divergent draws with fewer than five steps are not fed to the estimators": the collector measures that by |index_in_trajectory|, which
    # therefore has to restart at 0 with every trajectory - resampled momentum or not (C02-R7 analysis of initialize_trajectory)
    K.borrow_rule(R, lambda sub: c02.r7(F, sub), "C09-R11", "every trajectory starts at index 0: initialize_trajectory resets index_in_trajectory on every path, also when the "
                  "momentum is carried over (MCLMC), so the collector's `|index| > 4` test of a divergent draw counts the steps of this draw only (C02-R7 analysis)",
                  only_rules={"C02-R7"}, only_keys=lambda k: "initial-energy" in k)
    R.info("C09", "final window (only the step size adapts, symmetric statistic) is also decided by C06-R4 / C07-R4")
    R.assume("window arithmetic (off-by-one in counts) is a value question and not decided")


CONFIGS = ["all", "nodefault"]
SELFTEST = True

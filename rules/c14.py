"""C14 - every storage backend returns exactly what the chains recorded (structural clauses)."""
from collections import defaultdict
from .facts import path_ends, loc, strip_generics, hir_walk, vt_walk, vt_str
from . import common as K

LEVEL = ("Static structural conditions of storage fidelity: variant coverage of every (container, Value) / (container, container) "
         "match against the ItemType->Value admissibility table (R1); statistics vs draw schema lanes never share a source in "
         "new_trace (R2); no order-sensitive (first-wins) iteration over default-hasher maps on record/finalize/inspect paths (R3); "
         "warm-up / sampling container pairs are selected by the tuning flag with the same orientation at every selection site (R4); "
         "no write-only configuration field (R5); every literal statistic name a backend looks up is declared by a preset, duplicates being "
         "decided by C16-R8 (R6); the worker hands the backend the stats / draw data / progress of the same expanded_draw call (R7). Cell-by-cell equality of stored values is not decided."
         " Added: the warm-up -> sampling switch of record_sample dominates every read of the draw's values (R8); no backend reaches around a BufWriter (R9)."
         " Added (round 4): per-dimension event counts of several chains are combined component-wise, never by ordering tuples (R12 = C15-R6 analysis)."
         " Added (round 5): event counts reported by a backend with a phase flag depend on that flag (R13; decided F14); ArrowBuilder::append_value never appends a null, the ndarray draw axis is exactly num_tune + num_draws long (R14). A backend that names statistic dimensions from Settings::stat_dims_all takes their sizes from Settings::stat_dim_sizes (R15, sibling agreement; decided F17)."
         " Added (round 6): a builder setter of a storage configuration returns self with the named field set, never a rebuilt configuration (R16); the chunk grid of the Zarr arrays and the buffer length of the chains are one expression (R17 = C15-R12). Every chunk shape handed to zarrs' ArrayBuilder passes through max(1), so zero-length coordinates / dimensions are stored by both Zarr backends (R18; decided F18)."
         " Added (round 7): the extent of the warmup event arrays is read from SampleBuffer::total_pushed() before any reset, in both Zarr storages (R19).")
EXPLANATION = ("COVER analysis over HIR match arms, slice-based lane labels in new_trace, ITER classification of HashMap iterations, "
               "EFF read/write inventory of StorageConfig fields, SCHEMA flattening of the six Stats types.")
TRUSTED = ["rustc nightly HIR/MIR", "nutsfacts extractor", "rules/c14.py, rules/schema.py"]
TECHNIQUE = "static analysis: match-coverage (COVER), taint lanes over MIR slices, unordered-iteration classification, field read/write inventory"

ADMISSIBLE = {
    "U64": ["ScalarU64", "U64"], "I64": ["ScalarI64", "I64"], "F64": ["ScalarF64", "F64"], "F32": ["ScalarF32", "F32"],
    "Bool": ["ScalarBool", "Bool"], "String": ["ScalarString", "Strings"],
}
PROPERTY_TYPES = ["F64", "F32", "I64", "U64", "Bool", "String"]


def container_enums(F):
    """Local enums whose variants are named like ItemType variants (value containers of a backend)."""
    out = {}
    names = set(PROPERTY_TYPES)
    for p, a in F.adts.items():
        if a["kind"] != "enum" or "storage" not in p:
            continue
        vs = [v["name"] for v in a["variants"]]
        if len(vs) >= 4 and set(vs) <= names | {"DateTime64", "TimeDelta64"}:
            out[p] = vs
    return out


def _diverges(n):
    """HIR arm body certainly does not produce a normal value: 'panic' or 'err' (returns an Err)."""
    n = K.peel(n)
    k = n.get("k")
    if k == "Ret":
        e = n.get("e")
        if e:
            e = K.peel(e)
            if e.get("k") == "Call" and K.peel(e["f"]).get("res", {}).get("name") == "Err":
                return "err"
        return None
    if k == "Call":
        f = K.peel(n["f"])
        if f.get("k") == "Path" and "panicking" in (f["res"].get("def") or ""):
            return "panic"
        return None
    if k == "Block":
        for s in n["stmts"]:
            if s.get("e"):
                d = _diverges(s["e"])
                if d:
                    return d
        if n.get("expr"):
            return _diverges(n["expr"])
        return None
    if n.get("ty") == "!":
        return "panic"
    return None


def _pat_variants(p, enum_variants):
    """Set of variants a sub-pattern can match (None = all)."""
    k = p.get("k")
    if k in ("Wild", "Binding"):
        return None
    if k == "Or":
        s = set()
        for q in p["pats"]:
            r = _pat_variants(q, enum_variants)
            if r is None:
                return None
            s |= r
        return s
    if k in ("Ref", "Box", "Deref"):
        return _pat_variants(p["pat"], enum_variants)
    v = K.pat_variant(p)
    return {v} if v else None


def new_mapping(F, enum_path):
    """ItemType variant -> container variant (or 'PANIC') from the `match item_type {..}` that builds `enum_path`."""
    best = None
    for b in F.bodies.values():
        if not b.hir or K.is_std_derive(b):
            continue
        for m in hir_walk(b.hir["value"]):
            if m.get("k") != "Match" or not path_ends(m.get("scrut_adt"), "ItemType"):
                continue
            mp = {}
            hit = False
            for a in m["arms"]:
                vs = _pat_variants(a["pat"], None)
                tgt = None
                for x in hir_walk(a["body"]):
                    if x.get("k") == "Path" and x["res"].get("enum") and path_ends(x["res"]["enum"], enum_path):
                        tgt = x["res"]["name"]
                        hit = True
                        break
                if tgt is None and _diverges(a["body"]):
                    tgt = "PANIC"
                for v in (vs or ["*"]):
                    mp[v] = tgt
            if hit:
                best = (b, m, mp)
    return best


def cover_matches(F):
    """All matches whose scrutinee is a 2-tuple with a container enum in first position."""
    cont = container_enums(F)
    out = []
    for b in F.bodies.values():
        if not b.hir or K.is_std_derive(b) or b.kind == "closure":
            continue
        for m in hir_walk(b.hir["value"]):
            if m.get("k") != "Match":
                continue
            s = K.peel(m["scrut"])
            if s.get("k") != "Tup" or len(s["es"]) != 2:
                continue
            t0 = s["es"][0].get("ty", "").replace("&mut ", "").replace("&", "").strip()
            t1 = s["es"][1].get("ty", "").replace("&mut ", "").replace("&", "").strip()
            c0 = [c for c in cont if path_ends(c, strip_generics(t0)) or strip_generics(t0).endswith(strip_generics(c))]
            if not c0:
                continue
            if path_ends(strip_generics(t1), "Value") and "nuts_storable" in t1:
                out.append((b, m, c0[0], "value"))
            elif any(strip_generics(t1).endswith(strip_generics(c)) for c in cont):
                out.append((b, m, c0[0], "diag"))
    return out


def r1(F, R, rid="C14-R1"):
    R.rule(rid, "for every backend container enum: new(ItemType) maps every property value type to a container; every (container(T), v) with v "
                "admissible for T and every diagonal (C, C) pair has a non-diverging arm; diverging wildcard arms cover only inadmissible pairs")
    cont = container_enums(F)
    if not cont:
        R.missing(rid, "backend container enums")
    maps = {}
    for c in sorted(cont):
        nm = new_mapping(F, c)
        if not nm:
            R.missing(rid, "new(ItemType) for %s" % c)
            continue
        b, m, mp = nm
        maps[c] = mp
        for t in PROPERTY_TYPES:
            tgt = mp.get(t, mp.get("*"))
            key = "%s:new:%s" % (c, t)
            site = "%s @%s" % (b.path, loc(m["span"]))
            if tgt in (None, "PANIC"):
                R.bad(rid, key, site, "ItemType::%s has no container in %s (%s)" % (t, c, tgt))
            else:
                R.ok(rid, key, site, "ItemType::%s -> %s" % (t, tgt))
    for (b, m, c, kind) in cover_matches(F):
        site = "%s @%s" % (b.path, loc(m["span"]))
        mp = maps.get(c, {})
        arms = []
        for a in m["arms"]:
            p = a["pat"]
            if p.get("k") == "Tuple" and len(p["pats"]) == 2:
                arms.append((_pat_variants(p["pats"][0], None), _pat_variants(p["pats"][1], None), _diverges(a["body"]), a))
            elif p.get("k") in ("Wild", "Binding"):
                arms.append((None, None, _diverges(a["body"]), a))
            else:
                arms.append((None, None, _diverges(a["body"]), a))

        def first_arm(cv, vv):
            for (s0, s1, div, a) in arms:
                if (s0 is None or cv in s0) and (s1 is None or vv in s1):
                    return (s0, s1, div, a)
            return None

        idx = sum(1 for (b2, m2, _c, _k) in cover_matches(F) if b2 is b and m2["span"]["line"] < m["span"]["line"])
        if kind == "value":
            for t in PROPERTY_TYPES:
                cv = mp.get(t, mp.get("*"))
                if cv in (None, "PANIC"):
                    continue
                for vv in ADMISSIBLE[t]:
                    key = "%s:match#%d:(%s,%s)" % (b.path, idx, cv, vv)
                    fa = first_arm(cv, vv)
                    if fa is None:
                        R.bad(rid, key, site, "no arm for (%s, Value::%s)" % (cv, vv))
                    elif fa[2] and (fa[0] is None or fa[1] is None):
                        R.bad(rid, key, site, "admissible pair (%s, Value::%s) falls into the diverging wildcard arm (%s)" % (cv, vv, fa[2]))
                    elif fa[2]:
                        R.bad(rid, key, site, "arm for (%s, Value::%s) diverges (%s)" % (cv, vv, fa[2]))
                    else:
                        R.ok(rid, key, site, "covered")
        else:
            produced = sorted({v for v in mp.values() if v not in (None, "PANIC")})
            for cv in produced:
                key = "%s:match#%d:(%s,%s)" % (b.path, idx, cv, cv)
                fa = first_arm(cv, cv)
                if fa is None or (fa[2] and (fa[0] is None or fa[1] is None)):
                    R.bad(rid, key, site, "diagonal pair (%s, %s) is not handled (falls into %s)" % (cv, cv, "a diverging wildcard arm" if fa else "no arm"))
                else:
                    R.ok(rid, key, site, "covered")
    R.floor(rid, 40)


# ---------------------------------------------------------------------------------------------
# record-path explicit panics (used by C13-R4)
# ---------------------------------------------------------------------------------------------
PANIC_CEILING = {
    # backend module -> number of explicit panic!/unreachable! sites reachable from record_sample/finalize/inspect/flush,
    # counted by reading on the pinned tree (after the fix: commits). Wildcard arms of COVER-checked matches are included;
    # whether they are reachable for admissible values is decided by C14-R1.
    "storage::hashmap": 6, "storage::ndarray": 0, "storage::arrow": 8, "storage::csv": 2,
    "storage::zarr::sync_impl": 6, "storage::zarr::async_impl": 6, "storage::zarr::common": 1,  # async: 6 since async blocks are call-graph nodes (the site inside an async block was invisible before)
}


def record_path_roots(F):
    roots = []
    for b in F.bodies.values():
        tr = b.parent.get("trait")
        if tr and (path_ends(tr, "ChainStorage") or path_ends(tr, "TraceStorage")) and b.fn_name in ("record_sample", "finalize", "inspect", "flush"):
            roots.append(b.path)
    return roots


def explicit_panics(F):
    cg = F.callgraph()
    out = []
    for p in sorted(cg.reachable(record_path_roots(F))):
        b = F.bodies[p]
        if K.is_std_derive(b):
            continue
        for bb, t in b.calls():
            c = t["callee"]
            if "path" not in c or "panicking" not in c["path"]:
                continue
            mac = t["span"].get("macro", "")
            if '"assert' in mac or "debug_assert" in mac:
                continue
            out.append((b, bb, t))
    return out


def module_of(path):
    p = path.lstrip("<")
    for m in sorted(PANIC_CEILING, key=len, reverse=True):
        if p.startswith(m + "::"):
            return m
    return None


def record_path_panics(F, R, rid):
    R.rule(rid, "explicit panic!/unreachable! sites reachable from record_sample/finalize/inspect/flush: per backend no more than the "
                "inventory counted by reading (a new panic on the record path turns an error into a crash); wildcard panic arms of value "
                "matches must be unreachable for admissible values (decided by the COVER analysis)")
    per = defaultdict(list)
    for (b, bb, t) in explicit_panics(F):
        per[module_of(b.path)].append((b, t))
    for m, lst in sorted(per.items(), key=lambda x: str(x[0])):
        cap = PANIC_CEILING.get(m)
        key = "%s:explicit-panics" % m
        site = ", ".join(sorted({loc(t["span"]) for (_b, t) in lst}))[:300]
        if m is None:
            for (b, t) in lst:
                R.bad(rid, "%s:panic" % b.path, "%s @%s" % (b.path, loc(t["span"])), "explicit panic on the record path outside the known backend modules")
        elif len(lst) > cap:
            R.bad(rid, key, site, "%d explicit panic sites on the record path of %s, inventory allows %d" % (len(lst), m, cap))
        else:
            R.ok(rid, key, site, "%d explicit panic sites (inventory %d)" % (len(lst), cap))
    # COVER verdicts restated for panicking wildcard arms
    sub = _SubReport()
    r1(F, sub, rid="tmp")
    for v in sub.bad_items:
        if "diverging wildcard arm (panic)" in v[3] or "falls into a diverging" in v[3] or "arm for" in v[3]:
            R.bad(rid, "cover:" + v[1], v[2], "panic reachable for an admissible value: " + v[3])
    R.floor(rid, 5)


class _SubReport:
    def __init__(self):
        self.bad_items = []
        self.counts = {}

    def rule(self, *a):
        pass

    def ok(self, *a):
        pass

    def bad(self, rid, key, site, detail):
        self.bad_items.append((rid, key, site, detail))

    def missing(self, *a):
        pass

    def floor(self, *a):
        pass

    def info(self, *a):
        pass




# ---------------------------------------------------------------------------------------------
# R2 schema lanes
# ---------------------------------------------------------------------------------------------
S_METHODS = ("stat_names", "stat_types", "stat_dims_all", "stat_dims", "stat_event_dims", "stat_dim_sizes", "stat_coords")
D_METHODS = ("data_names", "data_types", "data_dims_all", "data_dims")


def lane_labels(calls):
    labs = set()
    for c in calls:
        p = strip_generics(c)
        last = p.split("::")[-1]
        if "Settings" in p and last in S_METHODS:
            labs.add("S")
        if "Settings" in p and last in D_METHODS:
            labs.add("D")
    return labs


def r2(F, R):
    R.rule("C14-R2", "in every StorageConfig::new_trace (and the constructors it calls): sibling fields of identical type inside one storage "
                     "struct are not all built from the same schema lane (S = Settings::stat_*, D = Settings::data_*)")
    impls = F.trait_method_impls("StorageConfig", "new_trace")
    if not impls:
        R.missing("C14-R2", "impl StorageConfig::new_trace")
    for b in impls:
        bodies = [b] + F.closures_of(b.path)
        any_labelled = False
        for bx in bodies:
            for bi, blk in enumerate(bx.blocks):
                if blk["cleanup"]:
                    continue
                for st in blk["stmts"]:
                    if st["k"] != "assign" or st["rv"]["k"] != "agg" or st["rv"]["ak"] != "adt":
                        continue
                    adt = st["rv"]["adt"]
                    if adt not in F.adts:
                        continue
                    # only the storage objects themselves hold one container per lane (a helper record such as a CSV column
                    # description legitimately has several strings of one lane)
                    if not any(i.get("trait") and path_ends(i["trait"], ("ChainStorage", "TraceStorage")[0]) and strip_generics(i.get("self_adt") or "") == strip_generics(adt) for i in F.impls) and \
                       not any(i.get("trait") and path_ends(i["trait"], "TraceStorage") and strip_generics(i.get("self_adt") or "") == strip_generics(adt) for i in F.impls):
                        continue
                    fields = st["rv"]["fields"]
                    ftypes = {f["name"]: f["ty"] for v in F.adts[adt]["variants"] for f in v["fields"]}
                    labs = {}
                    for fn, op in zip(fields, st["rv"]["ops"]):
                        sl = bx.slice([op], control=False, mut_flows=True)
                        l = lane_labels(sl["calls"])
                        if l:
                            labs[fn] = l
                    if not labs:
                        continue
                    any_labelled = True
                    site = "%s @%s" % (bx.path, loc(st["span"]))
                    by_type = defaultdict(list)
                    for fn in labs:
                        by_type[ftypes.get(fn)].append(fn)
                    for ty, fns in sorted(by_type.items(), key=lambda x: str(x[0])):
                        key = "%s:%s{%s}" % (b.path, strip_generics(adt).split("::")[-1], ",".join(sorted(fns)))
                        single = [labs[f] for f in fns if len(labs[f]) == 1]
                        if len(fns) >= 2 and len(single) == len(fns) and len({tuple(x) for x in single}) == 1:
                            R.bad("C14-R2", key, site, "sibling fields %s (type %s) are all built from the %s schema lane: the draw containers and the statistics containers must come from different schemas" % (
                                sorted(fns), ty, "statistics" if "S" in single[0] else "draw"))
                        else:
                            R.ok("C14-R2", key, site, "lanes %s" % {f: sorted(labs[f]) for f in fns})
        if not any_labelled:
            R.info("C14-R2", "%s: no schema-labelled struct construction (backend keys its columns differently)" % b.path)
    R.floor("C14-R2", 4)


# ---------------------------------------------------------------------------------------------
# R3 order-sensitive iteration over default-hasher maps (ITER)
# ---------------------------------------------------------------------------------------------
import re as _re
HASHIT = _re.compile(r"std::collections::hash_(map|set)::(Iter|IterMut|IntoIter|Keys|Values|ValuesMut|IntoKeys|IntoValues|Drain)<")
FIRST_ADAPTORS = ("next", "find", "find_map", "position", "take", "take_while", "skip", "skip_while", "nth", "last", "min_by", "max_by", "min_by_key", "max_by_key",
                  "reduce", "fold", "try_fold", "step_by", "rev", "enumerate", "zip")


def hash_iterations(F, scope_pred):
    """[(body, kind, bb, term, detail)] : every consumer of a std HashMap/HashSet iterator in the bodies selected by scope_pred."""
    out = []
    for b in F.bodies.values():
        if not scope_pred(b):
            continue
        loops = b.natural_loops()
        for bb, t in b.calls():
            if not t["args"]:
                continue
            q = strip_generics(t["callee"].get("path", ""))
            name = q.split("::")[-1]
            rl = K.root_local(b, t["args"][0])
            ty = b.local_ty(rl) if rl is not None else ""
            if not HASHIT.search(ty):
                continue
            if name == "next":
                in_loop = [(h, body) for h, body in loops.items() if bb in body]
                if in_loop:
                    h, body = min(in_loop, key=lambda x: len(x[1]))
                    out.append((b, "loop", bb, t, (h, body)))
                else:
                    out.append((b, "first", bb, t, None))
            elif name in FIRST_ADAPTORS:
                out.append((b, "adaptor:" + name, bb, t, None))
            elif name in ("collect", "extend"):
                g = t["callee"].get("gargs") or []
                dty = g[-1] if (name == "collect" and g) else b.local_ty(t["dest"]["l"])
                out.append((b, "collect", bb, t, dty))
            elif name in ("map", "filter", "filter_map", "cloned", "copied", "chain", "into_iter", "flat_map", "inspect", "by_ref"):
                continue   # adaptor that keeps the element order: classified at its consumer
            elif name in ("count", "sum", "all", "any", "for_each", "max", "min", "len", "product"):
                out.append((b, "commutative:" + name, bb, t, None))
            else:
                out.append((b, "other:" + name, bb, t, None))
    return out


def classify_hash_loop(b, nbb, nt, h, body):
    """-> list of reasons why the loop is order-sensitive (empty = order-insensitive)."""
    reasons = []
    item = nt["dest"]["l"]
    # element components: (item as Some).0.0 = key, .0.1 = value (maps); .0 = element (sets)

    def comp_of(v):
        for n in vt_walk(v):
            if n[0] == "field" and n[1][0] == "field" and n[1][1][0] == "downcast":
                base = n[1][1][1]
                if (base[0] == "local" and base[1] == item) or (base[0] == "call" and strip_generics(base[1]).endswith("Iterator::next")):
                    return "key" if n[2] == "0" else "value"
        for n in vt_walk(v):
            if (n[0] == "local" and n[1] == item) or (n[0] == "call" and strip_generics(n[1]).endswith("Iterator::next")):
                return "element"
        return None
    for x in sorted(body):
        t = b.blocks[x]["term"]
        if t["k"] != "call":
            continue
        q = strip_generics(t["callee"].get("path", ""))
        nm = q.split("::")[-1]
        # first-wins filters: a membership test / insertion whose outcome is branched on
        if (q.endswith(("HashSet::insert", "HashSet::contains", "HashMap::contains_key", "BTreeSet::insert", "Vec::contains")) and len(t["args"]) > 1):
            dest = t["dest"]["l"]
            branched = any(b.blocks[y]["term"]["k"] == "switch" and b.blocks[y]["term"]["discr"]["k"] in ("copy", "move") and
                           b.blocks[y]["term"]["discr"]["pl"]["l"] == dest for y in body)
            c = comp_of(b.value(t["args"][1]))
            if branched and c != "key":
                reasons.append("first-wins filter: %s on the %s component decides which element is used (the first one in hash order wins)" % (nm, c or "derived value"))
        # first-wins insert: `map.entry(k).or_insert_with(|| value_of_this_element)` with k not the iteration key - several elements share k and
        # the one that comes first in hash order decides the stored value
        if q.endswith(("Entry::or_insert", "Entry::or_insert_with")) and len(t["args"]) > 1:
            ev = b.value(t["args"][0])
            ekey = None
            for n in vt_walk(ev):
                if n[0] == "call" and strip_generics(n[1]).endswith(("HashMap::entry", "BTreeMap::entry")) and len(n[2]) > 1:
                    ekey = comp_of(n[2][1])
            vv = b.value(t["args"][1])
            const_val = vv[0] == "const" or (vv[0] == "call" and not vv[2])
            if q.endswith("or_insert_with"):
                const_val = not (t["callee"].get("closures") or any(n[0] == "agg" for n in vt_walk(vv)))
            # a value that depends only on the same component as the entry key is the same for every element that shares the key
            comps = set()
            srcs = [vv]
            for cp_ in (t["callee"].get("closures") or []):
                cb_ = b.facts.bodies.get(cp_)
                if cb_ is not None:
                    # what the closure captured: the operands of its aggregate in this body
                    for n in vt_walk(vv):
                        if n[0] == "agg":
                            srcs += list(n[2])
            for sv in srcs:
                for n in vt_walk(sv):
                    if n[0] == "field" and n[1][0] == "field" and n[1][1][0] == "downcast":
                        base = n[1][1][1]
                        if (base[0] == "local" and base[1] == item) or (base[0] == "call" and strip_generics(base[1]).endswith("Iterator::next")):
                            comps.add("key" if n[2] == "0" else "value")
            if comps and comps <= {ekey}:
                const_val = True
            if ekey is not None and ekey != "key" and not const_val:
                reasons.append("first-wins insert: entry(<%s component>).%s(<value of this element>) keeps the value of whichever element comes first in hash order" % (ekey, nm))
        # appends to an ordered sink declared outside the loop
        if q.endswith(("Vec::push", "String::push_str", "Vec::extend_from_slice", "VecDeque::push_back", "Write::write_all", "Write::write_fmt")):
            recv = b.value(t["args"][0])
            keyed = any(n[0] == "call" and strip_generics(n[1]).endswith(("HashMap::entry", "HashMap::get_mut", "Entry::or_default", "Entry::or_insert", "Entry::or_insert_with"))
                        for n in vt_walk(recv))
            root = K.root_local(b, t["args"][0])
            defined_inside = root is not None and any(d[1] in body for d in b.defs().get(root, []))
            if not keyed and not defined_inside:
                reasons.append("appends to an ordered container (%s) in hash order" % nm)
    # early exits other than iterator exhaustion and error propagation
    succ = b.succ_map()
    for x in body:
        for y in succ[x]:
            if y in body:
                continue
            t = b.blocks[x]["term"]
            if t["k"] == "switch" and "enum_place" in t and t["enum_place"]["l"] == item:
                continue   # None
            # error propagation: the exit path performs from_residual / returns an Err
            reach = b.reach_from(y)
            is_err = any(b.blocks[z]["term"]["k"] == "call" and strip_generics(b.blocks[z]["term"]["callee"].get("path", "")).endswith("from_residual") for z in list(reach)[:400]) and \
                not any(z in body for z in reach)
            pan = not any(z in b.exits() for z in reach)    # the exit can only panic / unwind
            if t["k"] == "switch" and not is_err and not pan:
                # is it a `?`-style switch on a Try::branch result?
                dv = b.value(t["discr"]) if t.get("discr") else None
                s_ = vt_str(dv) if dv else ""
                if "Try::branch" in s_:
                    continue
                reasons.append("leaves the loop early (break / return) on a condition other than exhaustion: the result depends on which element comes first")
    return sorted(set(reasons))


def r3(F, R, P, rid="C14-R3", scope_pred=None):
    R.rule(rid, "no order-sensitive use of a default-hasher HashMap/HashSet iteration on the storage paths: no first-wins membership filter on a non-key "
                "component, no early exit, no append to an ordered container in hash order, no first / nth / find / fold on a hash iterator, no collect "
                "into an ordered container; per-key effects, inserts keyed by the iteration key and commutative reductions are order-insensitive")
    if scope_pred is None:
        scope_pred = lambda b: b.path.startswith(("storage::", "<storage::")) or (b.parent.get("self_adt") or "").startswith("sampler::ChainProgress")
    its = hash_iterations(F, scope_pred)
    n = 0
    idx = {}
    for (b, kind, bb, t, det) in its:
        k0 = "%s:%s" % (b.path, kind.split(":")[0])
        idx[k0] = idx.get(k0, 0) + 1
        key = "%s#%d" % (k0, idx[k0])
        site = "%s @%s" % (b.path, loc(t["span"]))
        if kind == "loop":
            reasons = classify_hash_loop(b, bb, t, det[0], det[1])
            if reasons:
                R.bad(rid, key, site, "hash-ordered loop is order-sensitive: " + "; ".join(reasons))
            else:
                R.ok(rid, key, site, "hash-ordered loop with per-element / per-key effects only")
        elif kind == "first" or kind.startswith("adaptor:"):
            R.bad(rid, key, site, "%s on a hash iterator picks an element by hash order" % kind)
        elif kind == "collect":
            dty = det or ""
            if dty.startswith(("std::collections::HashMap<", "std::collections::HashSet<", "std::collections::BTreeMap<", "std::collections::BTreeSet<")) or "HashMap<" in dty.split("<")[0:2][-1] if False else \
               dty.startswith(("std::collections::HashMap<", "std::collections::HashSet<", "std::collections::BTreeMap<", "std::collections::BTreeSet<")):
                R.ok(rid, key, site, "collected into an unordered / sorted container")
            elif dty.startswith("std::result::Result<std::collections::Hash") or dty.startswith("std::result::Result<std::collections::BTree"):
                R.ok(rid, key, site, "collected into an unordered / sorted container")
            else:
                R.bad(rid, key, site, "hash iteration collected into an ordered container (%s)" % dty[:60])
        elif kind.startswith("commutative:"):
            R.ok(rid, key, site, "%s is order-insensitive" % kind.split(":")[1])
        else:
            R.bad(rid, key, site, "unclassified consumer of a hash iterator: %s" % kind)
    # positive control
    pits = hash_iterations(P, lambda b: b.path.startswith("c14_"))
    found = set()
    for (b, kind, bb, t, det) in pits:
        if kind == "loop":
            if classify_hash_loop(b, bb, t, det[0], det[1]):
                found.add(b.path)
        elif kind == "first" or kind.startswith("adaptor:"):
            found.add(b.path)
    need = {"c14_first_of_map", "c14_push_in_hash_order", "c14_first_wins_filter"}
    if need <= found:
        R.ok(rid, "positive-control", "fixtures/positive", "the three planted order-sensitive iterations are reported")
    else:
        R.bad(rid, "positive-control", "fixtures/positive", "matcher misses planted constructs: %s" % sorted(need - found))
    R.floor(rid, 20)


# ---------------------------------------------------------------------------------------------
# R5 write-only configuration, R6 literal names, R7 worker hands over the chain's own values
# ---------------------------------------------------------------------------------------------
def r5(F, R):
    R.rule("C14-R5", "every field of a type implementing StorageConfig is read somewhere outside its constructor / builder methods (a knob that is only ever "
                     "written has no effect)")
    cfgs = sorted({i["self_adt"] for i in F.impls_of_trait("StorageConfig") if i.get("self_adt")})
    reads = set()
    for b in F.bodies.values():
        if K.is_std_derive(b):
            continue
        for blk in b.blocks:
            if blk["cleanup"]:
                continue
            places = []
            for st in blk["stmts"]:
                if st["k"] == "assign":
                    from .facts import _rvalue_operands
                    rv = st["rv"]
                    if rv["k"] == "agg":
                        # struct update / move of a field into another struct counts as a read of that field
                        pass
                    for o in _rvalue_operands(rv):
                        if o["k"] in ("copy", "move"):
                            places.append(o["pl"])
            t = blk["term"]
            if t["k"] == "call":
                places += [a["pl"] for a in t["args"] if a["k"] in ("copy", "move")]
            elif t["k"] == "switch" and t["discr"]["k"] in ("copy", "move"):
                places.append(t["discr"]["pl"])
            for pl in places:
                for e in pl["p"]:
                    if isinstance(e, dict) and "f" in e and e.get("n") and e.get("of"):
                        reads.add((strip_generics(e["of"]), e["n"], b.path))
    for adt in cfgs:
        a = F.adts.get(adt)
        if not a:
            continue
        for f in a["variants"][0]["fields"]:
            rd = [p for (o, n, p) in reads if o == strip_generics(adt) and n == f["name"]]
            # reads inside builder methods that only move the field back into Self do not count: require a reader in new_trace (or below)
            eff = [p for p in rd if "new_trace" in p or not p.startswith(strip_generics(adt))]
            key = "%s.%s" % (adt, f["name"])
            site = "%s @%s" % (adt, loc(a.get("span")))
            if eff:
                R.ok("C14-R5", key, site, "read in %s" % sorted(set(eff))[0][-60:])
            else:
                R.bad("C14-R5", key, site, "configuration field `%s` is never read by new_trace or anything it calls: setting it has no effect" % f["name"])
    R.floor("C14-R5", 8)


def r6(F, R):
    R.rule("C14-R6", "every string literal a backend uses to look a statistic up by name (CSV's Stan-style columns) is a declared statistic name of at least one "
                     "preset; duplicates in the flattened schema are decided by C16-R8")
    from . import schema as S
    from . import c16 as C16
    impls = S.storable_impls(F)
    decl = {}
    for im in impls:
        if "names" in im.fn and "get_all" in im.fn:
            decl[C16.impl_key(im)] = {"names": S.names_entries(im.fn["names"])}
    all_names = set()
    for st in F.settings_stats:
        all_names |= set(C16.flat_names(F, decl, st["stats_ty"]))
    n = 0
    # the CSV writer: the function that receives record_sample's `stats` argument
    recs = [b for b in F.trait_method_impls("ChainStorage", "record_sample") if "csv" in b.path]
    targets = []
    for rb in recs:
        for bb, t in rb.calls():
            tgt = t["callee"].get("resolved") or t["callee"].get("path")
            hb = F.bodies.get(tgt)
            if hb is None or not hb.hir:
                continue
            for ai, a in enumerate(t["args"]):
                v = rb.value(a)
                base = v
                while base[0] in ("ref", "deref"):
                    base = base[1]
                if base[0] == "arg" and base[1] == 3:      # record_sample(&mut self, settings, stats, draws, info): stats is MIR arg 3
                    targets.append((hb, ai))
    for hb, ai in targets:
        pb = K.param_bindings(hb)
        stats_id = pb[ai][0] if ai < len(pb) else None
        if stats_id is None:
            continue
        h = hb.hir["value"]
        derived = {stats_id}
        closures = {}
        for x in hir_walk(h):
            if x.get("k") == "Let" and x["pat"].get("k") == "Binding" and x.get("init") is not None:
                ids = {K.local_id(y) for y in hir_walk(x["init"]) if y.get("k") == "Path"}
                init = K.peel(x["init"])
                if init.get("k") == "Closure":
                    # closure that looks its parameter up in a derived map
                    pids = set()
                    for p in init.get("params", []):
                        for q in hir_walk(p):
                            if q.get("k") == "Binding":
                                pids.add(q["id"])
                    for y in hir_walk(init["body"]):
                        if y.get("k") == "MethodCall" and y.get("method") == "get" and K.local_id(y["recv"]) in derived and y["args"] and K.local_id(y["args"][0]) in pids:
                            closures[x["pat"]["id"]] = True
                elif ids & derived:
                    derived.add(x["pat"]["id"])
        lits = []
        for x in hir_walk(h):
            if x.get("k") == "MethodCall" and x.get("method") == "get" and K.local_id(x["recv"]) in derived and x["args"]:
                a0 = K.peel(x["args"][0])
                if a0.get("k") == "Lit" and a0["lit"]["lk"] == "str":
                    lits.append((a0["lit"]["v"], x))
            if x.get("k") == "Call" and K.local_id(x["f"]) in closures and x["args"]:
                a0 = K.peel(x["args"][0])
                if a0.get("k") == "Lit" and a0["lit"]["lk"] == "str":
                    lits.append((a0["lit"]["v"], x))
        for lit, node in lits:
            n += 1
            key = "%s:lookup:%s" % (hb.path, lit)
            site = "%s @%s" % (hb.path, loc(node.get("span") or hb.span))
            if lit in all_names:
                R.ok("C14-R6", key, site, "`%s` is a declared statistic" % lit)
            else:
                R.bad("C14-R6", key, site, "the CSV backend looks up statistic `%s`, which no preset declares: the column is always NA" % lit)
    if n == 0:
        R.info("C14-R6", "no literal statistic lookups found in the CSV backend")
    R.floor("C14-R6", 5)


def r7(F, R):
    R.rule("C14-R7", "the worker passes to record_sample the get_all() of the stats and of the draw data returned by the same expanded_draw call, together with the "
                     "Progress of that call")
    from . import c10 as C10
    if "parallel" not in C10.features(F):
        return
    w = C10.worker_body(F)
    if w is None:
        R.missing("C14-R7", "worker closure")
        return
    rec = w.calls_to(lambda c: path_ends(c["path"], "ChainStorage::record_sample"))
    drw = w.calls_to(lambda c: path_ends(c["path"], "Chain::expanded_draw"))
    if len(rec) != 1 or len(drw) != 1:
        R.bad("C14-R7", "worker:record", w.path, "expected one record_sample and one expanded_draw call (found %d / %d)" % (len(rec), len(drw)))
        return
    bb, t = rec[0]
    site = "%s @%s" % (w.path, loc(t["span"]))
    tup = None
    # the tuple local that receives the draw: (point, draw_data, stats, info) by position in the Ok payload
    vals = [w.value(a) for a in t["args"]]

    def from_draw(v):
        return any(n[0] == "call" and n[1].endswith("Chain::expanded_draw") for n in vt_walk(v))

    def comp_index(v):
        # field index into the draw tuple
        for n in vt_walk(v):
            if n[0] == "field" and n[2] in ("0", "1", "2", "3") and from_draw(n[1]):
                return int(n[2])
        return None
    names = ["storage", "settings", "stats", "draws", "info"]
    got = {}
    for nm, a, v in zip(names, t["args"], vals):
        root = K.root_local(w, a)
        rv = w.local_value(root) if root is not None else v
        got[nm] = (v, rv)
    ok_stats = got["stats"][0][0] == "call" and got["stats"][0][1].endswith("Storable::get_all")
    ok_draws = got["draws"][0][0] == "call" and got["draws"][0][1].endswith("Storable::get_all")

    def recv_comp(v):
        if v[0] != "call" or not v[2]:
            return None
        r0 = v[2][0]
        # receiver is `&mut <local>`; the local is one component of the tuple
        root = None
        for n in vt_walk(r0):
            if n[0] == "local":
                root = n[1]
        if root is None:
            return comp_index(r0)
        ds = w.defs().get(root, [])
        for d in ds:
            if d[0] == "stmt" and d[3]["k"] == "assign":
                c = comp_index(w.rvalue_value(d[3]["rv"]))
                if c is not None:
                    return c
                # moved out of the tuple local: `_103 = move _106.1`
                rvv = d[3]["rv"]
                if rvv["k"] == "use" and rvv["op"]["k"] in ("copy", "move"):
                    pl = rvv["op"]["pl"]
                    fs = [e["f"] for e in pl["p"] if isinstance(e, dict) and "f" in e]
                    src = w.local_value(pl["l"])
                    if fs and (from_draw(src) or any(from_draw(w.rvalue_value(dd[3]["rv"])) for dd in w.defs().get(pl["l"], []) if dd[0] == "stmt" and dd[3]["k"] == "assign")):
                        return fs[-1]
        return None
    cs, cd = recv_comp(got["stats"][0]), recv_comp(got["draws"][0])
    info_v = got["info"][0]
    ci = None
    root = K.root_local(w, t["args"][4])
    for d in w.defs().get(root, []) if root is not None else []:
        if d[0] == "stmt" and d[3]["k"] == "assign" and d[3]["rv"]["k"] == "use" and d[3]["rv"]["op"]["k"] in ("copy", "move"):
            pl = d[3]["rv"]["op"]["pl"]
            fs = [e["f"] for e in pl["p"] if isinstance(e, dict) and "f" in e]
            if fs:
                ci = fs[-1]
    # positions in expanded_draw's tuple: 0 position, 1 draw data, 2 stats, 3 progress (from the trait signature)
    if ok_stats and ok_draws and cs == 2 and cd == 1 and ci == 3:
        R.ok("C14-R7", "worker:record-args", site, "record_sample(stats.get_all(), draw_data.get_all(), &info) of the same expanded_draw result (components 2, 1, 3)")
    else:
        R.bad("C14-R7", "worker:record-args", site, "record_sample arguments are not the components of the same draw: stats<-component %s (get_all: %s), draws<-component %s "
              "(get_all: %s), progress<-component %s" % (cs, ok_stats, cd, ok_draws, ci))
    R.floor("C14-R7", 1)


def r4(F, R):
    R.rule("C14-R4", "warm-up / sampling routing: in every backend the container pair selected by the tuning flag is oriented the same way at every selection site "
                     "(push, flush, finalize), the selector is Progress.tuning or a flag written only from it, and in HashMap finalisation the warm-up part comes "
                     "first in the combined vector")
    from . import c15 as C15
    n = 0
    for adt_path, a in sorted(F.adts.items()):
        if a["kind"] != "struct" or not adt_path.startswith("storage::"):
            continue
        fields = [f["name"] for f in a["variants"][0]["fields"]]
        pairs = {}
        for f in fields:
            for w_, s_ in (("warmup_", "sample_"),):
                if f.startswith(w_) and (s_ + f[len(w_):]) in fields:
                    pairs[f] = s_ + f[len(w_):]
        if not pairs:
            continue
        # selection sites: bodies of this module that read both members of a pair on opposite edges of one boolean switch
        for b in sorted(F.bodies.values(), key=lambda x: x.path):
            if not (b.parent.get("self_adt") or "").startswith(adt_path.rsplit("::", 1)[0]) and not b.path.startswith(adt_path.rsplit("::", 1)[0]):
                continue
            for bi, blk in enumerate(b.blocks):
                t = blk["term"]
                if t["k"] != "switch" or t.get("discr_ty") != "bool":
                    continue
                tgt_true = t["otherwise"] if all(x["val"] == 0 for x in t["arms"]) else next((x["target"] for x in t["arms"] if x["val"] != 0), None)
                tgt_false = next((x["target"] for x in t["arms"] if x["val"] == 0), t["otherwise"])
                if tgt_true is None or tgt_true == tgt_false:
                    continue

                def fields_on(start, other):
                    # fields of the pair read before the two edges join again
                    seen = set()
                    x = start
                    for _ in range(12):
                        for st in b.blocks[x]["stmts"]:
                            if st["k"] == "assign" and st["rv"]["k"] in ("ref", "use"):
                                pl = st["rv"].get("pl") or (st["rv"]["op"].get("pl") if st["rv"]["k"] == "use" and st["rv"]["op"]["k"] in ("copy", "move") else None)
                                if pl:
                                    for e in pl["p"]:
                                        if isinstance(e, dict) and e.get("n") in pairs or isinstance(e, dict) and e.get("n") in pairs.values():
                                            seen.add(e["n"])
                        tt = b.blocks[x]["term"]
                        if tt["k"] == "call":
                            for a_ in tt["args"]:
                                for nn in vt_walk(b.value(a_)):
                                    if nn[0] == "field" and (nn[2] in pairs or nn[2] in pairs.values()):
                                        seen.add(nn[2])
                        ss = b.succ_map()[x]
                        if len(ss) != 1:
                            break
                        x = ss[0]
                    return seen
                ft, ff = fields_on(tgt_true, tgt_false), fields_on(tgt_false, tgt_true)
                for wf, sf in pairs.items():
                    if (wf in ft and sf in ff) or (sf in ft and wf in ff):
                        n += 1
                        dv = b.value(t["discr"])
                        s_ = vt_str(dv)
                        key = "%s:bb-switch:%s" % (b.path, wf)
                        site = "%s @%s" % (b.path, loc(b.blocks[tgt_true]["term"].get("span") or b.span))
                        sel_ok = ("tuning" in s_ or "warmup" in s_ or "is_warmup" in s_)
                        if wf in ft and sf in ff and sel_ok:
                            R.ok("C14-R4", key, site, "%s on the tuning edge, %s otherwise (selector %s)" % (wf, sf, s_[:50]))
                        elif sel_ok:
                            R.bad("C14-R4", key, site, "routing swapped: %s is used when %s is TRUE" % (sf, s_[:60]))
                        else:
                            R.bad("C14-R4", key, site, "warm-up / sampling containers selected by %s, which is not the tuning flag" % s_[:80])
    R.floor("C14-R4", 12)


def r14(F, R):
    R.rule("C14-R14", "what was recorded comes back as recorded: (a) ArrowBuilder::append_value - the function that stores a *present* value - never appends a null "
                      "(append_null / append_option / append_nulls): an empty string or a zero is a value, not a missing one; (b) the ndarray backend allocates "
                      "exactly hint_num_tune() + hint_num_draws() rows along the draw axis - no max / min / rounding of that extent, so an empty run has no rows")
    feats = ([c for c in F.crates if c["name"] == "nuts_rs"] or [{}])[0].get("features") or []
    n = 0
    if "arrow" in feats:
        bs = [b for b in F.inherent_methods("ArrowBuilder", "append_value")]
        if not bs:
            R.missing("C14-R14", "ArrowBuilder::append_value")
        for b in bs:
            n += 1
            group = [b] + K.all_closures_of(F, b.path)
            nulls = [(x, t) for x in group for _bb, t in x.calls() if t["callee"].get("name") in ("append_null", "append_nulls", "append_option")]
            site = "%s @%s" % (b.path, b.loc())
            if nulls:
                R.bad("C14-R14", "ArrowBuilder::append_value:null-for-value", "%s @%s" % (nulls[0][0].path, loc(nulls[0][1]["span"])),
                      "a present value is stored through `%s`: some recorded values come back as null (not recorded)" % nulls[0][1]["callee"]["name"])
            else:
                R.ok("C14-R14", "ArrowBuilder::append_value:null-for-value", site, "present values are appended as values (no null-producing builder call)")
    if "ndarray" in feats:
        bs = [b for b in F.trait_method_impls("StorageConfig", "new_trace") if "ndarray" in b.path]
        if not bs:
            R.missing("C14-R14", "NdarrayConfig::new_trace")
        for b in bs:
            n += 1
            site = "%s @%s" % (b.path, b.loc())
            ext = []
            for bi, blk in enumerate(b.blocks):
                if blk["cleanup"]:
                    continue
                for st in blk["stmts"]:
                    if st["k"] == "assign" and st["rv"]["k"] == "agg" and st["rv"].get("ak") == "array" and len(st["rv"]["ops"]) == 2:
                        v1 = b.value(st["rv"]["ops"][1])
                        s1 = vt_str(v1)
                        if "hint_num_tune" in s1 or "hint_num_draws" in s1:
                            ext.append((st, v1))
            if not ext:
                R.bad("C14-R14", "ndarray:draw-extent", site, "cannot find the [n_chains, total_draws] shape of the arrays")
                continue
            bad = None
            for (st, v1) in ext:
                calls = [strip_generics(x[1]).split("::")[-1] for x in vt_walk(v1) if x[0] == "call"]
                extra = [c for c in calls if c not in ("hint_num_tune", "hint_num_draws")]
                s1 = vt_str(v1)
                if extra or not ("hint_num_tune" in s1 and "hint_num_draws" in s1):
                    bad = (st, s1, extra)
            if bad:
                R.bad("C14-R14", "ndarray:draw-extent", "%s @%s" % (b.path, loc(bad[0]["span"])), "the draw axis is allocated with %s (extra operations %s), not exactly "
                      "num_tune + num_draws rows: rows that no chain recorded appear in the trace" % (bad[1][:80], bad[2]))
            else:
                R.ok("C14-R14", "ndarray:draw-extent", site, "draw axis = hint_num_tune() + hint_num_draws() (%d array shapes)" % len(ext))
    if n == 0:
        R.info("C14-R14", "neither the arrow nor the ndarray backend is compiled in this configuration")


def r15(F, R):
    R.rule("C14-R15", "the backends agree on where the sizes of the statistics' dimensions come from: a StorageConfig::new_trace that reads the statistics' "
                      "dimension names (Settings::stat_dims_all) takes their sizes from Settings::stat_dim_sizes - the sampler declares `unconstrained_parameter` "
                      "itself - and not from the model's own table (Math::dim_sizes), which need not contain it: a backend that does refuses models the other "
                      "backends accept")
    n = 0
    for b in sorted(F.trait_method_impls("StorageConfig", "new_trace"), key=lambda x: x.path):
        group = [b] + K.all_closures_of(F, b.path)
        names = {strip_generics(t["callee"].get("path", "")).split("::")[-1] for x in group for _bb, t in x.calls() if t["callee"].get("trait") and
                 path_ends(t["callee"]["trait"], "Settings")}
        if "stat_dims_all" not in names and "stat_dims" not in names:
            continue
        n += 1
        site = "%s @%s" % (b.path, b.loc())
        key = "%s:stat-dim-sizes" % (b.parent.get("self_adt") or b.path).split("::")[-1]
        if "stat_dim_sizes" in names:
            R.ok("C14-R15", key, site, "statistic dimensions are sized by Settings::stat_dim_sizes")
        else:
            R.bad("C14-R15", key, site, "this backend reads the statistics' dimension names but never Settings::stat_dim_sizes: the sizes are looked up in the model's "
                  "own dimension table, where `unconstrained_parameter` need not exist (new_trace fails with `Unknown dimension`)")
    if n == 0:
        R.info("C14-R15", "no backend that sizes statistic arrays by dimension is compiled in this configuration")


def _phase_flag(b):
    """The remembered phase flag of a backend: the bool field of self that record_sample clears (`self.flag = false`)."""
    for bi, blk in enumerate(b.blocks):
        if blk["cleanup"]:
            continue
        for st in blk["stmts"]:
            if st["k"] == "assign" and st["pl"]["l"] == 1 and st["pl"]["p"] and isinstance(st["pl"]["p"][-1], dict) and st["pl"]["p"][-1].get("ty") == "bool":
                v = b.rvalue_value(st["rv"])
                if v[0] == "const" and v[2] == "false":
                    return st["pl"]["p"][-1].get("n")
    return None


def r13(F, R):
    R.rule("C14-R13", "event counts are attributed to the phase they were recorded in: a backend that remembers the phase in a flag and reports per-dimension "
                      "(warm-up, sampling) event counts from finalize / inspect makes that pair depend on the flag - the count taken from the live buffers belongs "
                      "to the warm-up phase as long as the chain has not switched. Otherwise a run that ends in warm-up (num_draws = 0, abort) reports its warm-up "
                      "events as sampling events and the trace-level finalize trims the warm-up event arrays to length 0")
    n = 0
    for rb in F.trait_method_impls("ChainStorage", "record_sample"):
        flag = _phase_flag(rb)
        if not flag:
            continue
        impl = rb.parent.get("impl")
        for fn in ("finalize", "inspect"):
            for b in F.trait_method_impls("ChainStorage", fn):
                if b.parent.get("impl") != impl:
                    continue
                group = [b] + K.all_closures_of(F, b.path)
                pairs = []        # (body, bb) of every (u64, u64) tuple construction / whole store
                for x in group:
                    for bi, blk in enumerate(x.blocks):
                        if blk["cleanup"]:
                            continue
                        for st in blk["stmts"]:
                            if st["k"] == "assign" and st["rv"]["k"] == "agg" and st["rv"].get("ak") == "tuple" and len(st["rv"]["ops"]) == 2 and \
                               all((o.get("k") == "const" and "u64" in str(o["const"].get("ty"))) or (o.get("k") in ("copy", "move") and str(o["pl"].get("ty")) == "u64") for o in st["rv"]["ops"]):
                                pairs.append((x, bi))
                if not pairs:
                    continue
                n += 1
                site = "%s @%s" % (b.path, b.loc())
                key = "%s:%s-counts-by-phase" % ((b.parent.get("self_adt") or b.path).split("::")[-1], fn)
                dep = False
                for (x, bi) in pairs:
                    for (a, _s) in x.control_deps_trans(bi):
                        t = x.blocks[a]["term"]
                        if t["k"] != "switch" or t.get("discr_ty") != "bool":
                            continue
                        sl = x.slice([t["discr"]], control=False)
                        if flag in sl["fields"]:
                            dep = True
                        if x.kind == "closure" and any(str(c.get("place", "")).endswith("." + flag) for c in x.captures) and (sl["upvars"] or sl["args"]):
                            dep = True
                if dep:
                    R.ok("C14-R13", key, site, "the (warm-up, sampling) counts are built under a test of `%s`" % flag)
                else:
                    R.bad("C14-R13", key, site, "the (warm-up, sampling) event counts do not depend on the phase flag `%s`: the events of a chain that is still in "
                          "warm-up are reported as sampling events (and the warm-up event arrays are trimmed to 0 at finalisation)" % flag)
    if n == 0:
        R.info("C14-R13", "no backend with a remembered phase flag reports (warm-up, sampling) count pairs in this configuration")


def r8(F, R):
    """Phase switch first: a draw is accounted to the phase (warm-up / sampling) that is current after the switch block has run."""
    from .facts import _rvalue_operands
    R.rule("C14-R8", "in a backend whose record_sample switches from the warm-up to the sampling containers (a branch on the remembered phase flag and "
                     "info.tuning), nothing of the current draw (`stats`, `draws` parameters) is read before that branch: a value, count or event observed "
                     "before the switch is attributed to the warm-up phase although the draw is the first sampling draw")
    n = 0
    for b in F.trait_method_impls("ChainStorage", "record_sample"):
        names = {b.local_name(i): i for i in range(1, b.arg_count + 1)}
        data_args = {i for nm, i in names.items() if nm in ("stats", "draws")}
        if len(data_args) != 2:
            # parameters renamed: take the two Vec<(&str, Option<Value>)> parameters
            data_args = {i for i in range(1, b.arg_count + 1) if "Option<nuts_storable::Value>" in (b.local_ty(i) or "") and (b.local_ty(i) or "").startswith("std::vec::Vec<")}
        # the phase switch: the branch under which the remembered phase flag (a bool field of self) is cleared (`self.flag = false`)
        W = []
        for bi, blk in enumerate(b.blocks):
            if blk["cleanup"]:
                continue
            for st in blk["stmts"]:
                if st["k"] == "assign" and st["pl"]["l"] == 1 and st["pl"]["p"] and isinstance(st["pl"]["p"][-1], dict) and st["pl"]["p"][-1].get("ty") == "bool":
                    v = b.rvalue_value(st["rv"])
                    if v[0] == "const" and v[2] == "false":
                        W.append((bi, st["pl"]["p"][-1].get("n")))
        if not W:
            continue        # backends without a phase switch in record_sample (one container family, or routing by info.tuning per value)
        wb_, flag = W[0]
        sw = []
        for (a, _s) in b.control_deps_trans(wb_):
            t = b.blocks[a]["term"]
            if t["k"] == "switch" and t.get("discr_ty") == "bool":
                sl = b.slice([t["discr"]], control=False)
                if flag in sl["fields"] or "tuning" in sl["fields"]:
                    sw.append(a)
        first = [x for x in sw if all(b.dominates(x, y) for y in sw)]
        if not first:
            R.bad("C14-R8", b.path + ":switch", "%s @%s" % (b.path, b.loc()), "cannot find the branch that clears the phase flag `%s`" % flag)
            continue
        S = first[0]
        n += 1
        early = []
        for bi, blk in enumerate(b.blocks):
            if blk["cleanup"] or b.dominates(S, bi) or bi not in b.reach_from(0):
                continue
            used = False
            for st in blk["stmts"]:
                if st["k"] == "assign":
                    for o in _rvalue_operands(st["rv"]):
                        if o.get("k") in ("copy", "move") and o["pl"]["l"] in data_args:
                            used = True
                    if st["rv"]["k"] in ("ref", "rawptr") and st["rv"]["pl"]["l"] in data_args:
                        used = True
            t = blk["term"]
            if t["k"] == "call":
                for a in t["args"]:
                    if a["k"] in ("copy", "move") and K.root_local(b, a) in data_args:
                        used = True
            if used:
                early.append(loc((blk["term"].get("span") or b.span)))
        key = b.path + ":phase-switch-first"
        site = "%s @%s" % (b.path, loc(b.blocks[S]["term"].get("span") or b.span))
        if early:
            R.bad("C14-R8", key, site, "the draw's values are read before the warm-up -> sampling switch (%s): what is derived from them there lands in the warm-up phase" % ", ".join(sorted(set(early))[:3]))
        else:
            R.ok("C14-R8", key, site, "the phase switch dominates every read of the draw's values")
    R.floor("C14-R8", 2 if "zarr" in (C10f(F)) else 0)


def C10f(F):
    from . import c10
    return c10.features(F)



BUF_BYPASS = ("buffer", "get_ref", "get_mut", "into_parts", "into_inner")


def r9(F, R, P):
    """Buffered writers are written through, never around."""
    R.rule("C14-R9", "no storage backend reaches around a std::io::BufWriter (%s): bytes handed to the inner file while the same bytes are still "
                     "in the buffer are written twice (rows and header duplicated), bytes written around a non-empty buffer land in the wrong order" % ", ".join(BUF_BYPASS))

    def scan(FF):
        out = []
        for b in sorted(FF.bodies.values(), key=lambda x: x.path):
            for bb, t in b.calls():
                c = t["callee"]
                pth = strip_generics(c.get("path", ""))
                if "BufWriter" in pth and pth.split("::")[-1] in BUF_BYPASS:
                    out.append((b, t, pth))
        return out
    nw = 0
    for b in F.bodies.values():
        for bb, t in b.calls():
            if "BufWriter" in strip_generics(t["callee"].get("path", "")):
                nw += 1
    for (b, t, pth) in scan(F):
        if pth.endswith("into_inner"):
            # consuming the writer flushes it first; allowed
            R.ok("C14-R9", "%s:%s" % (b.path, pth.split("::")[-1]), "%s @%s" % (b.path, loc(t["span"])), "into_inner flushes before handing out the file")
            continue
        R.bad("C14-R9", "%s:%s" % (b.path, pth.split("::")[-1]), "%s @%s" % (b.path, loc(t["span"])), "%s reaches around the buffered writer" % pth)
    R.ok("C14-R9", "scan", "library crates", "%d BufWriter call sites scanned" % nw)
    got = {b.path.split("::")[-1] for (b, _t, _p) in scan(P)}
    if "c14_bufwriter_bypass" in got:
        R.ok("C14-R9", "positive-control", "fixtures/positive", "matcher reports the planted get_ref()/buffer() bypass")
    else:
        R.bad("C14-R9", "positive-control", "fixtures/positive", "matcher failed to report the planted BufWriter bypass")
    R.floor("C14-R9", 2)



def r10(F, R):
    """Arrow: the column builder and the schema field agree on scalar vs. list for every shape."""
    R.rule("C14-R10", "Arrow backend: ArrowBuilder::new chooses the plain (Scalar) or the list (Tensor) builder by the *rank* of the shape (is_empty / len of the shape "
                      "vector), and create_field_with_shape chooses the plain or the list field by the rank of the dims: a test of the element count would put "
                      "shapes like [1] or [1, 1] into a plain column under a list-typed schema field (RecordBatch::try_new fails, no trace is returned)")
    def rank_test(b, variants):
        """The switch that decides between building `variants[0]` and `variants[1]`; -> (is a rank test?, text)."""
        blocks = {}
        for bi, blk in enumerate(b.blocks):
            for st in blk["stmts"]:
                if st["k"] == "assign" and st["rv"]["k"] == "agg" and st["rv"].get("ak") == "adt" and st["rv"].get("variant") in variants:
                    blocks.setdefault(st["rv"]["variant"], bi)
        if len(blocks) != 2:
            return None
        a_, c_ = [blocks[v] for v in variants]
        da = {x for (x, _s) in b.control_deps_trans(a_)}
        dc = {x for (x, _s) in b.control_deps_trans(c_)}
        ea = {(x, s_) for (x, s_) in b.control_deps_trans(a_)}
        ec = {(x, s_) for (x, s_) in b.control_deps_trans(c_)}
        deciding = [x for x in (da & dc) if {s_ for (y, s_) in ea if y == x} != {s_ for (y, s_) in ec if y == x}]
        if len(deciding) != 1:
            return None
        t = b.blocks[deciding[0]]["term"]
        v = b.value(t["discr"])
        txt = vt_str(v)
        calls = [strip_generics(n[1]).split("::")[-1] for n in vt_walk(v) if n[0] == "call"]
        is_rank = bool(calls) and all(c in ("is_empty", "len", "deref", "as_slice", "borrow", "as_ref") for c in calls) and any(c in ("is_empty", "len") for c in calls)
        return is_rank, txt, loc(t.get("span"))
    n = 0
    for b in F.inherent_methods("ArrowBuilder", "new"):
        r_ = rank_test(b, ("Scalar", "Tensor"))
        key = b.path + ":builder-kind"
        site = "%s @%s" % (b.path, b.loc())
        n += 1
        if r_ is None:
            R.bad("C14-R10", key, site, "cannot find the decision between the Scalar and the Tensor builder")
        elif r_[0]:
            R.ok("C14-R10", key, site, "builder kind decided by %s" % r_[1][:80])
        else:
            R.bad("C14-R10", key, "%s @%s" % (b.path, r_[2]), "builder kind is decided by %s, not by the rank of the shape: a shape of ones gets a plain column under a list-typed field" % r_[1][:120])
    if n == 0 and "arrow" in C10f(F):
        R.missing("C14-R10", "ArrowBuilder::new")




def r16(F, R):
    R.rule("C14-R16", "a builder setter changes what it names and nothing else: every `fn(self, ..) -> Self` of a storage configuration type (CsvConfig, ZarrConfig, "
                      "ZarrAsyncConfig, ..) returns `self` with fields overwritten from its own parameters, or a struct all of whose other fields are moved out of "
                      "`self` - never one rebuilt from `Self::new(..)` / `Default::default()`, which silently resets what earlier setters configured (the order "
                      "`.store_warmup(false).with_precision(p)` must mean the same as the reverse)")
    n = 0
    for b in sorted(F.bodies.values(), key=lambda x: x.path):
        adt = b.parent.get("self_adt") or b.r.get("impl_self_adt") or ""
        if b.kind == "closure" or b.parent.get("trait") or not adt.startswith("storage::") or not adt.split("::")[-1].endswith("Config"):
            continue
        if b.arg_count < 2 or strip_generics(str(b.local_ty(1))) != strip_generics(adt) or strip_generics(str(b.r.get("output") or "")) not in (strip_generics(adt), "Self"):
            continue
        n += 1
        key = "%s:setter" % b.path
        site = "%s @%s" % (b.path, b.loc())
        bad = []
        for bi, blk in enumerate(b.blocks):
            if blk["cleanup"]:
                continue
            for st in blk["stmts"]:
                if st["k"] != "assign" or st["rv"]["k"] != "agg" or st["rv"].get("ak") != "adt" or strip_generics(st["rv"].get("adt") or "") != strip_generics(adt):
                    continue
                for fn, op in zip(st["rv"].get("fields") or [], st["rv"].get("ops") or []):
                    v = b.value(op)
                    roots = [x for x in vt_walk(v) if x[0] == "arg"]
                    calls = [x for x in vt_walk(v) if x[0] == "call"]
                    from_self_or_param = bool(roots) and not any(c for c in calls if not [y for y in vt_walk(c) if y[0] == "arg" and y[1] >= 2] and
                                                                   strip_generics(str(c[1])).split("::")[-1] in ("new", "default"))
                    field_of_ctor = v[0] == "field" and v[1][0] == "call"
                    if not from_self_or_param or field_of_ctor:
                        bad.append((fn, vt_str(v)[:60]))
        if bad:
            R.bad("C14-R16", key, site, "%s rebuilds the configuration: field(s) %s do not come from `self` or the setter's parameter - what earlier setters "
                  "configured (e.g. store_warmup) is reset" % (b.fn_name, ", ".join("%s = %s" % x for x in bad)))
        else:
            R.ok("C14-R16", key, site, "returns self with the named field set")
    R.floor("C14-R16", 2)




def _borrowed_from_field(b, l, field, depth=0):
    """True if local l is a reference obtained from `&mut self.<field>` through a chain of method calls on the receiver
    (`self.f.entry(k).or_insert(0)`): follows the receiver (first argument) of defining calls and plain moves only."""
    if depth > 8:
        return False
    for d in b.defs().get(l, []):
        if d[0] == "call":
            args = d[3]["args"]
            if args and args[0]["k"] in ("copy", "move") and _borrowed_from_field(b, args[0]["pl"]["l"], field, depth + 1):
                return True
        elif d[3]["k"] == "assign":
            rv = d[3]["rv"]
            pl = rv.get("pl") if rv["k"] in ("ref", "rawptr") else (rv["op"]["pl"] if rv["k"] == "use" and rv["op"]["k"] in ("copy", "move") else None)
            if pl is None:
                continue
            if any(isinstance(e, dict) and e.get("n") == field for e in pl["p"]):
                return True
            if not b.is_arg(pl["l"]) and pl["l"] != l and _borrowed_from_field(b, pl["l"], field, depth + 1):
                return True
    return False

def r19(F, R):
    R.rule("C14-R19", "the extent of the warmup event arrays is counted where the events live: every value stored into `warmup_event_counts` (the Zarr chain storages "
                      "trim the warmup event arrays to it in finalize) derives from `SampleBuffer::total_pushed()` called in the same function, and that call is not "
                      "reachable from a `SampleBuffer::reset` (a reset forgets the count; a copy of the count kept elsewhere is right only on the paths that refresh it). "
                      "A count that is too small drops recorded warmup events from the stored trace")
    n = 0
    for b in sorted(F.bodies.values(), key=lambda x: x.path):
        if not b.path.startswith(("storage::zarr", "<storage::zarr")) or "::tests::" in b.path or not b.mir:
            continue
        resets = [bb for bb, t in b.calls() if t["callee"].get("name") == "reset" and "SampleBuffer" in strip_generics(t["callee"].get("path", ""))]
        for bi, blk in enumerate(b.blocks):
            if blk["cleanup"]:
                continue
            for st in blk["stmts"]:
                if st["k"] != "assign" or not any(e == "deref" or (isinstance(e, dict) and e.get("k") == "deref") or e == "*" for e in st["pl"]["p"]):
                    continue
                if not _borrowed_from_field(b, st["pl"]["l"], "warmup_event_counts"):
                    continue
                ops = []
                rv = st["rv"]
                for k_ in ("op", "l", "r"):
                    if isinstance(rv.get(k_), dict):
                        ops.append(rv[k_])
                ops += [o for o in (rv.get("ops") or []) if isinstance(o, dict)]
                sl = b.slice(ops, control=False)
                n += 1
                fn_ = b.path
                key = "%s:count#%d" % (fn_.split("::{closure")[0], n)
                site = "%s @%s" % (b.path, loc(st["span"]))
                tp = [(bb, t) for bb, t in b.calls() if t["callee"].get("name") == "total_pushed" and t["dest"]["l"] in sl["locals"]]
                if not tp:
                    R.bad("C14-R19", key, site, "the value stored into warmup_event_counts does not come from SampleBuffer::total_pushed() in this function (reads: %s)"
                          % ", ".join(sorted(sl["fields"] - {"warmup_event_counts"}))[:200])
                    continue
                late = [bb for bb, _t in tp if any(bb in b.reach_from(r) for r in resets)]
                if late:
                    R.bad("C14-R19", key, site, "total_pushed() is read after SampleBuffer::reset on some path: the count of the warmup phase is gone by then")
                else:
                    R.ok("C14-R19", key, site, "count = max(count, total_pushed()), read before any reset")
    R.info("C14-R19", "stores into warmup_event_counts: %d" % n)
    feats = (([c for c in F.crates if c["name"] == "nuts_rs"] or [{}])[0].get("features") or [])
    if n < 2 and "zarr" in feats:
        R.missing("C14-R19", "stores into warmup_event_counts in storage::zarr (sync and async record_sample; found %d)" % n)


def r18(F, R):
    R.rule("C14-R18", "an empty dimension is stored by every Zarr code path: the chunk shape given to `ArrayBuilder::new` (coordinates, draws, statistics; sync and async) "
                      "is non-zero by construction - each component goes through `.max(1)` (directly, or in the closure of a `.map(..)` over the components) or is a "
                      "literal >= 1. zarrs rejects a chunk extent of 0 (`expected a nonzero u64`), so an extent copied from a length makes new_trace fail for a "
                      "zero-length coordinate or dimension in one backend while its sibling stores it (read off the source-level tree)")
    n = 0
    per_fn = {}
    for b in sorted(F.hir_bodies(), key=lambda x: x.path):
        if not b.hir or not b.path.startswith(("storage::zarr", "<storage::zarr")):
            continue
        lets = {}
        for x in hir_walk(b.hir["value"]):
            if x.get("k") == "Let" and isinstance(x.get("pat"), dict) and x["pat"].get("k") == "Binding" and x.get("init") is not None:
                lets[x["pat"]["id"]] = x["init"]
        for x in hir_walk(b.hir["value"]):
            if x.get("k") != "Call" or not isinstance(x.get("f"), dict) or not str((x["f"].get("res") or {}).get("def", "")).endswith("ArrayBuilder::new"):
                continue
            args = x.get("args") or []
            if len(args) < 2:
                continue
            n += 1
            e = K.peel(args[1])
            lid = K.local_id(e)
            src = lets.get(lid, e) if lid is not None else e
            guarded = False
            for y in hir_walk(src):
                if y.get("k") == "MethodCall" and y.get("method") == "max":
                    lits = [K.num_lit(a) for a in (y.get("args") or [])]
                    if any(v is not None and v >= 1 for v in lits):
                        guarded = True
            comps_lit = [K.num_lit(y) for y in hir_walk(src) if y.get("k") == "Lit"]
            fn_ = b.path.split("::{closure")[0]
            per_fn[fn_] = per_fn.get(fn_, 0) + 1
            key = "%s:chunk-shape#%d" % (fn_, per_fn[fn_])
            site = "%s @%s" % (b.path, loc(x["span"]))
            if guarded:
                R.ok("C14-R18", key, site, "chunk shape components pass through max(1)")
            else:
                R.bad("C14-R18", key, site, "the chunk shape is not guarded against 0 (no `.max(1)` on its components): a zero-length coordinate / dimension makes "
                      "ArrayBuilder reject the array (`expected a nonzero u64`) and new_trace fail, while the sibling backend stores it")
    feats = (([c for c in F.crates if c["name"] == "nuts_rs"] or [{}])[0].get("features") or [])
    R.floor("C14-R18", 3 if "zarr" in feats else 0)

def run(F, R, config="all"):
    r1(F, R)
    r2(F, R)
    P = K.positive_facts()
    r3(F, R, P)
    r4(F, R)
    r5(F, R)
    r6(F, R)
    r7(F, R)
    r8(F, R)
    r9(F, R, P)
    r10(F, R)
    r13(F, R)
    r14(F, R)
    r15(F, R)
    r16(F, R)
    r18(F, R)
    r19(F, R)
    # a write whose failure is dropped leaves fill values where recorded draws should be, without an error: no unread Result in the backends
    from . import c13
    def _storage_only(sub):
        c13.r6(F, sub)
        sub.obligations = [o for o in sub.obligations if "storage::" in o["site"] or o["ok"]]
    K.borrow_rule(R, _storage_only, "C14-R11", "no storage backend drops a Result without looking at it (C13-R6 analysis): a chunk or row whose write failed is reported, "
                  "not silently missing from the trace", only_rules={"C13-R6"})
    # the event arrays are trimmed to the largest recorded count per phase: a lexicographic maximum of (warmup, sampling) pairs cuts recorded events off
    from . import c15
    if "zarr" in (([c for c in F.crates if c["name"] == "nuts_rs"] or [{}])[0].get("features") or []):
        c15.r12(F, R, rid="C14-R17")
        K.borrow_rule(R, lambda sub: c15.r6(F, sub), "C14-R12", "event arrays keep every recorded event: per-dimension event counts of several chains are combined "
                      "component-wise, never by ordering (warmup, sampling) tuples (C15-R6 analysis)", only_rules={"C15-R6"})

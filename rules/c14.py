"""C14 - every storage backend returns exactly what the chains recorded (structural clauses)."""
from collections import defaultdict
from .facts import path_ends, loc, strip_generics, hir_walk, vt_walk, vt_str
from . import common as K

LEVEL = ("Static structural conditions of storage fidelity: variant coverage of every (container, Value) / (container, container) "
         "match against the ItemType->Value admissibility table (R1); statistics vs draw schema lanes never share a source in "
         "new_trace (R2); no order-sensitive (first-wins) iteration over default-hasher maps on record/finalize/inspect paths (R3); "
         "no write-only configuration field (R5); unique statistic names per preset and existing literal lookup names (R6); the worker "
         "hands the backend the values of the same expanded_draw call (R7). Cell-by-cell equality of stored values is not decided.")
EXPLANATION = ("COVER analysis over HIR match arms, slice-based lane labels in new_trace, ITER classification of HashMap iterations, "
               "EFF read/write inventory of StorageConfig fields, SCHEMA flattening of the six Stats types.")
TRUSTED = ["rustc nightly HIR/MIR", "nutsfacts extractor", "rules/c14.py, rules/schema.py"]
TECHNIQUE = "static analysis: match-coverage (COVER), taint lanes over MIR slices, unordered-iteration classification, field read/write inventory"

ADMISSIBLE = {
    "U64": ["ScalarU64", "U64"], "I64": ["ScalarI64", "I64"], "F64": ["ScalarF64", "F64"], "F32": ["ScalarF32", "F32"],
    "Bool": ["ScalarBool", "Bool"], "String": ["ScalarString", "Strings"],
}
PROPERTY_TYPES = ["F64", "F32", "I64", "U64", "Bool", "String"]


def container_enums(F):
    """Local enums whose variants are named like ItemType variants (value containers of a backend)."""
    out = {}
    names = set(PROPERTY_TYPES)
    for p, a in F.adts.items():
        if a["kind"] != "enum" or "storage" not in p:
            continue
        vs = [v["name"] for v in a["variants"]]
        if len(vs) >= 4 and set(vs) <= names | {"DateTime64", "TimeDelta64"}:
            out[p] = vs
    return out


def _diverges(n):
    """HIR arm body certainly does not produce a normal value: 'panic' or 'err' (returns an Err)."""
    n = K.peel(n)
    k = n.get("k")
    if k == "Ret":
        e = n.get("e")
        if e:
            e = K.peel(e)
            if e.get("k") == "Call" and K.peel(e["f"]).get("res", {}).get("name") == "Err":
                return "err"
        return None
    if k == "Call":
        f = K.peel(n["f"])
        if f.get("k") == "Path" and "panicking" in (f["res"].get("def") or ""):
            return "panic"
        return None
    if k == "Block":
        for s in n["stmts"]:
            if s.get("e"):
                d = _diverges(s["e"])
                if d:
                    return d
        if n.get("expr"):
            return _diverges(n["expr"])
        return None
    if n.get("ty") == "!":
        return "panic"
    return None


def _pat_variants(p, enum_variants):
    """Set of variants a sub-pattern can match (None = all)."""
    k = p.get("k")
    if k in ("Wild", "Binding"):
        return None
    if k == "Or":
        s = set()
        for q in p["pats"]:
            r = _pat_variants(q, enum_variants)
            if r is None:
                return None
            s |= r
        return s
    if k in ("Ref", "Box", "Deref"):
        return _pat_variants(p["pat"], enum_variants)
    v = K.pat_variant(p)
    return {v} if v else None


def new_mapping(F, enum_path):
    """ItemType variant -> container variant (or 'PANIC') from the `match item_type {..}` that builds `enum_path`."""
    best = None
    for b in F.bodies.values():
        if not b.hir or K.is_std_derive(b):
            continue
        for m in hir_walk(b.hir["value"]):
            if m.get("k") != "Match" or not path_ends(m.get("scrut_adt"), "ItemType"):
                continue
            mp = {}
            hit = False
            for a in m["arms"]:
                vs = _pat_variants(a["pat"], None)
                tgt = None
                for x in hir_walk(a["body"]):
                    if x.get("k") == "Path" and x["res"].get("enum") and path_ends(x["res"]["enum"], enum_path):
                        tgt = x["res"]["name"]
                        hit = True
                        break
                if tgt is None and _diverges(a["body"]):
                    tgt = "PANIC"
                for v in (vs or ["*"]):
                    mp[v] = tgt
            if hit:
                best = (b, m, mp)
    return best


def cover_matches(F):
    """All matches whose scrutinee is a 2-tuple with a container enum in first position."""
    cont = container_enums(F)
    out = []
    for b in F.bodies.values():
        if not b.hir or K.is_std_derive(b) or b.kind == "closure":
            continue
        for m in hir_walk(b.hir["value"]):
            if m.get("k") != "Match":
                continue
            s = K.peel(m["scrut"])
            if s.get("k") != "Tup" or len(s["es"]) != 2:
                continue
            t0 = s["es"][0].get("ty", "").replace("&mut ", "").replace("&", "").strip()
            t1 = s["es"][1].get("ty", "").replace("&mut ", "").replace("&", "").strip()
            c0 = [c for c in cont if path_ends(c, strip_generics(t0)) or strip_generics(t0).endswith(strip_generics(c))]
            if not c0:
                continue
            if path_ends(strip_generics(t1), "Value") and "nuts_storable" in t1:
                out.append((b, m, c0[0], "value"))
            elif any(strip_generics(t1).endswith(strip_generics(c)) for c in cont):
                out.append((b, m, c0[0], "diag"))
    return out


def r1(F, R, rid="C14-R1"):
    R.rule(rid, "for every backend container enum: new(ItemType) maps every property value type to a container; every (container(T), v) with v "
                "admissible for T and every diagonal (C, C) pair has a non-diverging arm; diverging wildcard arms cover only inadmissible pairs")
    cont = container_enums(F)
    if not cont:
        R.missing(rid, "backend container enums")
    maps = {}
    for c in sorted(cont):
        nm = new_mapping(F, c)
        if not nm:
            R.missing(rid, "new(ItemType) for %s" % c)
            continue
        b, m, mp = nm
        maps[c] = mp
        for t in PROPERTY_TYPES:
            tgt = mp.get(t, mp.get("*"))
            key = "%s:new:%s" % (c, t)
            site = "%s @%s" % (b.path, loc(m["span"]))
            if tgt in (None, "PANIC"):
                R.bad(rid, key, site, "ItemType::%s has no container in %s (%s)" % (t, c, tgt))
            else:
                R.ok(rid, key, site, "ItemType::%s -> %s" % (t, tgt))
    for (b, m, c, kind) in cover_matches(F):
        site = "%s @%s" % (b.path, loc(m["span"]))
        mp = maps.get(c, {})
        arms = []
        for a in m["arms"]:
            p = a["pat"]
            if p.get("k") == "Tuple" and len(p["pats"]) == 2:
                arms.append((_pat_variants(p["pats"][0], None), _pat_variants(p["pats"][1], None), _diverges(a["body"]), a))
            elif p.get("k") in ("Wild", "Binding"):
                arms.append((None, None, _diverges(a["body"]), a))
            else:
                arms.append((None, None, _diverges(a["body"]), a))

        def first_arm(cv, vv):
            for (s0, s1, div, a) in arms:
                if (s0 is None or cv in s0) and (s1 is None or vv in s1):
                    return (s0, s1, div, a)
            return None

        idx = sum(1 for (b2, m2, _c, _k) in cover_matches(F) if b2 is b and m2["span"]["line"] < m["span"]["line"])
        if kind == "value":
            for t in PROPERTY_TYPES:
                cv = mp.get(t, mp.get("*"))
                if cv in (None, "PANIC"):
                    continue
                for vv in ADMISSIBLE[t]:
                    key = "%s:match#%d:(%s,%s)" % (b.path, idx, cv, vv)
                    fa = first_arm(cv, vv)
                    if fa is None:
                        R.bad(rid, key, site, "no arm for (%s, Value::%s)" % (cv, vv))
                    elif fa[2] and (fa[0] is None or fa[1] is None):
                        R.bad(rid, key, site, "admissible pair (%s, Value::%s) falls into the diverging wildcard arm (%s)" % (cv, vv, fa[2]))
                    elif fa[2]:
                        R.bad(rid, key, site, "arm for (%s, Value::%s) diverges (%s)" % (cv, vv, fa[2]))
                    else:
                        R.ok(rid, key, site, "covered")
        else:
            produced = sorted({v for v in mp.values() if v not in (None, "PANIC")})
            for cv in produced:
                key = "%s:match#%d:(%s,%s)" % (b.path, idx, cv, cv)
                fa = first_arm(cv, cv)
                if fa is None or (fa[2] and (fa[0] is None or fa[1] is None)):
                    R.bad(rid, key, site, "diagonal pair (%s, %s) is not handled (falls into %s)" % (cv, cv, "a diverging wildcard arm" if fa else "no arm"))
                else:
                    R.ok(rid, key, site, "covered")
    R.floor(rid, 40)


# ---------------------------------------------------------------------------------------------
# record-path explicit panics (used by C13-R4)
# ---------------------------------------------------------------------------------------------
PANIC_CEILING = {
    # backend module -> number of explicit panic!/unreachable! sites reachable from record_sample/finalize/inspect/flush,
    # counted by reading on the pinned tree (after the fix: commits). Wildcard arms of COVER-checked matches are included;
    # whether they are reachable for admissible values is decided by C14-R1.
    "storage::hashmap": 6, "storage::ndarray": 0, "storage::arrow": 8, "storage::csv": 2,
    "storage::zarr::sync_impl": 6, "storage::zarr::async_impl": 6, "storage::zarr::common": 1,  # async: 6 since async blocks are call-graph nodes (the site inside an async block was invisible before)
}


def record_path_roots(F):
    roots = []
    for b in F.bodies.values():
        tr = b.parent.get("trait")
        if tr and (path_ends(tr, "ChainStorage") or path_ends(tr, "TraceStorage")) and b.fn_name in ("record_sample", "finalize", "inspect", "flush"):
            roots.append(b.path)
    return roots


def explicit_panics(F):
    cg = F.callgraph()
    out = []
    for p in sorted(cg.reachable(record_path_roots(F))):
        b = F.bodies[p]
        if K.is_std_derive(b):
            continue
        for bb, t in b.calls():
            c = t["callee"]
            if "path" not in c or "panicking" not in c["path"]:
                continue
            mac = t["span"].get("macro", "")
            if '"assert' in mac or "debug_assert" in mac:
                continue
            out.append((b, bb, t))
    return out


def module_of(path):
    p = path.lstrip("<")
    for m in sorted(PANIC_CEILING, key=len, reverse=True):
        if p.startswith(m + "::"):
            return m
    return None


def record_path_panics(F, R, rid):
    R.rule(rid, "explicit panic!/unreachable! sites reachable from record_sample/finalize/inspect/flush: per backend no more than the "
                "inventory counted by reading (a new panic on the record path turns an error into a crash); wildcard panic arms of value "
                "matches must be unreachable for admissible values (decided by the COVER analysis)")
    per = defaultdict(list)
    for (b, bb, t) in explicit_panics(F):
        per[module_of(b.path)].append((b, t))
    for m, lst in sorted(per.items(), key=lambda x: str(x[0])):
        cap = PANIC_CEILING.get(m)
        key = "%s:explicit-panics" % m
        site = ", ".join(sorted({loc(t["span"]) for (_b, t) in lst}))[:300]
        if m is None:
            for (b, t) in lst:
                R.bad(rid, "%s:panic" % b.path, "%s @%s" % (b.path, loc(t["span"])), "explicit panic on the record path outside the known backend modules")
        elif len(lst) > cap:
            R.bad(rid, key, site, "%d explicit panic sites on the record path of %s, inventory allows %d" % (len(lst), m, cap))
        else:
            R.ok(rid, key, site, "%d explicit panic sites (inventory %d)" % (len(lst), cap))
    # COVER verdicts restated for panicking wildcard arms
    sub = _SubReport()
    r1(F, sub, rid="tmp")
    for v in sub.bad_items:
        if "diverging wildcard arm (panic)" in v[3] or "falls into a diverging" in v[3] or "arm for" in v[3]:
            R.bad(rid, "cover:" + v[1], v[2], "panic reachable for an admissible value: " + v[3])
    R.floor(rid, 5)


class _SubReport:
    def __init__(self):
        self.bad_items = []
        self.counts = {}

    def rule(self, *a):
        pass

    def ok(self, *a):
        pass

    def bad(self, rid, key, site, detail):
        self.bad_items.append((rid, key, site, detail))

    def missing(self, *a):
        pass

    def floor(self, *a):
        pass

    def info(self, *a):
        pass




# ---------------------------------------------------------------------------------------------
# R2 schema lanes
# ---------------------------------------------------------------------------------------------
S_METHODS = ("stat_names", "stat_types", "stat_dims_all", "stat_dims", "stat_event_dims", "stat_dim_sizes", "stat_coords")
D_METHODS = ("data_names", "data_types", "data_dims_all", "data_dims")


def lane_labels(calls):
    labs = set()
    for c in calls:
        p = strip_generics(c)
        last = p.split("::")[-1]
        if "Settings" in p and last in S_METHODS:
            labs.add("S")
        if "Settings" in p and last in D_METHODS:
            labs.add("D")
    return labs


def r2(F, R):
    R.rule("C14-R2", "in every StorageConfig::new_trace (and the constructors it calls): sibling fields of identical type inside one storage "
                     "struct are not all built from the same schema lane (S = Settings::stat_*, D = Settings::data_*)")
    impls = F.trait_method_impls("StorageConfig", "new_trace")
    if not impls:
        R.missing("C14-R2", "impl StorageConfig::new_trace")
    for b in impls:
        bodies = [b] + F.closures_of(b.path)
        any_labelled = False
        for bx in bodies:
            for bi, blk in enumerate(bx.blocks):
                if blk["cleanup"]:
                    continue
                for st in blk["stmts"]:
                    if st["k"] != "assign" or st["rv"]["k"] != "agg" or st["rv"]["ak"] != "adt":
                        continue
                    adt = st["rv"]["adt"]
                    if adt not in F.adts:
                        continue
                    fields = st["rv"]["fields"]
                    ftypes = {f["name"]: f["ty"] for v in F.adts[adt]["variants"] for f in v["fields"]}
                    labs = {}
                    for fn, op in zip(fields, st["rv"]["ops"]):
                        sl = bx.slice([op], control=False, mut_flows=True)
                        l = lane_labels(sl["calls"])
                        if l:
                            labs[fn] = l
                    if not labs:
                        continue
                    any_labelled = True
                    site = "%s @%s" % (bx.path, loc(st["span"]))
                    by_type = defaultdict(list)
                    for fn in labs:
                        by_type[ftypes.get(fn)].append(fn)
                    for ty, fns in sorted(by_type.items(), key=lambda x: str(x[0])):
                        key = "%s:%s{%s}" % (b.path, strip_generics(adt).split("::")[-1], ",".join(sorted(fns)))
                        single = [labs[f] for f in fns if len(labs[f]) == 1]
                        if len(fns) >= 2 and len(single) == len(fns) and len({tuple(x) for x in single}) == 1:
                            R.bad("C14-R2", key, site, "sibling fields %s (type %s) are all built from the %s schema lane: the draw containers and the statistics containers must come from different schemas" % (
                                sorted(fns), ty, "statistics" if "S" in single[0] else "draw"))
                        else:
                            R.ok("C14-R2", key, site, "lanes %s" % {f: sorted(labs[f]) for f in fns})
        if not any_labelled:
            R.info("C14-R2", "%s: no schema-labelled struct construction (backend keys its columns differently)" % b.path)
    R.floor("C14-R2", 4)


def run(F, R, config="all"):
    r1(F, R)
    r2(F, R)

"""Per-run report: obligations, violations, samples; evidence + replay files."""
import json
import os
import time

VERIF = os.path.dirname(os.path.dirname(os.path.abspath(__file__)))


class Report:
    def __init__(self, prop, tier):
        self.prop = prop
        self.tier = tier
        self.t0 = time.time()
        self.obligations = []   # dict(rule, site, key, ok, detail)
        self.violations = []    # dict(rule, key, site, detail)
        self.infos = []
        self.rules_run = {}     # rule -> description
        self.assumptions = []
        self.counts = {}        # rule -> instances
        self.not_evaluated = []

    # ----- rule bookkeeping -----
    def rule(self, rid, text):
        self.rules_run[rid] = text
        self.counts.setdefault(rid, 0)

    def ok(self, rid, key, site, detail=""):
        self.counts[rid] = self.counts.get(rid, 0) + 1
        self.obligations.append({"rule": rid, "key": key, "site": site, "ok": True, "detail": detail})

    def bad(self, rid, key, site, detail):
        """A violated obligation. key: stable instance key without line numbers."""
        self.counts[rid] = self.counts.get(rid, 0) + 1
        self.obligations.append({"rule": rid, "key": key, "site": site, "ok": False, "detail": detail})
        self.violations.append({"rule": rid, "key": "%s:%s" % (rid, key), "site": site, "detail": detail})

    def missing(self, rid, anchor, detail=""):
        """Fail closed: an anchor could not be found."""
        self.violations.append({"rule": rid, "key": "%s:anchor-missing:%s" % (rid, anchor), "site": "-",
                                "detail": "reason: anchor-missing; anchor=%s %s" % (anchor, detail)})
        self.obligations.append({"rule": rid, "key": "anchor-missing:" + anchor, "site": "-", "ok": False,
                                 "detail": "anchor missing " + detail})

    def floor(self, rid, n):
        """Fail closed when fewer instances than counted by hand were evaluated."""
        got = self.counts.get(rid, 0)
        if got < n:
            self.violations.append({"rule": rid, "key": "%s:floor" % rid, "site": "-",
                                    "detail": "reason: anchor-missing; rule %s matched %d instances, floor is %d" % (rid, got, n)})
            self.obligations.append({"rule": rid, "key": "floor", "site": "-", "ok": False,
                                     "detail": "matched %d < floor %d" % (got, n)})

    def info(self, rid, text):
        self.infos.append({"rule": rid, "text": text})

    def assume(self, text):
        if text not in self.assumptions:
            self.assumptions.append(text)


def load_known():
    p = os.path.join(VERIF, "known_findings.json")
    if not os.path.exists(p):
        return {"known": [], "fixed": []}
    return json.load(open(p))


def finish(rep, analysed, level_text, explanation, trusted_base):
    """Write evidence + replay files, print KNOWN-FINDING / VIOLATION lines, return exit code."""
    known = load_known()
    known_keys = {}
    for k in known.get("known", []):
        if k["property"] == rep.prop:
            known_keys[k["key"]] = k
    fresh = []
    suppressed = []
    for v in rep.violations:
        if v["key"] in known_keys:
            suppressed.append(v)
        else:
            fresh.append(v)
    vdir = os.path.join(VERIF, "evidence", "violations")
    os.makedirs(vdir, exist_ok=True)
    # clear old replay files of this property
    for f in os.listdir(vdir):
        if f.startswith(rep.prop + "-"):
            os.unlink(os.path.join(vdir, f))
    lines = []
    seen_known = set()
    for v in suppressed:
        if v["key"] in seen_known:
            continue
        seen_known.add(v["key"])
        lines.append("KNOWN-FINDING: property=%s %s [%s at %s]" % (rep.prop, known_keys[v["key"]].get("what", v["detail"]), v["key"], v["site"]))
    for i, v in enumerate(fresh):
        p = os.path.join(vdir, "%s-%03d.json" % (rep.prop, i))
        json.dump({"property": rep.prop, "tier": rep.tier, **v, "analysed": analysed}, open(p, "w"), indent=1)
        lines.append("VIOLATION property=%s replay=%s" % (rep.prop, p))
        lines.append("  rule=%s key=%s site=%s :: %s" % (v["rule"], v["key"], v["site"], v["detail"]))
    n_ob = len(rep.obligations)
    n_ok = sum(1 for o in rep.obligations if o["ok"])
    distinct = len({(o["rule"], o["key"]) for o in rep.obligations})
    samples = []
    per_rule_seen = {}
    for o in rep.obligations:
        c = per_rule_seen.get(o["rule"], 0)
        if c < 4:
            samples.append(o)
            per_rule_seen[o["rule"]] = c + 1
    ev = {
        "property_id": rep.prop,
        "tier": rep.tier,
        "seed": int(os.environ.get("VERIF_SEED", "0") or 0),
        "level": "other",
        "coverage": {
            "explanation": explanation,
            "rules": rep.rules_run,
            "instances_per_rule": rep.counts,
            "obligations": n_ob,
            "discharged": n_ok,
            "evaluations": n_ob,
            "distinct_nontrivial": distinct,
            "rule": "one evaluation per (rule, site) pair whose premise matched in the resolved program; distinct = distinct (rule, instance-key) pairs; none are vacuous (rules with expected-zero matches are backed by floors/positive fixtures)",
            "samples": samples,
            "analysed": analysed,
            "checker_cmd": "./check %s --tier %s" % (rep.prop, rep.tier),
            "trusted_base": trusted_base,
            "exhaustive": True,
            "infos": rep.infos[:40],
            "not_evaluated": rep.not_evaluated,
            "selftest": getattr(rep, "selftest", None),
            "known_findings": [v["key"] for v in suppressed],
            "violation_keys": [v["key"] for v in fresh],
        },
        "assumptions": rep.assumptions,
        "wall_s": round(time.time() - rep.t0, 3),
        "violations": len(fresh),
        "level_text": level_text,
    }
    os.makedirs(os.path.join(VERIF, "evidence"), exist_ok=True)
    json.dump(ev, open(os.path.join(VERIF, "evidence", rep.prop + ".json"), "w"), indent=1)
    for l in lines:
        print(l)
    print("%s tier=%s rules=%d obligations=%d discharged=%d known=%d violations=%d wall=%.1fs" % (
        rep.prop, rep.tier, len(rep.rules_run), n_ob, n_ok, len(seen_known), len(fresh), time.time() - rep.t0))
    return 1 if fresh else 0

"""C06 - warmup ends exactly at num_tune and the kernel is frozen afterwards (structural clauses)."""
from .facts import path_ends, loc, strip_generics, vt_walk, vt_str
from . import common as K
from . import rel as Rl

LEVEL = ("Static structural conditions: in every Chain::draw the tuning flag reported in Progress is read after adapt (R1); in every "
         "AdaptStrategy::adapt the tuning flag is cleared only on `draw >= num_tune`, never set again, num_tune comes from the constructor "
         "argument (R2); every transformation mutator in adapt executes only under `draw < final-window` where the final-window field is a "
         "function of num_tune and step_size_window only (R3); after warmup adapt only copies statistics and calls update_stepsize(.., true) "
         "unconditionally; in the final window only the late estimator and update_stepsize(is_last = draw == num_tune-1); step size is written "
         "only by Strategy::init / update_stepsize (R4). Value questions (jitter band) are not decided; the num_tune = 0 clause is decided for the constructors by R5 (panic guards evaluated with num_tune := 0)."
         " Added (round 5): in the final window update_stepsize runs after the estimator update of the draw (R4 order clause)."
         " Added (round 6): the draw counter the schedule is compared with has no writer besides the constructor and draw() (R6 = C03-R3 writers clause).")
EXPLANATION = "Dominance, control-dependence and edge-relation analysis on the MIR of Chain::draw and AdaptStrategy::adapt impls; who-may-call on the call graph."
TRUSTED = ["rustc nightly MIR", "nutsfacts extractor", "rules/c06.py, rules/rel.py"]
TECHNIQUE = "static analysis: dominance / control-dependence edge relations on MIR + who-may-call"


def draw_impls(F):
    return F.trait_method_impls("chain::Chain", "draw")


def adapt_impls(F):
    return F.trait_method_impls("AdaptStrategy", "adapt")


def r1(F, R):
    R.rule("C06-R1", "in every impl Chain::draw the is_tuning() call that feeds Progress.tuning is dominated by the adapt() call of the same draw")
    impls = draw_impls(F)
    if len(impls) < 2:
        R.missing("C06-R1", "impl Chain::draw (found %d, expected 2)" % len(impls))
    for b in impls:
        adapts = b.calls_to(lambda c: path_ends(c["path"], "AdaptStrategy::adapt"))
        site = "%s @%s" % (b.path, b.loc())
        if not adapts:
            R.bad("C06-R1", b.path + ":adapt", site, "draw() never calls AdaptStrategy::adapt")
            continue
        found = False
        for bi, blk in enumerate(b.blocks):
            for st in blk["stmts"]:
                if st["k"] == "assign" and st["rv"]["k"] == "agg" and st["rv"]["ak"] == "adt" and path_ends(st["rv"]["adt"], "sampler::Progress"):
                    found = True
                    op = st["rv"]["ops"][st["rv"]["fields"].index("tuning")]
                    key = b.path + ":progress.tuning"
                    psite = "%s @%s" % (b.path, loc(st["span"]))
                    if op["k"] == "const":
                        R.bad("C06-R1", key, psite, "Progress.tuning is a constant")
                        continue
                    rc = K.resolve_call_def(b, op["pl"]["l"])
                    if not rc or not path_ends(rc[1]["callee"].get("path", ""), "AdaptStrategy::is_tuning"):
                        R.bad("C06-R1", key, psite, "Progress.tuning does not come from AdaptStrategy::is_tuning(): %s" % vt_str(b.value(op)))
                        continue
                    tb = rc[0]
                    if all(b.dominates(abb, tb) and abb != tb for abb, _t in adapts) or any(b.dominates(abb, tb) for abb, _t in adapts):
                        R.ok("C06-R1", key, psite, "is_tuning() read after adapt()")
                    else:
                        R.bad("C06-R1", key, psite, "is_tuning() is read before adapt() ran: draw number num_tune is still reported as tuning (num_tune+1 tuning draws)")
        if not found:
            R.bad("C06-R1", b.path + ":progress", site, "draw() does not build a Progress value")
    R.floor("C06-R1", 2)


def tuning_field(F, adapt_body):
    """Field of the strategy returned by its is_tuning()."""
    impl = adapt_body.parent.get("impl")
    for b in F.trait_method_impls("AdaptStrategy", "is_tuning"):
        if b.parent.get("impl") == impl:
            for d in b.defs().get(0, []):
                if d[0] == "stmt" and d[3]["k"] == "assign":
                    v = b.rvalue_value(d[3]["rv"])
                    n = Rl.self_field_name(v)
                    if n:
                        return n
    return None


def ctor_of(F, adapt_body):
    impl = adapt_body.parent.get("impl")
    for b in F.trait_method_impls("AdaptStrategy", "new"):
        if b.parent.get("impl") == impl:
            return b
    return None


def r2(F, R):
    R.rule("C06-R2", "in every impl AdaptStrategy::adapt: the tuning flag (the field is_tuning() returns) is set to false only where "
                     "`draw >= self.num_tune` holds, is never set to true outside the constructor, and num_tune is the constructor argument")
    impls = adapt_impls(F)
    if len(impls) < 2:
        R.missing("C06-R2", "impl AdaptStrategy::adapt (found %d, expected 2)" % len(impls))
    for b in impls:
        tf = tuning_field(F, b)
        adt = b.parent.get("self_adt")
        site = "%s @%s" % (b.path, b.loc())
        if not tf:
            R.bad("C06-R2", b.path + ":flag", site, "cannot determine the tuning flag field from is_tuning()")
            continue
        stores = [w for w in K.field_writers(F, adt, tf)]
        n_false = 0
        for (wb, bb, st, v, how) in stores:
            wsite = "%s @%s" % (wb.path, loc(st["span"]))
            if how == "agg":
                if wb.fn_name == "new" and v[0] == "const" and v[2] == "true":
                    R.ok("C06-R2", wb.path + ":init-true", wsite, "flag starts true in the constructor")
                else:
                    R.bad("C06-R2", wb.path + ":init", wsite, "tuning flag constructed as %s outside new()/not true" % vt_str(v))
                continue
            if v[0] == "const" and v[2] == "false":
                n_false += 1
                rels = Rl.edge_relations(wb, bb)
                if wb.path == b.path and Rl.holds(rels, "Ge", Rl.is_arg_named(wb, "draw"), Rl.is_self_field("num_tune")):
                    R.ok("C06-R2", wb.path + ":clear", wsite, "tuning = false under draw >= num_tune")
                else:
                    R.bad("C06-R2", wb.path + ":clear", wsite, "tuning flag cleared under %s, expected exactly `draw >= self.num_tune`" % (
                        [(o, vt_str(l), vt_str(r) if r else None) for (o, l, r, _s) in rels] or "no condition"))
            else:
                R.bad("C06-R2", wb.path + ":set", wsite, "tuning flag assigned %s outside the constructor" % vt_str(v))
        if n_false == 0:
            R.bad("C06-R2", b.path + ":clear", site, "tuning flag is never cleared")
        # num_tune provenance (the field may live in a sub-struct of the strategy: take the owner from the guard that was found)
        nt_owner = adt
        for (wb, bb, st, v, how) in stores:
            if how != "agg" and v[0] == "const" and v[2] == "false" and wb.path == b.path:
                fr = Rl.find(Rl.edge_relations(wb, bb), "Ge", Rl.is_arg_named(wb, "draw"), Rl.is_self_field("num_tune"))
                if fr:
                    nt_owner = K.self_field_owner(F, adt, fr[1])
        for (wb, bb, st, v, how) in K.field_writers(F, nt_owner, "num_tune"):
            wsite = "%s @%s" % (wb.path, loc(st["span"]))
            if how == "agg" and wb.fn_name == "new" and v[0] == "arg" and v[2] == "num_tune":
                R.ok("C06-R2", wb.path + ":num_tune", wsite, "num_tune = constructor argument")
            else:
                R.bad("C06-R2", wb.path + ":num_tune", wsite, "num_tune written as %s" % vt_str(v))
    R.floor("C06-R2", 6)


def is_mutator_call(b, t):
    """Call that can change the transformation: receives transformation_mut() or is update_params/init_transformation/switch?"""
    c = t["callee"]
    if "path" not in c:
        return False
    if c["name"] in ("update_params", "init_transformation") and "TransformedHamiltonian" in c["path"]:
        return True
    for a in t["args"]:
        v = b.value(a)
        for n in vt_walk(v):
            if n[0] == "call" and path_ends(n[1], "TransformedHamiltonian::transformation_mut"):
                return True
    return False


def final_window_field(F, b, rels, with_tree=False):
    """Among relations `draw < self.F`, return F names (with the operand tree of self.F on request)."""
    out = []
    for (o, l, r, _s) in rels:
        if r is None:
            continue
        for (op, x, y) in ((o, l, r), (Rl.FLIP.get(o), r, l)):
            if op == "Lt" and x[0] == "arg" and x[2] == "draw":
                n = Rl.self_field_name(y)
                if n and n != "num_tune":
                    out.append((n, y) if with_tree else n)
    return out


def r3(F, R):
    R.rule("C06-R3", "every transformation mutator called from adapt() executes only where `draw < self.W` holds, W being a field whose "
                     "constructor value depends on the num_tune argument and the step_size_window option and on nothing else")
    for b in adapt_impls(F):
        adt = b.parent.get("self_adt")
        muts = [(bb, t) for bb, t in b.calls() if is_mutator_call(b, t)]
        if not muts:
            R.bad("C06-R3", b.path + ":mutators", b.path, "no transformation mutator found in adapt (anchor)")
        for i, (bb, t) in enumerate(muts):
            site = "%s @%s" % (b.path, loc(t["span"]))
            key = "%s:mutator#%d:%s" % (b.path, i, t["callee"]["name"])
            rels = Rl.edge_relations(b, bb)
            ws = final_window_field(F, b, rels, with_tree=True)
            good = None
            why = "no guard of the form draw < self.<final window>"
            for (w, wtree) in ws:
                # provenance of W in new() (W may live in a sub-struct of the strategy)
                prov = [x for x in K.field_writers(F, K.self_field_owner(F, adt, wtree), w)]
                okp = bool(prov)
                for (wb, wbb, st, v, how) in prov:
                    if how != "agg" or wb.fn_name != "new":
                        okp = False
                        why = "%s is written outside the constructor" % w
                        continue
                    op = st["rv"]["ops"][st["rv"]["fields"].index(w)]
                    sl = wb.slice([op], control=False)
                    argn = {wb.local_name(l) for (l, _n) in sl["args"]}
                    if "num_tune" not in argn:
                        okp = False
                        why = "%s does not depend on num_tune" % w
                    elif "step_size_window" not in sl["fields"]:
                        okp = False
                        why = "%s does not depend on step_size_window" % w
                    elif sl["fields"] - {"step_size_window"}:
                        okp = False
                        why = "%s also depends on %s (the final window must start at num_tune - step_size_window*num_tune)" % (w, sorted(sl["fields"] - {"step_size_window"}))
                if okp:
                    good = w
            if good:
                R.ok("C06-R3", key, site, "guarded by draw < self.%s" % good)
            else:
                R.bad("C06-R3", key, site, "transformation mutator not frozen in the final window: %s" % why)
    # who may call a mutator: only adapt / init of AdaptStrategy impls (and set_position -> init)
    cg = F.callgraph()
    for b in F.bodies.values():
        if K.is_std_derive(b):
            continue
        for bb, t in b.calls():
            if is_mutator_call(b, t):
                role = b.parent.get("trait") and path_ends(b.parent["trait"], "AdaptStrategy") and b.fn_name in ("adapt", "init")
                inner = "TransformedHamiltonian" in (b.parent.get("self_adt") or "")
                if role or inner:
                    continue
                R.bad("C06-R3", "%s:stray-mutator" % b.path, "%s @%s" % (b.path, loc(t["span"])),
                      "transformation mutated outside AdaptStrategy::{adapt,init}")
    R.floor("C06-R3", 2)  # one mutator per strategy at least (merging the two update_params calls is a legal refactor)


def _stepsize_before_estimator(b, final):
    """In the final window: is update_stepsize reachable without having passed the estimator update of this draw (the spliced-in
    update_estimator_* of the step-size strategy, or - when nothing was spliced in - a call of it)?"""
    est = set()
    for bi, blk in enumerate(b.blocks):
        t = blk["term"]
        ic = str(t.get("inlined_call") or "")
        if ic and strip_generics(ic).split("::")[-1].startswith("update_estimator"):
            est.add(bi)
        if t["k"] == "call" and str(t["callee"].get("name") or "").startswith("update_estimator"):
            est.add(bi)
    if not est:
        return False
    us = [bb_ for (bb_, t_, _r) in final if t_["callee"]["name"] == "update_stepsize"]
    free = b.reach_from(0, avoid=sorted(est), succ_filter=lambda a_, c_: True)
    return any(u in free for u in us)


def calls_in_region(b, region):
    out = []
    for bb, t in b.calls():
        if bb in region and "path" in t["callee"]:
            out.append((bb, t))
    return out


def r4(F, R):
    R.rule("C06-R4", "after warmup (draw >= num_tune) adapt() only calls update_stepsize(.., use_best_guess = true), unconditionally; in the final "
                     "window only update_estimator_late and update_stepsize(.., is_last) with is_last = (draw == num_tune - 1); "
                     "Hamiltonian::step_size_mut is called only from the step-size strategy")
    from . import c07 as C07
    for b0 in adapt_impls(F):
        # the estimator-update helpers of the step-size strategy (two functions, or one with a flag) are inlined: what counts is which
        # acceptance statistic advances the estimator in which region
        b = C07.estimator_inlined(F, b0)
        feeds = C07.estimator_feed_sites(b, 0)
        post, final = [], []
        for bb, t in b.calls():
            c = t["callee"]
            if "path" not in c or not c.get("local"):
                continue
            if c.get("name") == "advance" and bb not in feeds:
                continue        # not reachable on any feasible path (the other arm of an inlined `if late`)
            rels = Rl.edge_relations(b, bb)
            ge = Rl.holds(rels, "Ge", Rl.is_arg_named(b, "draw"), Rl.is_self_field("num_tune"))
            lt_tune = Rl.holds(rels, "Lt", Rl.is_arg_named(b, "draw"), Rl.is_self_field("num_tune"))
            ltw = bool(final_window_field(F, b, rels))
            gew = Rl.holds(rels, "Ge", Rl.is_arg_named(b, "draw"), lambda v: Rl.self_field_name(v) not in (None, "num_tune"))
            if ge:
                post.append((bb, t, rels))
            elif lt_tune and gew and not ltw:
                final.append((bb, t, rels))
        key0 = b.path + ":post-warmup"
        site0 = "%s @%s" % (b.path, b.loc())
        names = [t["callee"]["name"] for (_bb, t, _r) in post]
        bad = [n for n in names if n not in ("update_stepsize",)]
        if bad:
            R.bad("C06-R4", key0, site0, "after warmup adapt() calls %s (only update_stepsize may run)" % bad)
        elif names.count("update_stepsize") != 1:
            R.bad("C06-R4", key0, site0, "after warmup adapt() calls update_stepsize %d times" % names.count("update_stepsize"))
        else:
            bb, t, rels = post[0]
            flag = b.value(t["args"][-1])
            extra = [(o, vt_str(l), vt_str(r) if r else None) for (o, l, r, _s) in rels
                     if not (r is not None and ((o == "Ge" and l[0] == "arg" and l[2] == "draw" and Rl.self_field_name(r) == "num_tune") or
                                                (o == "Le" and r[0] == "arg" and r[2] == "draw" and Rl.self_field_name(l) == "num_tune")))]
            if not (flag[0] == "const" and flag[2] == "true"):
                R.bad("C06-R4", key0, "%s @%s" % (b.path, loc(t["span"])), "after warmup update_stepsize is called with use_best_guess = %s (the averaged step size must be used)" % vt_str(flag))
            elif extra:
                R.bad("C06-R4", key0, "%s @%s" % (b.path, loc(t["span"])), "after warmup update_stepsize(.., true) runs only under %s; it must be unconditional" % extra)
            else:
                R.ok("C06-R4", key0, "%s @%s" % (b.path, loc(t["span"])), "update_stepsize(.., true) unconditionally after warmup")
        key1 = b.path + ":final-window"
        fed = set()
        for (bb_, t_, _r) in final:
            if t_["callee"]["name"] == "advance":
                fed |= feeds.get(bb_, (None, {"?"}))[1]
        fnames = sorted({("advance" if t["callee"]["name"] == "advance" else t["callee"]["name"]) for (_bb, t, _r) in final})
        if fnames != ["advance", "update_stepsize"] or len([1 for (_bb, t, _r) in final if t["callee"]["name"] == "update_stepsize"]) != 1:
            R.bad("C06-R4", key1, site0, "final step-size window calls %s, expected the estimator update and one update_stepsize" % sorted(t["callee"]["name"] for (_bb, t, _r) in final))
        elif _stepsize_before_estimator(b, final):
            R.bad("C06-R4", key1, site0, "in the final step-size window update_stepsize runs before the estimator has been advanced with this draw: on the last tuning "
                  "draw the sampler is handed the best guess of one update earlier, so the first posterior draw uses another base step size than all later ones")
        elif not fed or any("sym" not in str(f) for f in fed):
            R.bad("C06-R4", key1, site0, "in the final step-size window the estimator is advanced with %s, expected the symmetric (late) acceptance statistic only" % sorted(fed))
        else:
            t = [t for (_bb, t, _r) in final if t["callee"]["name"] == "update_stepsize"][0]
            flag = b.value(t["args"][-1])
            okflag = False
            if flag[0] == "bin" and flag[1] == "Eq":
                sides = [flag[2], flag[3]]
                d = [s for s in sides if s[0] == "arg" and s[2] == "draw"]
                o = [s for s in sides if s[0] == "bin" and s[1] in ("Sub", "SubWithOverflow") and Rl.self_field_name(s[2]) == "num_tune" and s[3][0] == "const" and s[3][2] == "1"]
                o2 = [s for s in sides if s[0] == "field" and s[1][0] == "bin" and s[1][1].startswith("Sub") and Rl.self_field_name(s[1][2]) == "num_tune" and s[1][3][0] == "const" and s[1][3][2] == "1"]
                okflag = bool(d and (o or o2))
                # the same test written as `draw + 1 == self.num_tune`
                nt = [s for s in sides if Rl.self_field_name(s) == "num_tune"]
                inc = [s for s in sides if s[0] == "field" and s[1][0] == "bin" and s[1][1].startswith("Add") and
                       any(x[0] == "arg" and x[2] == "draw" for x in (s[1][2], s[1][3])) and any(x[0] == "const" and x[2] == "1" for x in (s[1][2], s[1][3]))]
                inc += [s for s in sides if s[0] == "bin" and s[1].startswith("Add") and
                        any(x[0] == "arg" and x[2] == "draw" for x in (s[2], s[3])) and any(x[0] == "const" and x[2] == "1" for x in (s[2], s[3]))]
                okflag = okflag or bool(nt and inc)
            if okflag:
                R.ok("C06-R4", key1, "%s @%s" % (b.path, loc(t["span"])), "late estimator + update_stepsize(is_last = draw == num_tune - 1)")
            else:
                R.bad("C06-R4", key1, "%s @%s" % (b.path, loc(t["span"])), "is_last flag is %s, expected draw == self.num_tune - 1" % vt_str(flag))
    # who may write the step size
    for b in F.bodies.values():
        if K.is_std_derive(b):
            continue
        for bb, t in b.calls_to(lambda c: path_ends(c["path"], "Hamiltonian::step_size_mut")):
            okw = path_ends(b.parent.get("self_adt") or "", "stepsize::adapt::Strategy") and b.fn_name in ("init", "update_stepsize")
            key = "%s:step_size_mut" % b.path
            site = "%s @%s" % (b.path, loc(t["span"]))
            if okw:
                R.ok("C06-R4", key, site, "step size written by the step-size strategy")
            elif b.parent.get("trait") and path_ends(b.parent["trait"], "sampler::Settings") and b.fn_name == "new_chain":
                R.ok("C06-R4", key, site, "initial step size set while building the chain")
            else:
                R.bad("C06-R4", key, site, "step size written outside Strategy::{init, update_stepsize}")
    R.floor("C06-R4", 6)


def _eval_at_zero(v, zero_args):
    """Value of an integer/float expression tree when the named parameters are 0; None = unknown. `x * 0.0 as u64` is 0 for every x
    (NaN and infinities cast to 0 / saturate, and are not sensible option values anyway)."""
    k = v[0]
    if k == "arg":
        return 0 if v[1] in zero_args else None
    if k == "const":
        try:
            return float(v[2]) if v[2] is not None and ("." in str(v[2]) or "e" in str(v[2]).lower()) else int(v[2])
        except (TypeError, ValueError):
            return {"true": 1, "false": 0}.get(str(v[2]))
    if k in ("cast", "deref", "ref"):
        x = _eval_at_zero(v[1], zero_args)
        return int(x) if isinstance(x, float) and x == x and abs(x) < 1e18 else x
    if k == "field" and v[1][0] == "bin" and v[1][1].endswith("WithOverflow") and str(v[2]) == "0":
        return _eval_at_zero(("bin", v[1][1][:-len("WithOverflow")], v[1][2], v[1][3]), zero_args)
    if k == "bin":
        a, b = _eval_at_zero(v[2], zero_args), _eval_at_zero(v[3], zero_args)
        op = v[1]
        if op == "Mul" and (a == 0 or b == 0):
            return 0
        if a is None or b is None:
            return None
        try:
            return {"Add": a + b, "Sub": a - b, "Mul": a * b, "Lt": int(a < b), "Le": int(a <= b), "Gt": int(a > b), "Ge": int(a >= b),
                    "Eq": int(a == b), "Ne": int(a != b)}.get(op)
        except TypeError:
            return None
    if k == "call":
        nm = v[3].get("name") if isinstance(v[3], dict) else ""
        args = [_eval_at_zero(a, zero_args) for a in v[2]]
        if nm == "saturating_sub" and len(args) == 2:
            if args[0] == 0:
                return 0
            if None not in args:
                return max(args[0] - args[1], 0)
        if nm in ("min",) and len(args) == 2 and None not in args:
            return min(args)
        if nm in ("max",) and len(args) == 2 and None not in args:
            return max(args)
    return None


def r5(F, R):
    """A chain without warmup can be constructed."""
    R.rule("C06-R5", "`num_tune = 0` yields a working chain: in every AdaptStrategy::new, every panic (assert!) is unreachable when the num_tune parameter is 0 - "
                     "decided by evaluating the conditions guarding the panic with num_tune := 0 (window sizes computed as `fraction * num_tune as u64` become 0)")
    impls = F.trait_method_impls("AdaptStrategy", "new")
    if len(impls) < 2:
        R.missing("C06-R5", "impl AdaptStrategy::new (found %d)" % len(impls))
    for b in impls:
        zero = {i for i in range(1, b.arg_count + 1) if b.local_name(i) == "num_tune"}
        if not zero:
            # a renamed parameter: the only u64 argument of AdaptStrategy::new is the number of tuning draws
            u = [i for i in range(1, b.arg_count + 1) if b.local_ty(i) == "u64"]
            zero = set(u) if len(u) == 1 else set()
        site = "%s @%s" % (b.path, b.loc())
        if not zero:
            R.bad("C06-R5", b.path + ":param", site, "constructor has no num_tune parameter")
            continue
        n = 0
        for bb, t in b.calls():
            pth = strip_generics(t["callee"].get("path", ""))
            if not (pth.startswith(("core::panicking::", "std::rt::begin_panic", "std::panicking::")) or pth.endswith(("panic_fmt", "::panic", "assert_failed"))):
                continue
            if b.blocks[bb]["cleanup"]:
                continue
            n += 1
            rels = [(o, l, r) for (o, l, r, _s) in Rl.edge_relations(b, bb) if r is not None]
            # a diverging block post-dominates nothing: take the condition of the edge that enters it, and what holds at the branching block
            preds = list(b.pred_map()[bb])
            if len(preds) == 1 and b.blocks[preds[0]]["term"]["k"] == "switch":
                pt = b.blocks[preds[0]]["term"]
                val = None
                for arm in pt["arms"]:
                    if arm["target"] == bb:
                        val = (arm["val"] != 0)
                if val is None and pt["otherwise"] == bb:
                    vs_ = {arm["val"] for arm in pt["arms"]}
                    val = True if vs_ == {0} else (False if vs_ == {1} else None)
                if val is not None and pt.get("discr_ty") == "bool":
                    tmp = []
                    Rl._decompose(b.value(pt["discr"]), val, preds[0], tmp, b, 0, set())
                    rels += [(o, l, r) for (o, l, r, _s) in tmp if r is not None]
                    rels += [(o, l, r) for (o, l, r, _s) in Rl.edge_relations(b, preds[0]) if r is not None]
            vals = []
            for (o, l, r) in rels:
                vals.append(_eval_at_zero(("bin", o, l, r), zero))
            key = "%s:panic#%d" % (b.path, n)
            psite = "%s @%s" % (b.path, loc(t["span"]))
            if any(x == 0 for x in vals):
                R.ok("C06-R5", key, psite, "not reachable with num_tune = 0 (%s)" % "; ".join("%s(%s, %s)" % (o, vt_str(l)[:30], vt_str(r)[:30]) for (o, l, r) in rels)[:200])
            elif vals and all(x == 1 for x in vals):
                R.bad("C06-R5", key, psite, "with num_tune = 0 the constructor panics: %s holds (a chain without warmup cannot be built)" % "; ".join(
                    "%s(%s, %s)" % (o, vt_str(l)[:40], vt_str(r)[:40]) for (o, l, r) in rels)[:300])
            else:
                R.ok("C06-R5", key, psite, "does not depend on num_tune alone (%s)" % "; ".join("%s(%s, %s)" % (o, vt_str(l)[:30], vt_str(r)[:30]) for (o, l, r) in rels)[:200])
        R.ok("C06-R5", b.path + ":scan", site, "%d panic sites examined" % n)
    R.floor("C06-R5", 3)



def run(F, R, config="all"):
    r1(F, R)
    r2(F, R)
    r3(F, R)
    r4(F, R)
    r5(F, R)
    # the schedule is driven by the chain's draw counter: it runs from 0 and is advanced by draw() only (C03-R3 analysis of its writers);
    # a second writer (a reset in set_position) restarts the count while the strategy keeps its windows: more than num_tune tuning draws
    from . import c03
    K.borrow_rule(R, lambda sub: c03.r3(F, sub), "C06-R6", "the draw counter the warm-up schedule is compared with is written only by the chain's constructor and, once "
                  "per successful draw, by draw() (C03-R3 analysis of the writers of draw_count)", only_rules={"C03-R3"},
                  only_keys=lambda k: "draw_count" in k)

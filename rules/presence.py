"""Option-provenance abstract interpretation over HIR: for every construction of a struct, under which condition is each
`Option` field `Some`?  Presence formulas are boolean terms over atoms (branch conditions and 'this optional input is Some').

  ('T',) ('F',) ('atom', key) ('not', x) ('and', x, y) ('or', x, y) ('ite', c, a, b)
"""
import itertools

from .facts import hir_walk, path_ends
from . import common as K
from .sib import canon, Subst, show

T = ("T",)
Fa = ("F",)
_KEEP = Subst(keep_local_names=True)


def atom(key):
    return ("atom", key)


def mk_not(x):
    if x == T:
        return Fa
    if x == Fa:
        return T
    if x[0] == "not":
        return x[1]
    return ("not", x)


def mk_and(a, b):
    if a == Fa or b == Fa:
        return Fa
    if a == T:
        return b
    if b == T:
        return a
    return ("and", a, b)


def mk_or(a, b):
    if a == T or b == T:
        return T
    if a == Fa:
        return b
    if b == Fa:
        return a
    return ("or", a, b)


def mk_ite(c, a, b):
    if c == T:
        return a
    if c == Fa:
        return b
    if a == b:
        return a
    return ("ite", c, a, b)


def atoms_of(x, acc=None):
    acc = set() if acc is None else acc
    if x[0] == "atom":
        acc.add(x[1])
    else:
        for y in x[1:]:
            if isinstance(y, tuple):
                atoms_of(y, acc)
    return acc


def ev(x, env):
    h = x[0]
    if h == "T":
        return True
    if h == "F":
        return False
    if h == "atom":
        return env[x[1]]
    if h == "not":
        return not ev(x[1], env)
    if h == "and":
        return ev(x[1], env) and ev(x[2], env)
    if h == "or":
        return ev(x[1], env) or ev(x[2], env)
    if h == "ite":
        return ev(x[2], env) if ev(x[1], env) else ev(x[3], env)
    raise ValueError(h)


def _assignments(*fs):
    names = sorted(set().union(*[atoms_of(f) for f in fs]))
    if len(names) > 14:
        return None, names
    return [dict(zip(names, vals)) for vals in itertools.product([False, True], repeat=len(names))], names


def equivalent(a, b):
    asg, _ = _assignments(a, b)
    if asg is None:
        return False
    return all(ev(a, e) == ev(b, e) for e in asg)


def implies(a, b):
    asg, _ = _assignments(a, b)
    if asg is None:
        return False
    return all((not ev(a, e)) or ev(b, e) for e in asg)


def is_constant(a):
    asg, _ = _assignments(a)
    if asg is None:
        return None
    vals = {ev(a, e) for e in asg}
    return vals.pop() if len(vals) == 1 else None


def fshow(x):
    h = x[0]
    if h in ("T", "F"):
        return h
    if h == "atom":
        return x[1]
    if h == "not":
        return "!" + fshow(x[1])
    if h == "and":
        return "(%s & %s)" % (fshow(x[1]), fshow(x[2]))
    if h == "or":
        return "(%s | %s)" % (fshow(x[1]), fshow(x[2]))
    return "ite(%s, %s, %s)" % (fshow(x[1]), fshow(x[2]), fshow(x[3]))


def cond_key(n):
    return show(canon(n, _KEEP))


class Interp:
    """One function body. env: binding id -> presence formula (for Option-typed / bool-typed locals)."""

    def __init__(self, body):
        self.b = body
        self.unknown = 0
        self.constructions = []   # (ctx, adt path, {field: formula}, node)
        self.notes = []
        self.struct_locals = {}   # binding id -> Struct node bound by `let [mut] x = S { .. }` (fields may be assigned later)
        self.final_fields = {}    # id(Struct node) -> {field: formula at the end of the function}

    def fresh(self, why):
        self.unknown += 1
        self.notes.append(why)
        return atom("unknown#%d(%s)" % (self.unknown, why[:40]))

    # ---- boolean conditions ----
    def cond(self, n, env):
        n = K.peel(n)
        k = n.get("k")
        if k == "Unary" and n["op"] == "!":
            return mk_not(self.cond(n["a"], env))
        if k == "Binary" and n["op"] in ("&&", "&"):
            return mk_and(self.cond(n["a"], env), self.cond(n["b"], env))
        if k == "Binary" and n["op"] in ("||", "|"):
            return mk_or(self.cond(n["a"], env), self.cond(n["b"], env))
        if k == "Lit" and n["lit"]["lk"] == "bool":
            return T if str(n["lit"]["v"]).lower() == "true" else Fa
        if k == "MethodCall" and n["method"] == "is_some":
            return self.opt(n["recv"], env)
        if k == "MethodCall" and n["method"] == "is_none":
            return mk_not(self.opt(n["recv"], env))
        if k == "LetExpr":
            # `if let Some(x) = e` / `if let None = e`
            v = K.pat_variant(n["pat"])
            p = self.opt(n["init"], env)
            if v == "Some":
                return p
            if v == "None":
                return mk_not(p)
            return self.fresh("let-pattern")
        if k == "Path":
            lid = K.local_id(n)
            if lid is not None and lid in env:
                return env[lid]
        if k == "Block" and n.get("expr") is not None and not n["stmts"]:
            return self.cond(n["expr"], env)
        if k == "Field":
            lid = K.local_id(n["e"]) if isinstance(n.get("e"), dict) else None
            if lid is not None and (lid, n.get("name")) in env:
                return env[(lid, n.get("name"))]
        return atom(cond_key(n))

    # ---- Option-valued expressions ----
    def opt(self, n, env):
        n = K.peel(n)
        k = n.get("k")
        if k == "Path":
            r = n["res"]
            if r.get("name") == "None" and "local" not in r:
                return Fa
            lid = K.local_id(n)
            if lid is not None:
                if lid in env:
                    return env[lid]
                return atom("some:" + (r.get("name") or str(lid)))
            return self.fresh("path")
        if k == "Call":
            f = K.peel(n["f"])
            if f.get("k") == "Path" and f["res"].get("name") == "Some" and "local" not in f["res"]:
                return T
            # a local closure `let mk = |x| if flag { Some(..) } else { None }` called in place: presence of its body
            fl = K.local_id(f) if f.get("k") == "Path" else None
            clo = env.get(("closure", fl)) if fl is not None else None
            if clo is not None:
                return self.opt(clo["body"], env)
            return atom("some:" + cond_key(n))
        if k == "MethodCall":
            m = n["method"]
            if m in ("map", "as_ref", "as_mut", "as_deref", "as_deref_mut", "cloned", "copied", "clone", "take", "inspect", "to_owned"):
                return self.opt(n["recv"], env)
            if m in ("and_then", "filter", "zip", "and"):
                return mk_and(self.opt(n["recv"], env), self.fresh(m))
            if m in ("or", "or_else", "xor"):
                return mk_or(self.opt(n["recv"], env), self.fresh(m))
            if m in ("then", "then_some"):
                return self.cond(n["recv"], env)
            if m in ("ok",):
                return self.fresh("result.ok")
            return atom("some:" + cond_key(n))
        if k == "Field":
            # a field of a struct local built earlier in this function (`let s = S { x: opt, .. }; .. s.x ..`): the field's own formula
            lid = K.local_id(n["e"]) if isinstance(n.get("e"), dict) else None
            if lid is not None and (lid, n.get("name")) in env:
                return env[(lid, n.get("name"))]
            return atom("some:" + cond_key(n))
        if k == "If":
            c = self.cond(n["cond"], env)
            a = self.opt(n["then"], env)
            b = self.opt(n["else"], env) if n.get("else") else Fa
            return mk_ite(c, a, b)
        if k == "Match":
            # match on an Option: Some(..) => A, None => B
            sc = self.opt(n["scrut"], env)
            res = None
            for a in n["arms"]:
                v = K.pat_variant(a["pat"])
                if v == "Some":
                    res = mk_ite(sc, self.opt(a["body"], env), res if res is not None else Fa)
                elif v == "None":
                    res = mk_ite(sc, res if res is not None else Fa, self.opt(a["body"], env)) if res is not None else mk_ite(sc, Fa, self.opt(a["body"], env))
                else:
                    return self.fresh("match")
            return res if res is not None else self.fresh("match")
        if k == "Block":
            env2 = dict(env)
            self.stmts(n.get("stmts", []), env2, T)
            if n.get("expr") is not None:
                return self.opt(n["expr"], env2)
            return self.fresh("block")
        return self.fresh("expr:" + str(k))

    # ---- statements (flow-sensitive, branches merged with ite) ----
    def stmts(self, stmts, env, ctx):
        """Returns the condition under which the statement list has returned early (explicit `return` only)."""
        ctx0 = ctx
        div = Fa
        for st in stmts:
            ctx = mk_and(ctx0, mk_not(div)) if div != Fa else ctx0
            k = st.get("k")
            if k == "Let":
                pat = st["pat"]
                if pat.get("k") == "Binding" and st.get("init") is not None:
                    ty = pat.get("ty", "")
                    if "Option<" in ty:
                        env[pat["id"]] = self.opt(st["init"], env)
                    elif ty == "bool":
                        env[pat["id"]] = self.cond(st["init"], env)
                    else:
                        div = mk_or(div, self.walk(st["init"], env, ctx) or Fa)
                        sn = K.peel(st["init"])
                        if isinstance(sn, dict) and sn.get("k") == "Closure":
                            env[("closure", pat["id"])] = sn
                        if isinstance(sn, dict) and sn.get("k") == "Struct":
                            # `let mut x = S { a: None, .. }; if c { x.a = Some(..) }`: follow the fields of x
                            self.struct_locals[pat["id"]] = sn
                            for f in sn["fields"]:
                                fty = K.peel(f["e"]).get("ty", "") if isinstance(K.peel(f["e"]), dict) else ""
                                if "Option<" in fty:
                                    env[(pat["id"], f["name"])] = self.opt(f["e"], env)
                                elif fty == "bool":
                                    env[(pat["id"], f["name"])] = self.cond(f["e"], env)
                elif st.get("init") is not None:
                    div = mk_or(div, self.walk(st["init"], env, ctx) or Fa)
            elif k in ("Semi", "ExprStmt"):
                div = mk_or(div, self.walk(st["e"], env, ctx) or Fa)
        return div

    def walk(self, n, env, ctx):
        """Execute an expression for its effects on env / for struct constructions; returns the condition under which it
        returned early from the function (explicit `return` statements; `?` is not counted), or None/Fa."""
        n0 = n
        n = K.peel(n)
        k = n.get("k")
        if k == "Assign":
            tl = K.peel(n["l"])
            if tl.get("k") == "Field" and K.local_id(tl["e"]) in self.struct_locals:
                sl = K.local_id(tl["e"])
                fty = tl.get("ty", "")
                if "Option<" in fty:
                    env[(sl, tl["name"])] = self.opt(n["r"], env)
                elif fty == "bool":
                    env[(sl, tl["name"])] = self.cond(n["r"], env)
                return
            lid = K.local_id(n["l"])
            if lid is not None:
                ty = K.peel(n["l"]).get("ty", "")
                if "Option<" in ty:
                    env[lid] = self.opt(n["r"], env)
                elif ty == "bool":
                    env[lid] = self.cond(n["r"], env)
            # struct literals on the right-hand side (`self.cache = Some(Cache { .. })`) are constructions too
            self.walk_nested(n["r"], env, ctx)
            return
        if k == "If":
            c = self.cond(n["cond"], env)
            e1 = dict(env)
            d1 = self.walk(n["then"], e1, mk_and(ctx, c)) or Fa
            e2 = dict(env)
            d2 = Fa
            if n.get("else") is not None:
                d2 = self.walk(n["else"], e2, mk_and(ctx, mk_not(c))) or Fa
            for key in set(e1) | set(e2):
                a = e1.get(key, env.get(key))
                b = e2.get(key, env.get(key))
                if a is None or b is None:
                    continue
                env[key] = b if d1 == T else (a if d2 == T else mk_ite(c, a, b))
            return mk_ite(c, d1, d2)
        if k == "Block":
            d = self.stmts(n.get("stmts", []), env, ctx)
            if n.get("expr") is not None:
                d = mk_or(d, self.walk(n["expr"], env, mk_and(ctx, mk_not(d)) if d != Fa else ctx) or Fa)
            return d
        if k == "Match":
            arms = n["arms"]
            sc_opt = None
            if all(K.pat_variant(a["pat"]) in ("Some", "None") for a in arms):
                sc_opt = self.opt(n["scrut"], env)
            envs = []
            divs = []
            for i, a in enumerate(arms):
                if sc_opt is not None:
                    c = sc_opt if K.pat_variant(a["pat"]) == "Some" else mk_not(sc_opt)
                else:
                    c = atom("arm#%d:%s" % (i, cond_key(n["scrut"])))
                e1 = dict(env)
                di = self.walk(a["body"], e1, mk_and(ctx, c)) or Fa
                divs.append((c, di))
                envs.append((c, e1))
            for key in set().union(*[set(e) for _c, e in envs]) if envs else ():
                res = None
                for c, e1 in reversed(envs):
                    v = e1.get(key, env.get(key))
                    if v is None:
                        res = None
                        break
                    res = v if res is None else mk_ite(c, v, res)
                if res is not None:
                    env[key] = res
            dm = Fa
            for c, di in reversed(divs):
                dm = mk_ite(c, di, dm)
            return dm
        if k == "Struct":
            adt = n["res"].get("def") or n["res"].get("adt") or n["res"].get("selfctor") or ""
            fields = {}
            for f in n["fields"]:
                e = f["e"]
                ty = K.peel(e).get("ty", "") if isinstance(K.peel(e), dict) else ""
                fields[f["name"]] = (e, ty)
            self.constructions.append((ctx, adt, fields, n, dict(env)))
            for f in n["fields"]:
                self.walk_nested(f["e"], env, ctx)
            return
        if k == "Ret":
            if n.get("e") is not None:
                self.walk(n["e"], env, ctx)
            return Fa if (n.get("span") or {}).get("exp") else T
        if k in ("Call", "MethodCall"):
            for a in ([n.get("recv")] if n.get("recv") else []) + n.get("args", []):
                self.walk_nested(a, env, ctx)
            return
        if k == "Loop":
            self.walk(n["body"], env, ctx)
            return

    def walk_nested(self, n, env, ctx):
        n = K.peel(n)
        if isinstance(n, dict) and n.get("k") in ("Struct", "If", "Match", "Block", "Call", "MethodCall"):
            self.walk(n, dict(env), ctx)

    def run(self):
        h = self.b.hir
        env = {}
        self.walk(h["value"], env, T)
        for lid, sn in self.struct_locals.items():
            self.final_fields[id(sn)] = {k_[1]: v for k_, v in env.items() if isinstance(k_, tuple) and k_[0] == lid}
        return self

    def field_presence(self, construction, field):
        ctx, adt, fields, node, env = construction
        ff = self.final_fields.get(id(node))
        if ff is not None and field in ff:
            return ff[field]
        e, ty = fields[field]
        if "Option<" in ty:
            return self.opt(e, env)
        if ty == "bool":
            return self.cond(e, env)
        return T

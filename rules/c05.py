"""C05 - density faults become divergences or errors, never panics or bad draws (structural clauses)."""
import re
from .facts import path_ends, loc, strip_generics, hir_walk, vt_walk, vt_str
from . import common as K
from . import err as E

LEVEL = ("Static error discipline on every density evaluation reachable from Chain::{set_position, draw, expanded_draw}: every fallible "
         "call / LeapfrogResult / ExtendResult consumer propagates or converts the fault, nothing is unwrapped or swallowed (R1); every "
         "path to LeapfrogResult::Ok passes a gate that a non-finite energy error cannot pass and that compares the energy error with "
         "max_energy_error (R2); recoverable errors become Divergence and unrecoverable ones Err, not the other way round (R3); the init "
         "gates dominate Ok (R5); the no-U-turn-check options differ from the caller's options only in check_turning (R6); a leapfrog that ended in a fault is still counted exactly once by the acceptance "
         "collector, so a fault cannot turn the step-size statistic into 0/0 (R7, shared with C07-R7) and every divergent or successful leapfrog is registered with the collector exactly once (R8, shared with C07-R8). "
         "Does not decide value statements ('returned position is finite') or two-fault sequences."
         " Added: every options object reaching extend() is the caller's options with at most check_turning overridden (R6 on MIR); MCLMC retry bookkeeping covers the step budget (R9 = C18-R4 analysis)."
         " Added (round 4): a function that moves the persistent state out of self puts a state back before every error exit (R11, positive control planted)."
         " Added (round 6): the formula kernels neither clamp an f64 nor branch on its class, so a non-finite gradient reaches the energy test (R12 = C17-K12); draw / gradient estimators of the diagonal strategy receive the same operations in every method, so a re-initialised chain does not trip the count assertion (R13 = C08-R14)."
         " Added (round 7): the low-rank window deques shrink only in switch(), together with the split index, so a re-initialised chain does not underflow background_count() (R15 = C09-R2); no unguarded unwrap of a DivergenceInfo field (C13-R15 is the deciding rule, claimed by C13).")
EXPLANATION = ("ERR classification over MIR def-use for all bodies reachable in the call graph from the Chain entry points; three-valued "
               "evaluation of the branch conditions that control the Ok / Divergence / Err constructions.")
TRUSTED = ["rustc nightly MIR/HIR", "nutsfacts extractor", "rules/err.py", "rules/c05.py"]
TECHNIQUE = "static analysis: ERR classification over the call-graph closure + control-dependence / three-valued branch evaluation on MIR"

FAULT_RE = re.compile(r"anyhow::Error|NutsError|LogpErr|::Err\b(?!or)|Box<dyn std::error::Error")


def is_fault(e):
    return bool(FAULT_RE.search(e))


def chain_scope(F):
    cg = F.callgraph()
    roots = [b.path for b in F.bodies.values() if b.parent.get("trait") and path_ends(b.parent["trait"], "chain::Chain")
             and b.fn_name in ("set_position", "draw", "expanded_draw")]
    reach = cg.reachable(roots)
    out = []
    for p in sorted(reach):
        b = F.bodies[p]
        if K.is_std_derive(b) or p.startswith("storage::") or p.startswith("<storage::"):
            continue
        out.append(b)
    return roots, out


def r1(F, R, rid="C05-R1"):
    R.rule(rid, "every consumer of a fault-carrying Result / LeapfrogResult / ExtendResult reachable from Chain::{set_position,draw,expanded_draw} "
                     "propagates or converts the fault; unwrap/expect/discard is a violation")
    roots, bodies = chain_scope(F)
    if len(roots) < 6:
        R.missing(rid, "impl Chain::{set_position,draw,expanded_draw} for both chain types (found %d)" % len(roots))
    density_calls = 0
    for b in bodies:
        counts = {}
        for bb, t, kind, e in E.fallible_calls(b):
            c = t["callee"]
            ck = E.callee_key(c) if "path" in c else "indirect"
            n = counts.get(ck, 0)
            counts[ck] = n + 1
            if t["dest"]["p"] or ck in ("FromResidual::from_residual", "Try::branch"):
                continue
            if kind == "Result" and not is_fault(e):
                continue
            if "path" in c and path_ends(c["path"], "Math::logp_array"):
                density_calls += 1
            outs = E.classify(b, t["dest"]["l"])
            site = "%s @%s" % (b.path, loc(t["span"]))
            for o in outs:
                key = "%s:%s#%d:%s" % (b.path, ck, n, o.kind)
                if o.kind in ("propagated", "returned", "handled", "forwarded", "stored"):
                    R.ok(rid, key, site, "%s %s -> %s (%s)" % (kind, ck, o.kind, o.detail))
                else:
                    R.bad(rid, key, site, "%s on a %s<%s> from %s: %s" % (o.kind, kind, e[:50], c.get("path", "indirect"), o.detail))
    R.info(rid, "Math::logp_array call sites in scope: %d" % density_calls)
    if density_calls < 6:
        R.missing(rid, "Math::logp_array call sites (found %d, floor 6)" % density_calls)
    R.floor(rid, 40)


# ---------------------------------------------------------------------------------------------
# three-valued evaluation of MIR condition trees
# ---------------------------------------------------------------------------------------------
def eval3(v, env):
    """env: function(node) -> True/False/None for leaves. Returns True/False/None."""
    r = env(v)
    if r is not None:
        return r
    k = v[0]
    if k == "const":
        if v[2] == "true":
            return True
        if v[2] == "false":
            return False
        return None
    if k == "un" and v[1] == "Not":
        x = eval3(v[2], env)
        return None if x is None else (not x)
    if k == "bin" and v[1] in ("BitOr", "BitAnd", "Eq", "Ne", "BitXor"):
        a, b = eval3(v[2], env), eval3(v[3], env)
        if v[1] == "BitOr":
            if a is True or b is True:
                return True
            if a is False and b is False:
                return False
            return None
        if v[1] == "BitAnd":
            if a is False or b is False:
                return False
            if a is True and b is True:
                return True
            return None
        if a is None or b is None:
            return None
        if v[1] == "Eq":
            return a == b
        return a != b
    if k in ("cast",):
        return eval3(v[1], env)
    return None


def edge_for(b, bb, value):
    """Successor taken by the switch at bb when its boolean discriminant equals `value`."""
    t = b.blocks[bb]["term"]
    for a in t["arms"]:
        if (a["val"] != 0) == value:
            return a["target"]
    return t["otherwise"]


def agg_blocks(b, adt_suffix, variant):
    out = []
    for bi, blk in enumerate(b.blocks):
        if blk["cleanup"]:
            continue
        for st in blk["stmts"]:
            if st["k"] == "assign" and st["rv"]["k"] == "agg" and st["rv"]["ak"] == "adt" and \
               path_ends(st["rv"]["adt"], adt_suffix) and st["rv"]["variant"] == variant:
                out.append((bi, st))
    return out


def r2(F, R):
    R.rule("C05-R2", "in every impl Hamiltonian::leapfrog: each LeapfrogResult::Ok construction is controlled by a branch that (a) contains "
                     "f64::is_finite of the energy error and cannot be passed when it is false, (b) depends on the max_energy_error parameter, "
                     "the energy_baseline parameter and Point::energy of the new point")
    impls = F.trait_method_impls("Hamiltonian", "leapfrog")
    if not impls:
        R.missing("C05-R2", "impl Hamiltonian::leapfrog")
    for b in impls:
        oks = agg_blocks(b, "LeapfrogResult", "Ok")
        if not oks:
            R.bad("C05-R2", b.path + ":no-ok", b.path, "leapfrog never constructs LeapfrogResult::Ok")
        names = {b.local_name(i): i for i in range(1, b.arg_count + 1)}
        for n, (okbb, st) in enumerate(oks):
            site = "%s @%s" % (b.path, loc(st["span"]))
            key = "%s:ok#%d" % (b.path, n)
            conds = K.switch_cond_values(b, okbb)
            gate = None
            for (a, s, v, arm, t) in conds:
                if any(n_[0] == "call" and path_ends(n_[1], "f64::is_finite") for n_ in vt_walk(v)):
                    gate = (a, s, v, t)
            if gate is None:
                R.bad("C05-R2", key, site, "no branch controlling LeapfrogResult::Ok tests f64::is_finite(energy_error): a non-finite (e.g. -inf) energy error is accepted")
                continue
            a, s, v, t = gate
            res = eval3(v, lambda n_: False if (n_[0] == "call" and path_ends(n_[1], "f64::is_finite")) else None)
            if res is None:
                R.bad("C05-R2", key, site, "the is_finite test does not dominate the outcome: with a non-finite energy error the gate %s is undetermined" % vt_str(v))
                continue
            taken = edge_for(b, a, res)
            if okbb in b.reach_from(taken) and taken != a:
                R.bad("C05-R2", key, site, "with a non-finite energy error the gate still reaches LeapfrogResult::Ok")
                continue
            sl = b.slice([t["discr"]], control=True)
            argnames = {b.local_name(l) for (l, _names) in sl["args"]}
            miss = []
            if "max_energy_error" not in argnames:
                miss.append("parameter max_energy_error")
            if "energy_baseline" not in argnames:
                miss.append("parameter energy_baseline")
            if not any(path_ends(c, "Point::energy") for c in sl["calls"]):
                miss.append("Point::energy of the new point")
            if miss:
                R.bad("C05-R2", key, site, "energy gate does not depend on %s" % ", ".join(miss))
            else:
                R.ok("C05-R2", key, site, "Ok gated by is_finite(energy_error) and a comparison with max_energy_error")
    R.floor("C05-R2", 1)


def r3(F, R):
    R.rule("C05-R3", "in leapfrog the density-error branch splits on LogpError::is_recoverable: recoverable -> Divergence, unrecoverable -> Err")
    for b in F.trait_method_impls("Hamiltonian", "leapfrog"):
        calls = b.calls_to(lambda c: path_ends(c["path"], "LogpError::is_recoverable"))
        site = "%s @%s" % (b.path, b.loc())
        if not calls:
            R.bad("C05-R3", b.path + ":split", site, "no is_recoverable() test on the density error")
            continue
        for bb, t in calls:
            dl = t["dest"]["l"]
            # the switch that consumes the result
            sw = None
            for bi in b.reach_from(t["target"]):
                tt = b.blocks[bi]["term"]
                if tt["k"] == "switch":
                    v = b.value(tt["discr"])
                    if any(n_[0] == "call" and path_ends(n_[1], "LogpError::is_recoverable") for n_ in vt_walk(v)):
                        sw = (bi, v)
                        break
            if not sw:
                R.bad("C05-R3", b.path + ":split", site, "result of is_recoverable() does not control a branch")
                continue
            bi, v = sw
            ok = True
            for val, want, forbid in ((True, "Divergence", "Err"), (False, "Err", "Divergence")):
                res = eval3(v, lambda n_: val if (n_[0] == "call" and path_ends(n_[1], "LogpError::is_recoverable")) else None)
                if res is None:
                    ok = False
                    R.bad("C05-R3", b.path + ":split", site, "branch on is_recoverable is not decidable")
                    break
                taken = edge_for(b, bi, res)
                other = edge_for(b, bi, not res)
                only = b.reach_from(taken) - b.reach_from(other)
                seen = {st["rv"]["variant"] for (x, st) in agg_blocks(b, "LeapfrogResult", "Err") + agg_blocks(b, "LeapfrogResult", "Divergence") if x in only}
                if want not in seen or forbid in seen:
                    ok = False
                    R.bad("C05-R3", b.path + ":split", "%s @%s" % (b.path, loc(t["span"])),
                          "is_recoverable()==%s leads to %s, expected %s" % (val, sorted(seen) or "nothing", want))
                    break
            if ok:
                R.ok("C05-R3", b.path + ":split", "%s @%s" % (b.path, loc(t["span"])), "recoverable -> Divergence, unrecoverable -> Err")
    R.floor("C05-R3", 1)


def finite_checkers(F):
    """Bodies that (transitively, 2 levels) call Math::array_all_finite*."""
    direct = set()
    for b in F.bodies.values():
        if b.calls_to(lambda c: c.get("trait") and path_ends(c["trait"], "Math") and c["name"].startswith("array_all_finite")):
            direct.add(b.path)
    lvl2 = set(direct)
    for b in F.bodies.values():
        for bb, t in b.calls():
            c = t["callee"]
            if (c.get("resolved") or c.get("path")) in direct:
                lvl2.add(b.path)
    return direct, lvl2


def r5(F, R):
    R.rule("C05-R5", "init_state / init_state_untransformed return Ok only after a finiteness check of position and gradient "
                     "(a call reaching Math::array_all_finite*) that cannot be passed when it is false")
    direct, lvl2 = finite_checkers(F)
    for name in ("init_state", "init_state_untransformed"):
        impls = F.trait_method_impls("Hamiltonian", name)
        if not impls:
            R.missing("C05-R5", "impl Hamiltonian::" + name)
        for b in impls:
            oks = [(bi, st) for (bi, st) in agg_blocks(b, "Result", "Ok") if st["pl"]["l"] == 0]
            site = "%s @%s" % (b.path, b.loc())
            if not oks:
                R.bad("C05-R5", b.path + ":ok", site, "no Ok construction found")
            for n, (okbb, st) in enumerate(oks):
                key = "%s:ok#%d" % (b.path, n)

                def is_check(n_):
                    return n_[0] == "call" and (((n_[3].get("resolved") or n_[1]) in direct) or
                                                (n_[3].get("trait") and path_ends(n_[3]["trait"], "Math") and n_[3]["name"].startswith("array_all_finite")))
                gate = None
                for (a, s, v, arm, t) in K.switch_cond_values(b, okbb):
                    if any(is_check(n_) for n_ in vt_walk(v)):
                        gate = (a, v)
                if not gate:
                    R.bad("C05-R5", key, "%s @%s" % (b.path, loc(st["span"])), "Ok is not guarded by a finiteness check of the new point")
                    continue
                a, v = gate
                res = eval3(v, lambda n_: False if is_check(n_) else None)
                if res is None or okbb in b.reach_from(edge_for(b, a, res)):
                    R.bad("C05-R5", key, "%s @%s" % (b.path, loc(st["span"])), "a failed finiteness check still reaches Ok")
                else:
                    R.ok("C05-R5", key, "%s @%s" % (b.path, loc(st["span"])), "Ok guarded by %s" % vt_str(v))
    # the checkers themselves: every array_all_finite* result that is false forces `false`
    for p in sorted(direct):
        b = F.bodies[p]
        if b.r.get("output") != "bool":
            continue
        calls = b.calls_to(lambda c: c.get("trait") and path_ends(c["trait"], "Math") and c["name"].startswith("array_all_finite"))
        for i, (bb, t) in enumerate(calls):
            key = "%s:check#%d" % (p, i)
            site = "%s @%s" % (p, loc(t["span"]))
            # find the switch on this result
            found = False
            for bi in b.reach_from(t["target"]):
                tt = b.blocks[bi]["term"]
                if tt["k"] != "switch":
                    continue
                v = b.value(tt["discr"])
                mine = [n_ for n_ in vt_walk(v) if n_[0] == "call" and n_[3] is t["callee"]]
                if not mine:
                    continue
                found = True
                res = eval3(v, lambda n_: False if (n_[0] == "call" and n_[3] is t["callee"]) else None)
                if res is None:
                    R.bad("C05-R5", key, site, "finiteness result does not decide the branch")
                    break
                reach = b.reach_from(edge_for(b, bi, res))
                # on that edge the function must return false: _0 assigned const false, never const true
                vals = set()
                for r_ in reach:
                    for st in b.blocks[r_]["stmts"]:
                        if st["k"] == "assign" and st["pl"]["l"] == 0 and not st["pl"]["p"]:
                            vv = b.rvalue_value(st["rv"])
                            vals.add(vv[2] if vv[0] == "const" else "?")
                first = None
                # first assignment on the path decides (early return)
                tgt = edge_for(b, bi, res)
                cur = tgt
                steps = 0
                while cur is not None and steps < 50 and first is None:
                    for st in b.blocks[cur]["stmts"]:
                        if st["k"] == "assign" and st["pl"]["l"] == 0 and not st["pl"]["p"]:
                            vv = b.rvalue_value(st["rv"])
                            first = vv[2] if vv[0] == "const" else "?"
                            break
                    ss = b.succ_map()[cur]
                    cur = ss[0] if len(ss) == 1 else None
                    steps += 1
                if first == "false":
                    R.ok("C05-R5", key, site, "non-finite -> return false")
                else:
                    R.bad("C05-R5", key, site, "a non-finite array does not make %s return false" % b.fn_name)
                break
            if not found:
                # `a && check(x)`: the result of the last test *is* the return value (a false result returns false)
                dl = t["dest"]["l"] if not t["dest"]["p"] else None
                later = [st for r_ in (b.reach_from(t["target"]) if t.get("target") is not None else ())
                         for st in b.blocks[r_]["stmts"] if st["k"] == "assign" and st["pl"]["l"] == 0 and not st["pl"]["p"]]
                if dl == 0 and not later:
                    R.ok("C05-R5", key, site, "the test result is returned as is")
                elif dl is not None and len(later) == 1 and later[0]["rv"]["k"] == "use" and later[0]["rv"]["op"]["k"] in ("copy", "move") and \
                        later[0]["rv"]["op"]["pl"]["l"] == dl and not later[0]["rv"]["op"]["pl"]["p"] and len(b.defs().get(dl, [])) == 1:
                    R.ok("C05-R5", key, site, "the test result is returned as is")
                else:
                    R.bad("C05-R5", key, site, "result of the finiteness test is not branched on")
    R.floor("C05-R5", 4)


def r6(F, R):
    R.rule("C05-R6", "every NutsOptions value handed to extend() by the doubling loop is the caller's options or a copy of them in which only "
                     "check_turning is overridden (struct update `..*options`, or clone/copy followed by a store to that one field): max_energy_error and the "
                     "depth limits are inherited")
    n_total = 0
    for b in sorted(F.bodies.values(), key=lambda x: x.path):
        if b.kind == "closure" or b.fn_name == "extend":
            continue
        calls = b.calls_to(lambda c: path_ends(c["path"], "NutsTree::extend"))
        if not calls:
            continue
        adt_fields = None
        for p_, a in F.adts.items():
            if path_ends(p_, "nuts::NutsOptions") and a.get("variants"):
                adt_fields = [f["name"] for f in a["variants"][0]["fields"]]

        def is_opts_ty(l):
            return path_ends((b.local_ty(l) or "").replace("&", "").replace("mut ", "").strip(), "NutsOptions")

        def roots(l, depth=0, seen=None):
            """Locals/args holding the NutsOptions objects that reference/copy local l may denote."""
            seen = seen if seen is not None else set()
            if l in seen or depth > 8:
                return set()
            seen.add(l)
            if b.is_arg(l):
                return {("arg", l)}
            ty = (b.local_ty(l) or "").strip()
            if not ty.startswith("&"):
                return {("obj", l)}
            out = set()
            for d in b.defs().get(l, []):
                if d[0] != "stmt" or d[3]["k"] != "assign" or d[3]["pl"]["p"]:
                    continue
                rv = d[3]["rv"]
                if rv["k"] == "ref":
                    pl = rv["pl"]
                    if pl["p"] in ([], ["*"]):
                        out |= roots(pl["l"], depth + 1, seen) if pl["p"] == ["*"] or (b.local_ty(pl["l"]) or "").startswith("&") else {("obj", pl["l"])} if not b.is_arg(pl["l"]) else {("arg", pl["l"])}
                elif rv["k"] in ("use", "cast") and rv["op"]["k"] in ("copy", "move") and not rv["op"]["pl"]["p"]:
                    out |= roots(rv["op"]["pl"]["l"], depth + 1, seen)
            return out

        def describe(obj):
            """(base, overridden fields) of a NutsOptions object local."""
            base = set()
            over = set()
            for d in b.defs().get(obj, []):
                if d[0] == "call":
                    c = d[3]["callee"]
                    if not d[3]["dest"]["p"] and strip_generics(c.get("path", "")).endswith("Clone::clone") and d[3]["args"]:
                        a0 = d[3]["args"][0]
                        if a0["k"] in ("copy", "move"):
                            base |= roots(a0["pl"]["l"])
                        continue
                    base.add(("call", c.get("path")))
                    continue
                st = d[3]
                if st["k"] != "assign":
                    continue
                if st["pl"]["p"]:
                    fs = [e["n"] for e in st["pl"]["p"] if isinstance(e, dict) and "f" in e]
                    over.add(fs[0] if fs else "?")
                    continue
                rv = st["rv"]
                if rv["k"] == "agg" and rv.get("ak") == "adt":
                    for fn_, op in zip(rv["fields"], rv["ops"]):
                        v = b.value(op)
                        src = v
                        while src[0] in ("deref", "ref"):
                            src = src[1]
                        if v[0] == "field" and v[2] == fn_:
                            r0 = v[1]
                            while r0[0] in ("deref", "ref"):
                                r0 = r0[1]
                            if r0[0] == "arg":
                                base.add(("arg", r0[1]))
                                continue
                        over.add(fn_)
                    if adt_fields and set(rv["fields"]) != set(adt_fields):
                        over.add("?")
                elif rv["k"] == "use" and rv["op"]["k"] in ("copy", "move"):
                    pl = rv["op"]["pl"]
                    if pl["p"] == ["*"] or not pl["p"]:
                        base |= roots(pl["l"])
                    else:
                        base.add(("?", vt_str(b.value(rv["op"]))))
                else:
                    base.add(("?", rv["k"]))
            return base, over

        for n, (bb, t) in enumerate(calls):
            oargs = [a for a in t["args"] if a["k"] in ("copy", "move") and is_opts_ty(a["pl"]["l"])]
            key = "%s:options-arg#%d" % (b.path, n)
            site = "%s @%s" % (b.path, loc(t["span"]))
            if len(oargs) != 1:
                R.bad("C05-R6", key, site, "extend() call without exactly one NutsOptions operand")
                continue
            n_total += 1
            problems = []
            notes = []
            for (kind, l) in sorted(roots(oargs[0]["pl"]["l"])):
                if kind == "arg":
                    notes.append("the caller's options")
                    continue
                base, over = describe(l)
                nm = b.local_name(l) or "_%d" % l
                if not base or any(k_ != "arg" for (k_, _x) in base):
                    problems.append("%s is not derived from the options parameter (%s)" % (nm, sorted(base, key=str)))
                elif over - {"check_turning"}:
                    problems.append("%s overrides %s, expected only check_turning" % (nm, sorted(over)))
                else:
                    notes.append("%s = options with %s overridden" % (nm, sorted(over) or "nothing"))
            if problems:
                R.bad("C05-R6", key, site, "; ".join(problems))
            elif not notes:
                R.bad("C05-R6", key, site, "cannot tell which NutsOptions value extend() receives")
            else:
                R.ok("C05-R6", key, site, "; ".join(sorted(set(notes))))
    R.floor("C05-R6", 2)


def r10(F, R):
    """The description of a divergence travels with it: no caller of extend() drops the DivergenceInfo of a Diverging outcome."""
    R.rule("C05-R10", "for every call of NutsTree::extend, the DivergenceInfo payload of the `Diverging` outcome is read on the Diverging arm (moved into the "
                      "result that is returned / into tree.info(.., Some(info))): a fault met during any doubling - also an extra doubling after a U-turn - "
                      "is reported with the draw")
    n = 0
    for b in sorted(F.bodies.values(), key=lambda x: x.path):
        if b.kind == "closure":
            continue
        for ci, (bb, t) in enumerate(b.calls_to(lambda c: path_ends(c["path"], "NutsTree::extend"))):
            dl = t["dest"]["l"]
            if t["dest"]["p"]:
                continue
            arm_t = None
            sw = None
            for bi in b.reach_from(t["target"]) if t.get("target") is not None else ():
                tt = b.blocks[bi]["term"]
                if tt["k"] == "switch" and tt.get("enum_place", {}).get("l") == dl and not tt["enum_place"]["p"]:
                    arm_t = next((a["target"] for a in tt["arms"] if a.get("name") == "Diverging"), None)
                    sw = bi
                    break
            key = "%s:extend#%d:diverging-info" % (b.path, ci)
            site = "%s @%s" % (b.path, loc(t["span"]))
            if arm_t is None:
                R.bad("C05-R10", key, site, "the result of extend() is not matched with a Diverging arm")
                continue
            n += 1
            reach = b.reach_from(arm_t, avoid=[sw])
            read = False
            for bi in reach:
                for st in b.blocks[bi]["stmts"]:
                    if st["k"] != "assign":
                        continue
                    from .facts import _rvalue_operands
                    for o in _rvalue_operands(st["rv"]):
                        if o.get("k") in ("copy", "move") and o["pl"]["l"] == dl:
                            pr = o["pl"]["p"]
                            if len(pr) >= 2 and isinstance(pr[0], dict) and pr[0].get("d") == "Diverging" and isinstance(pr[1], dict) and pr[1].get("f") == 1:
                                read = True
            if read:
                R.ok("C05-R10", key, site, "Diverging(_, info): info is moved on")
            else:
                R.bad("C05-R10", key, site, "the DivergenceInfo of a Diverging outcome of extend() is never read on its arm: the draw is reported as non-divergent")
    R.floor("C05-R10", 3)



MOVE_OUT = ("mem::replace", "mem::take", "mem::swap", "Option::<T>::take", "Option::take")


def moved_out_state(F, is_state_field):
    """(body, bb, term, field name) for every call that moves a persistent state field out of `self` (mem::replace / take / swap on `&mut self.<f>`)."""
    out = []
    for b in sorted(F.bodies.values(), key=lambda x: x.path):
        if b.kind != "method" or b.arg_count < 1 or not b.local_ty(1).startswith("&mut "):
            continue
        for bb, t in b.calls():
            p_ = strip_generics(t["callee"].get("path", ""))
            if not p_.endswith(MOVE_OUT) or not t["args"]:
                continue
            for a in t["args"][:2]:
                v = b.value(a)
                if v[0] == "ref" and v[1][0] == "field":
                    base = v[1][1]
                    while base[0] in ("deref", "ref"):
                        base = base[1]
                    if base[0] == "arg" and base[1] == 1 and is_state_field(b, v[1][2], a):
                        out.append((b, bb, t, v[1][2]))
    return out


def _restore_blocks(b, field):
    out = set()
    for bi, blk in enumerate(b.blocks):
        for st in blk["stmts"]:
            if st["k"] == "assign" and st["pl"]["l"] == 1 and st["pl"]["p"] and isinstance(st["pl"]["p"][-1], dict) and st["pl"]["p"][-1].get("n") == field:
                out.add(bi)
        t = blk["term"]
        if t["k"] == "call" and t["dest"]["l"] == 1 and t["dest"]["p"] and isinstance(t["dest"]["p"][-1], dict) and t["dest"]["p"][-1].get("n") == field:
            out.add(bi)
    return out


def _err_exits(b):
    """Blocks where the function's error result is produced: the `?` residual conversion, or `_0 = Err(..)`."""
    out = set()
    for bi, blk in enumerate(b.blocks):
        if blk["cleanup"]:
            continue
        t = blk["term"]
        if t["k"] == "call" and strip_generics(t["callee"].get("path", "")).endswith("FromResidual::from_residual") and t["dest"]["l"] == 0:
            out.add(bi)
        for st in blk["stmts"]:
            if st["k"] == "assign" and st["pl"]["l"] == 0 and not st["pl"]["p"] and st["rv"]["k"] == "agg" and st["rv"].get("variant") == "Err":
                out.add(bi)
    return out


def _r11_eval(F, is_state_field):
    res = []
    for (b, bb, t, field) in moved_out_state(F, is_state_field):
        restores = _restore_blocks(b, field)
        errs = _err_exits(b)
        nxt = t.get("target")
        reach = b.reach_from(nxt, avoid=sorted(restores)) if nxt is not None else set()
        lost = sorted(e for e in errs if e in reach)
        res.append((b, bb, t, field, lost, len(errs)))
    return res


def r11(F, R):
    R.rule("C05-R11", "an error leaves the chain where it was: a function that moves the persistent state out of `self` (mem::replace / take / swap on "
                      "`&mut self.state`, leaving a placeholder) puts a state back on every path to an error exit (`?` or `Err(..)`); otherwise the next "
                      "draw after a reported error starts from the placeholder, not from the last valid point")

    def is_state(b, name, a):
        ty = ""
        v = b.value(a)
        for x in (F.adts.get(b.parent.get("self_adt") or "", {}).get("variants") or [{}])[0].get("fields", []):
            if x["name"] == name:
                ty = x["ty"]
        return ty.startswith("dynamics::state::State<")
    n = 0
    for (b, bb, t, field, lost, nerr) in _r11_eval(F, is_state):
        n += 1
        site = "%s @%s" % (b.path, loc(t["span"]))
        key = "%s:%s-moved-out" % (b.path, field)
        if lost:
            R.bad("C05-R11", key, site, "self.%s is moved out and %d of %d error exits are reachable without storing a state back (first at %s)" % (
                field, len(lost), nerr, loc(b.blocks[lost[0]]["term"].get("span") or b.span)))
        else:
            R.ok("C05-R11", key, site, "self.%s is moved out; all %d error exits are behind a store back" % (field, nerr))
    if n == 0:
        R.ok("C05-R11", "scan", "library crates", "no function moves a persistent State field out of self (the state is only copied / assigned)")
    # positive control: the matcher reports the planted construct
    P = K.positive_facts()
    pr = _r11_eval(P, lambda b, name, a: name == "state")
    if any(lost for (_b, _bb, _t, _f, lost, _n) in pr if _b.path.endswith("c05_state_moved_out")) and \
       any(not lost for (_b, _bb, _t, _f, lost, _n) in pr if _b.path.endswith("c05_state_moved_out_restored")):
        R.ok("C05-R11", "positive-control", "fixtures/positive", "the planted move-out without restore is reported, the one with restore is not")
    else:
        R.bad("C05-R11", "positive-control", "fixtures/positive", "matcher failed on the planted mem::replace(&mut self.state, ..) constructs: %s" % [
            (x[0].path, x[3], x[4]) for x in pr])


def run(F, R, config="all"):
    r1(F, R)
    r2(F, R)
    r3(F, R)
    r5(F, R)
    r6(F, R)
    # a faulted leapfrog must still be counted by the acceptance collector, otherwise the fault poisons the step-size statistic (0/0)
    from . import c07
    c07.r7(F, R, rid="C05-R7")
    c07.r8(F, R, rid="C05-R8")
    # "in MCLMC with dynamic step size a faulted step is retried with a smaller step": the retry bookkeeping must cover the step budget,
    # otherwise the draw is cut short and `assert!(steps_taken >= num_base_steps)` panics
    from . import c18
    r10(F, R)
    r11(F, R)
    K.borrow_rule(R, lambda sub: c18.r4(F, sub), "C05-R9", "MCLMC step-size retry after a faulted step: halve on push, double on pop, unwind every finished level "
                  "(decided by the C18-R4 analysis of mclmc_kernel)", only_rules={"C18-R4"})
    # a non-finite gradient must come out of the kernels as a non-finite momentum / energy: that is how the fault reaches the divergence test
    from . import c17, c08
    K.borrow_rule(R, lambda sub: c17.k12(F, sub), "C05-R12", "faults propagate through the kernels: no formula kernel of the CPU backend clamps an f64 or branches on "
                  "its class (is_nan / is_finite / is_normal ..), so a non-finite gradient gives a non-finite energy error, which the leapfrog reports as a "
                  "divergence (C17-K12 analysis)", only_rules={"C17-K12"})
    # re-initialisation after a rejected starting point must leave the estimators consistent (the update asserts equal counts: a panic, not an error)
    K.borrow_rule(R, lambda sub: c08.paired_estimators(F, sub), "C05-R13", "a chain initialised again after a faulted start keeps its draw / gradient estimators "
                  "in step (C08-R14 analysis): otherwise the next draw panics on the count assertion instead of reporting an error", only_rules={"C08-R14"})
    # the same for the low-rank window: background_count() unwraps `draws.len() - background_split`, so a deque shrunk outside switch() panics on the next draw
    from . import c09
    K.borrow_rule(R, lambda sub: c09.r2(F, sub), "C05-R15", "a chain initialised again after a faulted start keeps the low-rank window and its split index in step "
                  "(C09-R2 analysis: only switch() removes elements from the window deques, and it moves the split with them): otherwise `background_count()` "
                  "underflows and the next draw panics instead of reporting an error", only_rules={"C09-R2"})
    R.assume("user-supplied Math implementations may return any error at any call; is_recoverable() is the documented classifier")

"""SIB: canonical S-expressions of HIR subtrees modulo an explicit substitution.

canon(node, S) returns a nested tuple. Two subtrees are 'siblings' under a substitution S when
canon(a, S) == canon(b, identity).  Local variables are compared by binding (alpha-renaming by
first occurrence) unless S.local_name maps them explicitly.
"""
from .facts import strip_generics

COMMUTATIVE = {"+", "*", "==", "!=", "&", "|", "^", "&&", "||"}


class Subst:
    def __init__(self, fields=None, defs=None, ops=None, locals_by_name=None, lits=None,
                 methods=None, keep_local_names=False, neg_lits=False):
        self.fields = fields or {}
        self.defs = defs or {}          # def-path suffix (last segment(s)) -> replacement last segment
        self.ops = ops or {}
        self.locals_by_name = locals_by_name or {}
        self.lits = lits or {}
        self.methods = methods or {}
        self.keep_local_names = keep_local_names
        self.neg_lits = neg_lits


IDENT = Subst()


class _Ctx:
    def __init__(self, S):
        self.S = S
        self.alpha = {}

    def local(self, lid, name):
        S = self.S
        if name in S.locals_by_name:
            return ("L", S.locals_by_name[name])
        if S.keep_local_names:
            return ("L", name)
        if lid not in self.alpha:
            self.alpha[lid] = len(self.alpha)
        return ("L", self.alpha[lid])


def _def(S, path):
    p = strip_generics(path)
    last = p.split("::")[-1]
    if last in S.defs:
        p = "::".join(p.split("::")[:-1] + [S.defs[last]])
    return p


def canon(n, S=IDENT, ctx=None):
    if ctx is None:
        ctx = _Ctx(S)
    return _c(n, ctx)


def canon_many(nodes, S=IDENT):
    """Canonicalise several subtrees with one shared alpha-renaming context."""
    ctx = _Ctx(S)
    return tuple(_c(n, ctx) for n in nodes)


def _res(r, ctx):
    if r is None:
        return ("?",)
    if "local" in r:
        return ctx.local(r["local"], r.get("name"))
    if "def" in r:
        return ("D", _def(ctx.S, r["def"]))
    if "selfctor" in r:
        return ("D", r["selfctor"])
    return ("R", str(sorted(r.items()))[:80])


def _pat(p, ctx):
    if p is None:
        return None
    k = p.get("k")
    if k == "Binding":
        sub = _pat(p.get("sub"), ctx) if p.get("sub") else None
        return ("pbind", ctx.local(p["id"], p["name"]), sub)
    if k == "Wild":
        return ("pwild",)
    if k in ("Tuple", "Or"):
        return ("p" + k, tuple(_pat(x, ctx) for x in p["pats"]))
    if k == "TupleStruct":
        return ("pts", _res(p["res"], ctx), tuple(_pat(x, ctx) for x in p["pats"]))
    if k == "Struct":
        fs = tuple(sorted((ctx.S.fields.get(f["name"], f["name"]), _pat(f["pat"], ctx)) for f in p["fields"]))
        return ("pstruct", _res(p["res"], ctx), fs)
    if k in ("Ref", "Box", "Deref"):
        return _pat(p["pat"], ctx)
    if k == "PExpr":
        e = p["e"]
        if e["k"] == "PLit":
            return ("plit", e["lit"]["v"], e.get("neg", False))
        return ("ppath", _res(e["res"], ctx))
    if k == "Slice":
        return ("pslice", tuple(_pat(x, ctx) for x in p["before"]),
                _pat(p.get("mid"), ctx) if p.get("mid") else None,
                tuple(_pat(x, ctx) for x in p["after"]))
    if k == "Guard":
        return ("pguard", _pat(p["pat"], ctx), _c(p["cond"], ctx))
    return ("p?", k)


def _lit(l, ctx):
    v = l["v"]
    if l["lk"] == "float":
        try:
            v = repr(float(v))
        except ValueError:
            pass
    v = ctx.S.lits.get(v, v)
    return ("lit", l["lk"] if l["lk"] != "int" else "num", v)


def _c(n, ctx):
    if n is None:
        return None
    S = ctx.S
    k = n.get("k")
    if k == "Path":
        return _res(n["res"], ctx)
    if k == "Field":
        return ("F", _c(n["e"], ctx), S.fields.get(n["name"], n["name"]))
    if k == "Lit":
        return _lit(n["lit"], ctx)
    if k == "MethodCall":
        callee = n.get("callee") or n["method"]
        callee = _def(S, callee)
        last = callee.split("::")[-1]
        if last in S.methods:
            callee = "::".join(callee.split("::")[:-1] + [S.methods[last]])
        return ("M", callee, _c(n["recv"], ctx), tuple(_c(a, ctx) for a in n["args"]))
    if k == "Call":
        return ("C", _c(n["f"], ctx), tuple(_c(a, ctx) for a in n["args"]))
    if k == "Binary":
        op = S.ops.get(n["op"], n["op"])
        a, b = _c(n["a"], ctx), _c(n["b"], ctx)
        if op in COMMUTATIVE and repr(b) < repr(a):
            a, b = b, a
        return ("B", op, a, b)
    if k == "Unary":
        if n["op"] == "-" and n["a"].get("k") == "Lit":
            l = _lit(n["a"]["lit"], ctx)
            return ("lit", l[1], "-" + l[2]) if not l[2].startswith("-") else ("lit", l[1], l[2][1:])
        if n["op"] == "*":
            return _c(n["a"], ctx)  # deref is transparent
        return ("U", n["op"], _c(n["a"], ctx))
    if k == "AddrOf":
        return _c(n["e"], ctx)      # borrow is transparent
    if k in ("Cast", "Type", "Use"):
        return ("cast", _c(n["e"], ctx), n.get("ty"))
    if k == "Tup":
        return ("T", tuple(_c(x, ctx) for x in n["es"]))
    if k == "Array":
        return ("A", tuple(_c(x, ctx) for x in n["es"]))
    if k == "Block":
        stmts = []
        for s in n["stmts"]:
            sk = s["k"]
            if sk == "Let":
                init = _c(s["init"], ctx) if s.get("init") else None
                stmts.append(("let", _pat(s["pat"], ctx), init,
                              _c(s["els"], ctx) if s.get("els") else None))
            else:
                stmts.append(("stmt", _c(s["e"], ctx)))
        e = _c(n["expr"], ctx) if n.get("expr") else None
        if not stmts and e is not None:
            return e
        if len(stmts) == 1 and e is None and stmts[0][0] == "stmt":
            return ("blk", (stmts[0],), None)
        return ("blk", tuple(stmts), e)
    if k == "Assign":
        return ("=", _c(n["l"], ctx), _c(n["r"], ctx))
    if k == "AssignOp":
        return ("op=", S.ops.get(n["op"], n["op"]), _c(n["l"], ctx), _c(n["r"], ctx))
    if k == "If":
        return ("if", _c(n["cond"], ctx), _c(n["then"], ctx), _c(n["else"], ctx) if n.get("else") else None)
    if k == "LetExpr":
        return ("iflet", _pat(n["pat"], ctx), _c(n["init"], ctx))
    if k == "Match":
        arms = tuple((_pat(a["pat"], ctx), _c(a["guard"], ctx) if a.get("guard") else None, _c(a["body"], ctx))
                     for a in n["arms"])
        return ("match", _c(n["scrut"], ctx), arms)
    if k == "Struct":
        fs = tuple(sorted((S.fields.get(f["name"], f["name"]), _c(f["e"], ctx)) for f in n["fields"]))
        return ("S", _res(n["res"], ctx), fs, _c(n["base"], ctx) if n.get("base") else None)
    if k == "Ret":
        return ("ret", _c(n["e"], ctx) if n.get("e") else None)
    if k == "Break":
        return ("break", _c(n["e"], ctx) if n.get("e") else None)
    if k == "Continue":
        return ("continue",)
    if k == "Index":
        return ("idx", _c(n["e"], ctx), _c(n["i"], ctx))
    if k == "Loop":
        return ("loop", n.get("src"), _c(n["body"], ctx))
    if k == "Closure":
        ps = tuple(_pat(p, ctx) for p in n.get("params", []))
        return ("closure", ps, _c(n["body"], ctx))
    if k == "Repeat":
        return ("repeat", _c(n["e"], ctx))
    return ("?", k)


def show(t, depth=0):
    """Compact printable form of a canon tuple."""
    if not isinstance(t, tuple):
        return str(t)
    if depth > 14:
        return "…"
    if not t:
        return "()"
    h = t[0]
    if h == "L":
        return "$%s" % t[1]
    if h == "D":
        return t[1].split("::")[-1]
    if h == "F":
        return "%s.%s" % (show(t[1], depth + 1), t[2])
    if h == "lit":
        return str(t[2])
    if h == "B":
        return "(%s %s %s)" % (show(t[2], depth + 1), t[1], show(t[3], depth + 1))
    if h == "M":
        return "%s.%s(%s)" % (show(t[2], depth + 1), t[1].split("::")[-1], ", ".join(show(a, depth + 1) for a in t[3]))
    if h == "C":
        return "%s(%s)" % (show(t[1], depth + 1), ", ".join(show(a, depth + 1) for a in t[2]))
    return "(" + " ".join(show(x, depth + 1) for x in t) + ")"

"""C12 - pause stops chains within a bounded number of draws; resume loses nothing (structural clauses)."""
from .facts import path_ends, loc, strip_generics, vt_walk, vt_str
from . import common as K
from . import c10 as C10

LEVEL = ("Static typestate of the chain mailbox on the worker's MIR: the mailbox value is examined by one switch at the loop head; from its Pause "
         "outcome the draw is unreachable without passing that switch again and every way back to it blocks in Receiver::recv (no try_recv, no "
         "spin); from Resume / Empty the draw follows; from Disconnected the loop is left (R1); on every path from a computed draw back to the loop "
         "head the draw is recorded exactly once and exactly one try_recv refills the mailbox, after the record (R2: nothing computed is dropped, "
         "at most one queued command is consumed per draw); the pause path calls nothing but the blocking receive and writes only the mailbox (R3); "
         "the controller forwards Pause / Continue (and Flush) to every chain before it acknowledges (R4); the first mailbox read happens after "
         "initialisation and before the first draw, so a chain paused before it started does not draw (R5). The count of draws under real timing is "
         "not decided."
         " Added: command delivery - the per-chain command channel is the unbounded mpsc channel and commands are sent with Sender::send (R6);"
         " shape-independent gate - the draw is not reachable from the worker's entry, nor from a previous draw, without a receive on the mailbox (R7). The mailbox "
         "examination may be one match or a sequence of tests (while-let / if-let): the outcome of every value the mailbox can hold is computed by walking the "
         "switches that value decides."
         " Added (round 4): every receive on the mailbox stores its result into the examined mailbox variable - no second reader (R8)."
         " Added (round 5): Pause is sent only from ChainProcess::pause called in the Pause arm, Resume only from ChainProcess::resume called in the Continue arm (R9)."
         " Added (round 6): ChainProcess::pause / ::resume send on every path to Ok (R10); only finalisation empties the trace slot, so a flush cannot end a running chain (R11 = C11-R13).")
EXPLANATION = ("CFG reachability / path counting (back edges cut) on the MIR of the worker closure and of the controller's command loop; anchors found "
               "by role (closure given to spawn_fifo that calls Chain::expanded_draw; closure that calls Receiver::recv_timeout on SamplerCommand).")
TRUSTED = ["rustc nightly MIR", "nutsfacts extractor", "rules/c12.py", "std::sync::mpsc: recv blocks until a message or disconnection; try_recv never blocks"]
TECHNIQUE = "static analysis: typestate of the mailbox variable by CFG reachability and per-iteration path counting on MIR"


def mailbox(F, w):
    """(msg local, head switch bb, {outcome: target bb}) of the worker's mailbox."""
    tr = [(bb, t) for bb, t in w.calls() if path_ends(t["callee"].get("path", ""), "Receiver::try_recv")]
    if not tr:
        return None
    # the local that finally holds the try_recv result (direct dest or moved)
    cand = set()
    for bb, t in tr:
        l = t["dest"]["l"]
        cand.add(l)
        for bi, blk in enumerate(w.blocks):
            for st in blk["stmts"]:
                if st["k"] == "assign" and not st["pl"]["p"] and st["rv"]["k"] == "use" and st["rv"]["op"]["k"] in ("copy", "move") and \
                   st["rv"]["op"]["pl"]["l"] == l and not st["rv"]["op"]["pl"]["p"]:
                    cand.add(st["pl"]["l"])
    heads = []
    for bi, blk in enumerate(w.blocks):
        t = blk["term"]
        if t["k"] == "switch" and "enum_place" in t and t["enum_place"]["l"] in cand and not t["enum_place"]["p"]:
            heads.append((bi, t))
    if len(heads) != 1:
        # several examinations of the mailbox (`while let Ok(Pause) = msg {..}` followed by `if let Err(Disconnected) = msg {..}`):
        # the first one of those that dominate the draw is where an examination starts
        D = draw_block(w)
        doms = [h for h in heads if D is not None and w.dominates(h[0], D)]
        heads = [h for h in doms if all(w.dominates(h[0], o[0]) for o in doms)]
        if len(heads) != 1:
            return None
    hb, ht = heads[0]
    msg = ht["enum_place"]["l"]
    # the outcomes: every value the mailbox can hold, walked through the examination (all switches it decides) to the first block
    # that is not part of it
    cmd = F.adts.get("sampler::ChainCommand")
    if cmd is None or not w.local_ty(msg).startswith("std::result::Result<sampler::ChainCommand"):
        return None
    values = [(v["name"], ("V", "Ok", (("V", v["name"], ()),))) for v in cmd["variants"]]
    values += [(e, ("V", "Err", (("V", e, ()),))) for e in ("Empty", "Disconnected")]
    out = {}
    for name, val in values:
        cur, env = hb, {msg: val}
        for _ in range(16):
            env2, nxt, decided = w.feasible_step(cur, env)
            if not decided or len(nxt) != 1:
                break
            cur, env = nxt[0], env2
        if cur != hb:
            out[name] = cur
    return msg, hb, out, tr


def draw_block(w):
    d = w.calls_to(lambda c: C10.is_draw_call(w.facts, c))
    return d[0][0] if len(d) == 1 else None


def r1(F, R, w):
    R.rule("C12-R1", "mailbox typestate: Pause -> draw unreachable before the mailbox switch is passed again, and every path back to the switch contains a "
                     "blocking Receiver::recv and no try_recv; Resume / Empty -> draw reachable; Disconnected -> draw unreachable (loop exit)")
    mb = mailbox(F, w)
    D = draw_block(w)
    if mb is None or D is None:
        R.missing("C12-R1", "mailbox switch / expanded_draw call in the worker")
        return None
    msg, head, out, tr = mb
    site = "%s @%s" % (w.path, w.loc())
    need = {"Pause", "Resume", "Empty", "Disconnected"}
    if not need <= set(out):
        R.bad("C12-R1", w.path + ":outcomes", site, "mailbox switch distinguishes %s, expected %s" % (sorted(out), sorted(need)))
        return mb
    # Pause
    pt = out["Pause"]
    reach = K.reach_feasible(w, pt, avoid=[head])
    if D in reach:
        R.bad("C12-R1", w.path + ":pause->draw", site, "from the Pause outcome the draw is reachable without examining the mailbox again: a paused chain keeps drawing")
    else:
        R.ok("C12-R1", w.path + ":pause->draw", site, "draw unreachable from Pause before the next mailbox examination")
    recv_w = {}
    try_w = {}
    other_wait = {}
    for bb, t in w.calls():
        p = strip_generics(t["callee"].get("path", ""))
        if bb not in reach:
            continue
        if p.endswith("Receiver::recv"):
            recv_w[bb] = recv_w.get(bb, 0) + 1
        elif p.endswith(("Receiver::try_recv", "Receiver::recv_timeout", "thread::sleep", "thread::yield_now", "Receiver::try_iter")):
            try_w[bb] = try_w.get(bb, 0) + 1
    back = K.path_count_range(w, recv_w, pt, targets=[head])
    back_try = K.path_count_range(w, try_w, pt, targets=[head])
    if head not in w.reach_from(pt):
        R.bad("C12-R1", w.path + ":pause->wait", site, "the Pause outcome never returns to the mailbox switch (the chain cannot be resumed)")
    elif back is None or back[0] < 1:
        R.bad("C12-R1", w.path + ":pause->wait", site, "a path from Pause back to the mailbox switch does not block in Receiver::recv (busy loop or immediate continue)")
    elif back_try and back_try[1] > 0:
        R.bad("C12-R1", w.path + ":pause->wait", site, "the pause path polls (try_recv / recv_timeout / sleep) instead of blocking")
    else:
        # the received value becomes the mailbox
        okflow = False
        for bb in recv_w:
            t = w.blocks[bb]["term"]
            l = t["dest"]["l"]
            sl_targets = {msg}
            # follow moves / map_err
            seen = {l}
            frontier = [l]
            while frontier:
                x = frontier.pop()
                for bi, blk in enumerate(w.blocks):
                    for st in blk["stmts"]:
                        if st["k"] == "assign" and st["rv"]["k"] == "use" and st["rv"]["op"]["k"] in ("copy", "move") and st["rv"]["op"]["pl"]["l"] == x:
                            if st["pl"]["l"] not in seen:
                                seen.add(st["pl"]["l"])
                                frontier.append(st["pl"]["l"])
                    t2 = blk["term"]
                    if t2["k"] == "call" and any(a["k"] in ("copy", "move") and a["pl"]["l"] == x for a in t2["args"]):
                        if t2["dest"]["l"] not in seen and strip_generics(t2["callee"].get("path", "")).endswith(("Result::map_err", "Into::into", "From::from")):
                            seen.add(t2["dest"]["l"])
                            frontier.append(t2["dest"]["l"])
            if msg in seen:
                okflow = True
        if okflow:
            R.ok("C12-R1", w.path + ":pause->wait", site, "Pause blocks in Receiver::recv and the received command becomes the new mailbox value")
        else:
            R.bad("C12-R1", w.path + ":pause->wait", site, "the command received while paused is not stored into the mailbox variable")
    for oc in ("Resume", "Empty"):
        if D in K.reach_feasible(w, out[oc], avoid=[head]):
            R.ok("C12-R1", "%s:%s->draw" % (w.path, oc), site, "%s leads to the draw" % oc)
        else:
            R.bad("C12-R1", "%s:%s->draw" % (w.path, oc), site, "%s does not lead to the draw (a resumed chain stays stopped)" % oc)
    if D in K.reach_feasible(w, out["Disconnected"]):
        R.bad("C12-R1", w.path + ":Disconnected->draw", site, "after the controller hung up the chain can still draw")
    else:
        R.ok("C12-R1", w.path + ":Disconnected->draw", site, "Disconnected leaves the loop")
    R.floor("C12-R1", 5)
    return mb


def r2(F, R, w, mb, rid="C12-R2"):
    R.rule(rid, "per drawn iteration: on every path from the draw back to the mailbox switch the draw is recorded exactly once (ChainStorage::record_sample) "
                "and the mailbox is refilled by exactly one try_recv placed after the record; nothing else consumes commands")
    D = draw_block(w)
    if mb is None or D is None:
        R.missing(rid, "mailbox / draw anchors")
        return
    msg, head, out, tr = mb
    site = "%s @%s" % (w.path, w.loc())
    rec = {}
    tw = {}
    for bb, t in w.calls():
        p = strip_generics(t["callee"].get("path", ""))
        if p.endswith("ChainStorage::record_sample"):
            rec[bb] = rec.get(bb, 0) + 1
        if p.endswith(("Receiver::try_recv", "Receiver::recv", "Receiver::recv_timeout", "Receiver::try_iter")):
            tw[bb] = tw.get(bb, 0) + 1
    after = w.blocks[D]["term"].get("target")
    r_rec = K.path_count_range(w, rec, after, targets=[head])
    r_try = K.path_count_range(w, tw, after, targets=[head])
    if r_rec == (1, 1):
        R.ok(rid, w.path + ":record-per-draw", site, "every path from a computed draw back to the mailbox records it exactly once")
    else:
        R.bad(rid, w.path + ":record-per-draw", site, "paths from a computed draw back to the mailbox switch record it %s times (expected exactly once): "
              "a draw can be dropped or duplicated depending on control-command timing" % (r_rec,))
    if r_try == (1, 1):
        R.ok(rid, w.path + ":one-message-per-draw", site, "exactly one mailbox refill per drawn iteration")
    else:
        R.bad(rid, w.path + ":one-message-per-draw", site, "paths from a computed draw back to the mailbox switch read the command channel %s times (expected exactly once)" % (r_try,))
    # no command-channel read between a computed draw and its record (the outcome could then depend on command timing)
    rb = sorted(rec)
    between = w.reach_from(after, avoid=rb + [head]) if after is not None else set()
    inter = [bb for bb in tw if bb in between]
    if inter:
        R.bad(rid, w.path + ":refill-after-record", "%s @%s" % (w.path, loc(w.blocks[inter[0]]["term"]["span"])), "command channel read between draw and record")
    else:
        R.ok(rid, w.path + ":refill-after-record", site, "no command-channel read between a computed draw and its record")
    R.floor(rid, 3)


def r3(F, R, w, mb):
    R.rule("C12-R3", "the pause path is inert: between the Pause outcome and the next mailbox examination only the blocking receive (and the conversion of "
                     "its error) is called and only the mailbox variable and temporaries are written")
    if mb is None:
        R.missing("C12-R3", "mailbox")
        return
    msg, head, out, tr = mb
    pt = out.get("Pause")
    if pt is None:
        return
    reach = w.reach_from(pt, avoid=[head])
    site = "%s @%s" % (w.path, w.loc())
    badc = []
    cg = F.callgraph()
    WORK = ("Chain::draw", "Chain::expanded_draw", "Chain::set_position", "ChainStorage::record_sample", "ChainProgress::update", "Model::init_position",
            "Settings::new_chain", "Sender::send", "SyncSender::send", "Iterator::next", "Receiver::try_recv")
    for bb, t in w.calls():
        if bb in reach:
            c = t["callee"]
            p = strip_generics(c.get("path", ""))
            if p.endswith(("Receiver::recv", "Result::map_err", "Into::into", "From::from")):
                continue
            # bookkeeping through a local closure (`set_status(Paused)`): allowed when nothing it reaches draws, records, counts or sends
            if p.endswith(("FnMut::call_mut", "Fn::call", "FnOnce::call_once")) and c.get("closures"):
                inner = set()
                for cp in c["closures"]:
                    for q in cg.reachable([cp]) | {cp}:
                        qb = F.bodies.get(q)
                        if qb is not None:
                            inner |= {strip_generics(t2["callee"].get("path", "")) for _b2, t2 in qb.calls()}
                if not any(x.endswith(WORK) for x in inner):
                    continue
            badc.append(p)
    badw = []
    for bb in reach:
        for st in w.blocks[bb]["stmts"]:
            if st["k"] == "assign":
                l = st["pl"]["l"]
                if l != msg and (w.local_name(l) or st["pl"]["p"]):
                    badw.append(w.local_name(l) or "_%d.." % l)
    if badc or badw:
        R.bad("C12-R3", w.path + ":pause-inert", site, "pause path calls %s / writes %s" % (sorted(set(badc)), sorted(set(badw))))
    else:
        R.ok("C12-R3", w.path + ":pause-inert", site, "pause path: %d blocks, only recv + error conversion, writes only the mailbox" % len(reach))


def controller_loop(F):
    """Closure containing the controller's command loop (calls Receiver::recv_timeout on the command channel)."""
    from . import inline as IN
    cache = F.__dict__.setdefault("_controller_loop", {})
    if "c" not in cache:
        c = [b for b in F.bodies.values() if b.kind == "closure" and b.path.startswith("sampler::Sampler::<F>::new") and
             b.calls_to(lambda c: path_ends(c["path"], "Receiver::recv_timeout"))]
        cache["c"] = IN.inlined(F, c[0], IN.sampler_helper) if len(c) == 1 else None
    return cache["c"]


def command_arms(cl):
    """{SamplerCommand variant: target bb} of the controller's match on the received command, plus the loop header."""
    rt = cl.calls_to(lambda c: path_ends(c["path"], "Receiver::recv_timeout"))
    if len(rt) != 1:
        return None
    l = rt[0][1]["dest"]["l"]
    arms = {}
    for bi, blk in enumerate(cl.blocks):
        t = blk["term"]
        if t["k"] == "switch" and "enum_place" in t and t["enum_place"]["l"] == l and t["enum_place"]["p"]:
            for a in t["arms"]:
                if a.get("name"):
                    arms[a["name"]] = a["target"]
    if not ({"Pause", "Continue", "Flush", "Progress", "Inspect"} & set(arms)):
        # `Ok(command) => match command { .. }`: the command is bound first and matched on its own
        for bi, blk in enumerate(cl.blocks):
            t = blk["term"]
            if t["k"] == "switch" and not blk["cleanup"] and path_ends(t.get("enum_adt") or "", "sampler::SamplerCommand"):
                named = {a["name"]: a["target"] for a in t["arms"] if a.get("name")}
                if len(named) >= 2:
                    arms.update(named)
    loops = cl.natural_loops()
    hdr = None
    for h, body in loops.items():
        if rt[0][0] in body:
            if hdr is None or len(body) > len(loops[hdr]):
                hdr = h
    return arms, hdr, rt[0][0]


def _is_op(cl, t, op):
    """Is call terminator t the per-chain operation `op`? `send:<Variant>` = a ChainCommand::<Variant> sent into a chain's mailbox
    (ChainProcess::pause / resume are inlined into the controller), otherwise a call of the named method."""
    c = t["callee"]
    if op.startswith("send:"):
        if not strip_generics(c.get("path", "")).endswith("Sender::send") or len(t["args"]) < 2:
            return False
        v = cl.value(t["args"][1])
        return v[0] == "agg" and str(v[1]).endswith("ChainCommand::" + op[5:])
    return path_ends(c.get("path", ""), op)


def _chain_handles(cl):
    """Names of the captured variables that hold the vector of chain handles (by type, not by name)."""
    return {c["var"] for c in cl.captures if "sampler::ChainProcess<" in c.get("ty", "") and ("Vec<" in c["ty"] or "[" in c["ty"])}


def r4(F, R, rid="C12-R4", commands=(("Pause", "send:Pause"), ("Continue", "send:Resume")), closure_adaptors=("for_each",)):
    R.rule(rid, "in the controller, the arm of each of %s performs the per-chain operation (%s) for every chain handle - a loop over `chains`, or a closure "
                "given to %s on `chains.iter()` - before the acknowledging responses_tx.send" % ([c for c, _ in commands], [o for _, o in commands], list(closure_adaptors)))
    cl = controller_loop(F)
    if cl is None:
        R.missing(rid, "controller command loop")
        return
    ca = command_arms(cl)
    if ca is None:
        R.missing(rid, "command match in the controller")
        return
    arms, hdr, rbb = ca
    for cmd, op in commands:
        site = "%s @%s" % (cl.path, cl.loc())
        key = "%s:%s" % (cl.path, cmd)
        if cmd not in arms:
            R.bad(rid, key, site, "no arm for SamplerCommand::%s" % cmd)
            continue
        others = [t for c, t in arms.items() if c != cmd]
        reach = cl.reach_from(arms[cmd], avoid=[hdr] + others)
        ops = [(bb, t) for bb, t in cl.calls() if bb in reach and _is_op(cl, t, op)]
        sends = [(bb, t) for bb, t in cl.calls() if bb in reach and strip_generics(t["callee"].get("path", "")).endswith("SyncSender::send")]
        loops = cl.natural_loops()
        # closure form: chains.iter().for_each(|chain| op(chain)) (try_for_each where stopping at the first failure is the specified behaviour)
        if not ops and len(sends) == 1:
            hit = None
            for bb, t in cl.calls():
                c_ = t["callee"]
                nm = strip_generics(c_.get("path", "")).split("::")[-1]
                if bb in reach and nm in closure_adaptors and c_.get("closures") and strip_generics(c_.get("path", "")).startswith(("std::iter::Iterator::", "core::iter::Iterator::")):
                    rv_ = cl.value(t["args"][0]) if t["args"] else None
                    over_chains = rv_ is not None and any(n[0] == "upvar" and n[1] in _chain_handles(cl) for n in vt_walk(rv_))
                    ity = cl.local_ty(K.root_local(cl, t["args"][0])) if t["args"] else ""
                    plain = ity.replace("&mut ", "").startswith(("std::slice::Iter<", "std::vec::IntoIter<", "std::slice::IterMut<"))
                    inner_ops = 0
                    for cp_ in c_["closures"]:
                        cb_ = F.bodies.get(cp_)
                        if cb_ is not None:
                            inner_ops += sum(1 for _b2, t2 in cb_.calls() if _is_op(cb_, t2, op))
                    if inner_ops == 1 and over_chains and plain:
                        hit = (bb, t, nm)
            if hit and sends[0][0] not in cl.reach_from(arms[cmd], avoid=[hdr] + others + [hit[0]]):
                R.ok(rid, key, "%s @%s" % (cl.path, loc(hit[1]["span"])), "%s is applied to every chain by chains.iter().%s(..) before the acknowledgement" % (cmd, hit[2]))
                continue
        if len(ops) != 1 or len(sends) != 1:
            R.bad(rid, key, site, "%s arm: %d calls of %s, %d acknowledgements (expected 1 and 1)" % (cmd, len(ops), op, len(sends)))
            continue
        obb = ops[0][0]
        sbb = sends[0][0]
        inner = [h for h, body in loops.items() if obb in body and h != hdr and h in reach]
        # the iterated collection is the `chains` vector
        it_ok = False
        for h in inner:
            for bb, t in cl.calls():
                if bb in reach and strip_generics(t["callee"].get("path", "")).endswith(("slice::iter", "IntoIterator::into_iter", "Iterator::next")):
                    v = cl.value(t["args"][0]) if t["args"] else None
                    if v and any(n[0] in ("upvar",) and n[1] in _chain_handles(cl) for n in vt_walk(v)):
                        it_ok = True
        # no adaptor between `chains` and the loop: the iterator driving the loop is the plain slice / vec iterator
        plain = False
        for bb, t in cl.calls():
            if bb in reach and strip_generics(t["callee"].get("path", "")).endswith("Iterator::next") and inner and bb in loops[inner[0]]:
                ity = cl.local_ty(K.root_local(cl, t["args"][0])) if t["args"] else ""
                plain = ity.startswith(("std::slice::Iter<", "std::vec::IntoIter<", "std::slice::IterMut<"))
                if not plain:
                    it_ok = False
        # the send is only reached through the loop's exit
        # (within the arm: the acknowledgement may be shared by all arms - `let response = match command { .. }; send(response)`)
        if inner and it_ok and sbb not in loops[inner[0]] and sbb not in cl.reach_from(arms[cmd], avoid=[hdr] + others + [inner[0]]):
            R.ok(rid, key, "%s @%s" % (cl.path, loc(sends[0][1]["span"])), "%s is forwarded to every chain (loop over `chains`) before the acknowledgement" % cmd)
        else:
            R.bad(rid, key, "%s @%s" % (cl.path, loc(sends[0][1]["span"])), "%s: the acknowledgement is not dominated by a loop over all chains calling %s "
                  "(loop found: %s, iterates chains: %s)" % (cmd, op, bool(inner), it_ok))
    R.floor(rid, len(commands))


def r5(F, R, w, mb):
    R.rule("C12-R5", "the first mailbox read (try_recv) dominates the loop and happens before any draw, so a Pause queued before the chain started is honoured "
                     "before the first draw")
    D = draw_block(w)
    if mb is None or D is None:
        return
    msg, head, out, tr = mb
    first = [bb for bb, t in tr if w.dominates(bb, head)]
    site = "%s @%s" % (w.path, w.loc())
    if len(first) == 1 and w.dominates(first[0], D) and w.dominates(head, D):
        R.ok("C12-R5", w.path + ":first-read", site, "try_recv before the loop; the mailbox switch dominates the draw")
    else:
        R.bad("C12-R5", w.path + ":first-read", site, "the draw is not dominated by an examination of the mailbox (first try_recv sites dominating the loop: %d)" % len(first))


def r6(F, R):
    """Commands are delivered: the per-chain command channel cannot drop or refuse a command for a live chain."""
    R.rule("C12-R6", "command delivery: every channel end that carries ChainCommand is the unbounded std::sync::mpsc Sender/Receiver pair (no SyncSender, "
                     "whose queue can be full), and every function that sends a ChainCommand uses `Sender::send`, which fails only when the chain is gone "
                     "(not try_send / send_timeout, whose failure for a live chain would lose a Pause or Resume the controller already acknowledged)")
    n = 0
    for p_, a in sorted(F.adts.items()):
        if not p_.startswith("sampler::") or not a.get("variants"):
            continue
        for f in a["variants"][0]["fields"]:
            ty = f["ty"]
            if "ChainCommand" not in ty or "mpsc" not in ty:
                continue
            n += 1
            key = "%s.%s:channel" % (p_, f["name"])
            if "SyncSender" in ty:
                R.bad("C12-R6", key, p_, "field %s: %s is a bounded channel: with a full queue a command for a live chain blocks the controller or is dropped" % (f["name"], ty))
            else:
                R.ok("C12-R6", key, p_, "%s: %s" % (f["name"], ty))
    sends = 0
    for b in sorted(F.bodies.values(), key=lambda x: x.path):
        if not b.path.startswith(("sampler::", "<sampler::")):
            continue
        for i, (bb, t) in enumerate(b.calls()):
            c = t["callee"]
            st = str(c.get("self_ty") or c.get("impl_self") or "")
            path = strip_generics(c.get("path", ""))
            if "ChainCommand" not in st and not any("ChainCommand" in g for g in c.get("gargs", [])):
                continue
            nm = c.get("name")
            if nm not in ("send", "try_send", "send_timeout", "send_deadline"):
                continue
            sends += 1
            key = "%s:send#%d" % (b.path, sends)
            site = "%s @%s" % (b.path, loc(t["span"]))
            if nm == "send" and "SyncSender" not in path and "SyncSender" not in st:
                R.ok("C12-R6", key, site, "%s on the unbounded channel" % path.split("::", 2)[-1])
            else:
                R.bad("C12-R6", key, site, "a ChainCommand is sent with %s (%s): the command can be lost although the chain is alive" % (nm, st or path))
    if sends == 0:
        R.missing("C12-R6", "send of a ChainCommand")
    R.floor("C12-R6", 3)



def _flows_into(w, l, targets):
    """Does the value of local l reach one of the locals `targets` through moves / map_err / into conversions?"""
    seen = {l}
    frontier = [l]
    while frontier:
        x = frontier.pop()
        if x in targets:
            return True
        for bi, blk in enumerate(w.blocks):
            for st in blk["stmts"]:
                if st["k"] == "assign" and st["rv"]["k"] == "use" and st["rv"]["op"]["k"] in ("copy", "move") and st["rv"]["op"]["pl"]["l"] == x and not st["pl"]["p"]:
                    if st["pl"]["l"] not in seen:
                        seen.add(st["pl"]["l"])
                        frontier.append(st["pl"]["l"])
            t2 = blk["term"]
            if t2["k"] == "call" and any(a["k"] in ("copy", "move") and a["pl"]["l"] == x for a in t2["args"]):
                if t2["dest"]["l"] not in seen and strip_generics(t2["callee"].get("path", "")).endswith(("Result::map_err", "Into::into", "From::from")):
                    seen.add(t2["dest"]["l"])
                    frontier.append(t2["dest"]["l"])
    return bool(seen & set(targets))


def r8(F, R, w, mb):
    R.rule("C12-R8", "one reader, one variable: every receive on the chain's mailbox in the worker (try_recv / recv / recv_timeout, helpers inlined) stores "
                     "what it received into the mailbox variable that the loop examines; a receive whose result is only tested or dropped (a liveness probe) "
                     "swallows a queued Pause or Resume")
    if mb is None:
        R.missing("C12-R8", "mailbox")
        return
    msg = mb[0]
    n = 0
    for bb, t in w.calls():
        p = strip_generics(t["callee"].get("path", ""))
        if not p.endswith(("Receiver::try_recv", "Receiver::recv", "Receiver::recv_timeout", "Receiver::try_iter", "Receiver::iter")):
            continue
        st_ = str(t["callee"].get("self_ty") or "") + " ".join(t["callee"].get("gargs", []) or [])
        rty = w.local_ty(K.root_local(w, t["args"][0])) if t["args"] else ""
        if "ChainCommand" not in st_ and "ChainCommand" not in rty and "ChainCommand" not in w.local_ty(t["dest"]["l"]):
            continue
        n += 1
        site = "%s @%s" % (w.path, loc(t["span"]))
        key = "%s:receive#%d" % (w.path, n)
        if _flows_into(w, t["dest"]["l"], {msg}):
            R.ok("C12-R8", key, site, "%s: the received command becomes the mailbox value" % p.split("::")[-1])
        else:
            R.bad("C12-R8", key, site, "%s: the command received here never reaches the mailbox variable the loop examines: a queued Pause / Resume is consumed and lost" % p.split("::")[-1])
    R.floor("C12-R8", 2)     # at least the non-blocking read of the loop and the blocking receive of the pause path


def r9(F, R):
    R.rule("C12-R9", "who may stop and wake a chain: ChainCommand::Pause is sent only from ChainProcess::pause, called only in the controller's Pause arm; "
                     "ChainCommand::Resume only from ChainProcess::resume, called only in the Continue arm. A Resume sent from anywhere else (a flush that "
                     "'holds the worker back' and lets it go again) wakes chains that pause() parked, without resume()")
    cl = controller_loop(F)
    ca = command_arms(cl) if cl is not None else None
    if ca is None:
        R.missing("C12-R9", "controller command loop")
        return
    arms, hdr, rbb = ca
    raw = F.bodies.get(cl.path) or cl
    rca = command_arms(raw) if raw is not cl else ca
    n = 0
    want = {"Pause": ("ChainProcess::pause", "send:Pause"), "Continue": ("ChainProcess::resume", "send:Resume")}
    for b in sorted(F.bodies.values(), key=lambda x: x.path):
        if not b.path.startswith(("sampler::", "<sampler::")):
            continue
        for bb, t in b.calls():
            p_ = strip_generics(t["callee"].get("path", ""))
            for cmd, (meth, op) in want.items():
                direct = _is_op(b, t, op)
                via = p_.endswith(meth)
                if not (direct or via):
                    continue
                n += 1
                site = "%s @%s" % (b.path, loc(t["span"]))
                key = "%s:%s#%d" % (b.path, op if direct else meth.split("::")[-1], n)
                if direct and strip_generics(b.path).endswith(meth):
                    R.ok("C12-R9", key, site, "%s is sent by %s" % (op[5:], meth))
                    continue
                ok_ = False
                if b.path == raw.path and rca is not None and cmd in rca[0]:
                    others = [tt for c_, tt in rca[0].items() if c_ != cmd]
                    ok_ = bb in raw.reach_from(rca[0][cmd], avoid=[rca[1]] + others)
                if ok_:
                    R.ok("C12-R9", key, site, "%s in the controller's %s arm" % (meth.split("::")[-1] if via else op, cmd))
                else:
                    R.bad("C12-R9", key, site, "%s outside the controller's %s arm: chains are %s without the user's %s()" % (
                        meth if via else op, cmd, "parked" if cmd == "Pause" else "woken", "pause" if cmd == "Pause" else "resume"))
    if n == 0:
        R.missing("C12-R9", "senders of ChainCommand")
    R.floor("C12-R9", 2)     # one site that parks and one that wakes, at least


def r7(F, R, w):
    R.rule("C12-R7", "no draw without a look at the mailbox (shape-independent): in the chain worker the draw call is not reachable from the entry of "
                     "the worker, nor from a previous draw, without passing a receive on the chain's mailbox -- a chain that starts, or loops, "
                     "while a Pause is waiting in its mailbox must find it before it draws")
    D = draw_block(w)
    if D is None:
        R.missing("C12-R7", "expanded_draw call in the worker")
        return
    rx = [bb for bb, t in w.calls() if strip_generics(t["callee"].get("path", "")).endswith(("Receiver::try_recv", "Receiver::recv", "Receiver::recv_timeout", "Receiver::try_iter"))]
    site = "%s @%s" % (w.path, w.loc())
    if not rx:
        R.missing("C12-R7", "a receive on the mailbox in the worker")
        return
    first = D in w.reach_from(0, avoid=rx) or D == 0
    if first:
        R.bad("C12-R7", w.path + ":first-draw", site, "the first draw is reachable from the start of the chain without reading the mailbox: a chain that starts "
              "while the sampler is paused draws before it sees the Pause")
    else:
        R.ok("C12-R7", w.path + ":first-draw", site, "every path from the start of the worker to the draw reads the mailbox (%d receive sites)" % len(rx))
    again = False
    for s_ in w.succs(D):
        if s_ in rx:
            continue
        if s_ == D or D in w.reach_from(s_, avoid=rx):
            again = True
    if again:
        R.bad("C12-R7", w.path + ":next-draw", site, "a draw is followed by another draw on a path that does not read the mailbox")
    else:
        R.ok("C12-R7", w.path + ":next-draw", site, "every path from one draw to the next reads the mailbox")



def r10(F, R):
    R.rule("C12-R10", "a Pause / Resume is delivered to every chain, whatever its state: ChainProcess::pause and ::resume send on every path to Ok(()) - no early-out for "
                      "a chain that has not started or looks finished (a chain that is still waiting for a pool thread relies on the queued Pause alone: without it, it "
                      "starts and records its whole trace while the sampler is paused)")
    n = 0
    for b in sorted(F.bodies.values(), key=lambda x: x.path):
        if b.kind == "closure" or b.fn_name not in ("pause", "resume") or not path_ends(b.parent.get("self_adt") or b.r.get("impl_self_adt") or "", "sampler::ChainProcess"):
            continue
        sends = [bb for bb, t in b.calls() if t["callee"].get("name") == "send"]
        oks = [bi for bi, blk in enumerate(b.blocks) if not blk["cleanup"] and any(
            st["k"] == "assign" and st["pl"]["l"] == 0 and not st["pl"]["p"] and st["rv"]["k"] == "agg" and st["rv"].get("variant") == "Ok" for st in blk["stmts"])]
        n += 1
        key = b.path + ":send-on-every-path"
        site = "%s @%s" % (b.path, b.loc())
        if not sends:
            R.bad("C12-R10", key, site, "no send in %s" % b.fn_name)
        elif any(o in b.reach_from(0, avoid=sends) for o in oks):
            R.bad("C12-R10", key, site, "%s() can return Ok(()) without sending: the command is withheld from chains in some state" % b.fn_name)
        else:
            R.ok("C12-R10", key, site, "send on every path to Ok (%d Ok site(s))" % len(oks))
    if n == 0:
        R.ok("C12-R10", "no-helper", "sampler", "no ChainProcess::pause / ::resume helper: the sends are the controller's own and decided by R4 / R9")

def run(F, R, config=None):
    if "parallel" not in C10.features(F):
        R.not_evaluated.append("C12: feature `parallel` off in this configuration")
        R.info("C12", "no parallel sampler compiled in this configuration")
        return
    w = C10.worker_body(F)
    if w is None:
        R.missing("C12-R1", "worker closure")
        return
    r7(F, R, w)
    mb = r1(F, R, w)
    r2(F, R, w, mb)
    r3(F, R, w, mb)
    r4(F, R)
    r5(F, R, w, mb)
    r6(F, R)
    r8(F, R, w, mb)
    r9(F, R)
    r10(F, R)
    from . import c11
    c11.r13(F, R, rid="C12-R11")
    R.assume("std::sync::mpsc::Receiver::recv blocks until a message arrives or all senders are gone; try_recv never blocks")
    R.assume("commands reach a chain only through its own mailbox channel (C10-R3 capture inventory)")


FEATURE_RULES = {"C12-R1": "parallel", "C12-R2": "parallel", "C12-R3": "parallel", "C12-R4": "parallel", "C12-R5": "parallel", "C12-R6": "parallel", "C12-R7": "parallel", "C12-R8": "parallel", "C12-R9": "parallel", "C12-R10": "parallel", "C12-R11": "parallel"}
CONFIGS = ["all", "default"]
SELFTEST = True

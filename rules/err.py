"""ERR: classification of what happens to fallible values (Result / LeapfrogResult / ...) in MIR."""
from collections import defaultdict
from .facts import path_ends, strip_generics, loc

PROPAGATE_ADAPTERS = {
    # callee suffix -> produces a new fallible value carrying the same error
    "Result::map_err", "Result::map", "Result::and_then", "Result::or_else", "Option::transpose",
    "Result::transpose", "anyhow::Context::context", "anyhow::Context::with_context", "Context::context",
    "Context::with_context", "Result::as_ref", "Result::as_mut", "Result::inspect_err", "Result::inspect",
    "Result::flatten", "Result::copied", "Result::cloned", "Into::into", "From::from",
    "Iterator::collect", "Itertools::collect_vec", "Itertools::try_collect", "Option::map",
}
PANIC_CONSUMERS = {"Result::unwrap", "Result::expect", "Result::unwrap_unchecked", "Result::expect_err",
                   "Result::unwrap_err", "Result::into_ok"}
DISCARD_CONSUMERS = {"Result::ok", "Result::is_ok", "Result::is_err", "Result::unwrap_or", "Result::unwrap_or_default",
                     "Result::unwrap_or_else", "Result::err", "Result::is_ok_and", "Result::is_err_and", "Result::map_or",
                     "Result::map_or_else", "Result::iter", "mem::drop", "std::mem::drop", "core::mem::drop", "Result::or"}


def callee_key(c):
    """`Result::unwrap`-style key: last two segments of the generic-free path."""
    p = strip_generics(c.get("path", ""))
    parts = [x for x in p.split("::") if x]
    # `core::result::Result::<T, E>::unwrap` -> Result::unwrap ; `<impl ...>::x` kept short
    return "::".join(parts[-2:]) if len(parts) >= 2 else p


def build_uses(b):
    """local -> list of use records."""
    if getattr(b, "_uses", None) is not None:
        return b._uses
    uses = defaultdict(list)

    def op_use(o, rec):
        if o["k"] in ("copy", "move"):
            uses[o["pl"]["l"]].append(dict(rec, proj=o["pl"]["p"], mode=o["k"]))

    for bi, blk in enumerate(b.blocks):
        if blk["cleanup"]:
            continue
        for si, st in enumerate(blk["stmts"]):
            if st["k"] != "assign":
                continue
            rv = st["rv"]
            k = rv["k"]
            rec = {"kind": "stmt", "bb": bi, "si": si, "st": st, "rk": k}
            if k in ("use", "repeat", "cast"):
                op_use(rv["op"], rec)
            elif k in ("ref", "rawptr", "discr"):
                uses[rv["pl"]["l"]].append(dict(rec, proj=rv["pl"]["p"], mode=k))
            elif k == "bin":
                op_use(rv["a"], rec)
                op_use(rv["b"], rec)
            elif k == "un":
                op_use(rv["a"], rec)
            elif k == "agg":
                for i, o in enumerate(rv["ops"]):
                    op_use(o, dict(rec, agg_index=i))
        t = blk["term"]
        if t["k"] == "call":
            for i, a in enumerate(t["args"]):
                op_use(a, {"kind": "arg", "bb": bi, "term": t, "argi": i})
            if "indirect" in t["callee"]:
                op_use(t["callee"]["indirect"], {"kind": "callee", "bb": bi, "term": t})
        elif t["k"] == "switch":
            op_use(t["discr"], {"kind": "switch", "bb": bi, "term": t})
        elif t["k"] == "drop":
            uses[t["pl"]["l"]].append({"kind": "drop", "bb": bi, "term": t, "proj": t["pl"]["p"], "mode": "drop"})
        elif t["k"] == "assert":
            op_use(t["cond"], {"kind": "assert", "bb": bi, "term": t})
    b._uses = uses
    return uses


class Outcome:
    def __init__(self, kind, detail, span=None, via=None):
        self.kind = kind        # propagated | returned | handled | panics | discarded | forwarded | stored | unknown
        self.detail = detail
        self.span = span
        self.via = via or []

    def __repr__(self):
        return "%s(%s)" % (self.kind, self.detail)


def variant_payload_used(b, local, variant, start_bb):
    """On the arm of a discriminant switch for `variant`, is the payload `(local as variant).x` read?

    Returns list of use records reading the payload of that variant anywhere in the body (MIR downcasts
    are only valid on that arm)."""
    out = []
    for u in build_uses(b).get(local, []):
        pr = u.get("proj") or []
        if pr and isinstance(pr[0], dict) and pr[0].get("d") == variant:
            out.append(u)
        # through a deref of a reference to the value
    return out


def classify(b, local, fault_variants=("Err",), depth=0, seen=None):
    """What happens to the fallible value held in `local`? Returns list[Outcome]."""
    if seen is None:
        seen = set()
    if local in seen or depth > 12:
        return [Outcome("unknown", "cycle")]
    seen = seen | {local}
    outs = []
    peeks = []
    us = build_uses(b).get(local, [])
    if local == 0:
        return [Outcome("returned", "is the function's return value")]
    real = [u for u in us if u["kind"] != "drop"]
    if not real:
        return [Outcome("discarded", "value is dropped without being inspected")]
    discr_seen = False
    for u in real:
        if u["kind"] == "arg":
            t = u["term"]
            c = t["callee"]
            if "path" not in c:
                outs.append(Outcome("forwarded", "indirect call", t.get("span")))
                continue
            key = callee_key(c)
            p = strip_generics(c["path"])
            name = c.get("name")
            if p.endswith("Try::branch"):
                # `?`: find from_residual in the body fed by the Break payload
                outs.append(Outcome("propagated", "`?` operator", t.get("span")))
            elif key in PANIC_CONSUMERS or (key.endswith("::unwrap") or key.endswith("::expect")) and u["argi"] == 0:
                outs.append(Outcome("panics", key, t.get("span")))
            elif key == "Result::unwrap_or_else":
                # closure decides; a panicking closure is a panic, otherwise discarded
                outs.append(Outcome("discarded", key, t.get("span")))
            elif key in DISCARD_CONSUMERS:
                outs.append(Outcome("discarded", key, t.get("span")))
            elif key in PROPAGATE_ADAPTERS or name in ("map_err", "context", "with_context", "transpose", "map", "and_then"):
                if u["argi"] == 0:
                    sub = classify(b, t["dest"]["l"], fault_variants, depth + 1, seen) if not t["dest"]["p"] else [Outcome("stored", "into a field")]
                    for o in sub:
                        o.via = [key] + o.via
                    outs += sub
                else:
                    outs.append(Outcome("forwarded", "argument of %s" % key, t.get("span")))
            else:
                outs.append(Outcome("forwarded", "argument %d of %s" % (u["argi"], c["path"]), t.get("span"), via=[c["path"]]))
        elif u["kind"] == "stmt":
            st = u["st"]
            rk = u["rk"]
            if rk == "discr":
                discr_seen = True
                continue
            if rk == "use" and not u["proj"]:
                dst = st["pl"]
                if not dst["p"]:
                    if dst["l"] == 0:
                        outs.append(Outcome("returned", "moved into the return value", st.get("span")))
                    else:
                        outs += classify(b, dst["l"], fault_variants, depth + 1, seen)
                else:
                    outs.append(Outcome("stored", "stored into a place", st.get("span")))
            elif rk == "agg" and not u["proj"]:
                dst = st["pl"]
                what = st["rv"].get("adt") or st["rv"]["ak"]
                if what and (path_ends(what, "Result") or path_ends(what, "Option") or path_ends(what, "ControlFlow")) and not dst["p"]:
                    outs += classify(b, dst["l"], fault_variants, depth + 1, seen)
                elif not dst["p"] and dst["l"] == 0:
                    outs.append(Outcome("returned", "wrapped into the return value", st.get("span")))
                elif not dst["p"]:
                    sub = classify(b, dst["l"], fault_variants, depth + 1, seen)
                    outs += sub
                else:
                    outs.append(Outcome("stored", "stored into an aggregate field", st.get("span")))
            elif rk in ("ref", "rawptr") and not u["proj"]:
                dst = st["pl"]
                if not dst["p"]:
                    sub = classify(b, dst["l"], fault_variants, depth + 1, seen)
                    # a borrow that is only inspected (`r.is_err()`) does not consume the value: what happens to the value is decided by its
                    # other uses; if there are none, the inspection is all that ever looked at it
                    PEEK = ("Result::is_ok", "Result::is_err", "Option::is_some", "Option::is_none")
                    peeks += [o for o in sub if o.kind == "discarded" and o.detail in PEEK]
                    outs += [o for o in sub if not (o.kind == "discarded" and o.detail in PEEK)]
            elif u["proj"]:
                # payload access, handled below through discr
                pass
        elif u["kind"] == "switch":
            outs.append(Outcome("handled", "switched on directly", u["term"].get("span")))
    if discr_seen:
        for fv in fault_variants:
            pu = variant_payload_used(b, local, fv, None)
            if pu:
                # where does the payload go?
                for x in pu:
                    if x["kind"] == "arg":
                        c = x["term"]["callee"]
                        if "path" in c and callee_key(c) in ("mem::drop",):
                            outs.append(Outcome("discarded", "%s payload is only dropped" % fv, x["term"].get("span")))
                        else:
                            outs.append(Outcome("handled", "%s payload passed to %s" % (fv, c.get("path", "?")), x["term"].get("span"), via=["match"]))
                    elif x["kind"] == "stmt":
                        dst = x["st"]["pl"]
                        if not dst["p"] and dst["l"] != 0:
                            sub = payload_flow(b, dst["l"])
                            if sub in ("dropped", "drop -> dropped", "drop -> …"):
                                outs.append(Outcome("discarded", "%s payload bound but only dropped" % fv, x["st"].get("span")))
                            else:
                                outs.append(Outcome("handled", "%s payload bound -> %s" % (fv, sub), x["st"].get("span"), via=["match"]))
                        else:
                            outs.append(Outcome("handled", "%s payload stored" % fv, x["st"].get("span"), via=["match"]))
            else:
                outs.append(Outcome("discarded", "matched, but the %s payload is never read" % fv))
    if not outs and peeks:
        outs = peeks
    if not outs:
        outs.append(Outcome("unknown", "no recognised consumer"))
    return outs


def payload_flow(b, local, depth=0, seen=None):
    """Short description of where an error payload flows: 'return', 'call:<path>', 'dropped', ..."""
    if seen is None:
        seen = set()
    if local in seen or depth > 10:
        return "…"
    seen.add(local)
    if local == 0:
        return "return"
    res = []
    for u in build_uses(b).get(local, []):
        if u["kind"] == "drop":
            continue
        if u["kind"] == "arg":
            c = u["term"]["callee"]
            p = c.get("path", "indirect")
            d = u["term"]["dest"]
            nxt = payload_flow(b, d["l"], depth + 1, seen) if not d["p"] else "stored"
            res.append("%s -> %s" % (strip_generics(p).split("::")[-1], nxt))
        elif u["kind"] == "stmt":
            d = u["st"]["pl"]
            if u["rk"] == "discr":
                continue
            res.append(payload_flow(b, d["l"], depth + 1, seen) if not d["p"] else "stored")
        elif u["kind"] == "switch":
            res.append("inspected")
    if not res:
        return "dropped"
    return " | ".join(sorted(set(res)))[:200]


def result_error_type(ty):
    """`std::result::Result<T, E>` -> E (string), else None."""
    s = ty
    for pre in ("std::result::Result<", "core::result::Result<"):
        if s.startswith(pre):
            inner = s[len(pre):-1]
            # split top-level comma
            depth = 0
            for i, ch in enumerate(inner):
                if ch in "<([":
                    depth += 1
                elif ch in ">)]":
                    depth -= 1
                elif ch == "," and depth == 0:
                    return inner[i + 1:].strip()
    return None


def fallible_calls(b):
    """[(bb, term, kind, err_ty)] for calls whose result is a Result<_, E> or a workspace 'fallible enum'."""
    out = []
    for bb, t in b.calls():
        c = t["callee"]
        ty = t["dest"]["ty"]
        e = result_error_type(ty)
        if e is not None:
            out.append((bb, t, "Result", e))
        elif strip_generics(ty).endswith("hamiltonian::LeapfrogResult"):
            out.append((bb, t, "LeapfrogResult", "M::LogpErr"))
        elif strip_generics(ty).endswith("nuts::ExtendResult"):
            out.append((bb, t, "ExtendResult", "NutsError"))
    return out

"""MONO: abstract interpretation of straight-line float arithmetic (HIR) in the product domain
interval (extended reals, open/closed ends) x monotonicity w.r.t. one tracked input x tags.

Used to decide order-theoretic clauses (C07): 'raising the statistic never lowers the step size'.
"""
import math
from . import common as K

INF = float("inf")


class Iv:
    """Interval [lo, hi] with open flags."""
    __slots__ = ("lo", "hi", "lo_open", "hi_open")

    def __init__(self, lo=-INF, hi=INF, lo_open=None, hi_open=None):
        self.lo, self.hi = lo, hi
        self.lo_open = (lo == -INF) if lo_open is None else lo_open
        self.hi_open = (hi == INF) if hi_open is None else hi_open

    @staticmethod
    def point(x):
        return Iv(x, x, False, False)

    def is_point(self):
        return self.lo == self.hi and not self.lo_open

    def nonneg(self):
        return self.lo >= 0

    def nonpos(self):
        return self.hi <= 0

    def pos(self):
        return self.lo > 0 or (self.lo == 0 and self.lo_open)

    def neg(self):
        return self.hi < 0 or (self.hi == 0 and self.hi_open)

    def __repr__(self):
        return "%s%s, %s%s" % ("(" if self.lo_open else "[", self.lo, self.hi, ")" if self.hi_open else "]")

    def le(self, c):
        return self.hi <= c

    def ge(self, c):
        return self.lo >= c


TOP = Iv()


def _mul_bound(a, b):
    if a == 0 or b == 0:
        return 0.0
    return a * b


def iv_add(a, b):
    return Iv(a.lo + b.lo if not (math.isinf(a.lo) or math.isinf(b.lo)) else (-INF if (a.lo == -INF or b.lo == -INF) else a.lo + b.lo),
              a.hi + b.hi if not (math.isinf(a.hi) or math.isinf(b.hi)) else (INF if (a.hi == INF or b.hi == INF) else a.hi + b.hi),
              a.lo_open or b.lo_open, a.hi_open or b.hi_open)


def iv_neg(a):
    return Iv(-a.hi, -a.lo, a.hi_open, a.lo_open)


def iv_sub(a, b):
    return iv_add(a, iv_neg(b))


def iv_mul(a, b):
    cands = []
    for (x, xo) in ((a.lo, a.lo_open), (a.hi, a.hi_open)):
        for (y, yo) in ((b.lo, b.lo_open), (b.hi, b.hi_open)):
            cands.append((_mul_bound(x, y), xo or yo))
    lo = min(c[0] for c in cands)
    hi = max(c[0] for c in cands)
    lo_open = all(c[1] for c in cands if c[0] == lo)
    hi_open = all(c[1] for c in cands if c[0] == hi)
    return Iv(lo, hi, lo_open, hi_open)


def iv_recip(a):
    if a.pos():
        hi = INF if a.lo == 0 else 1.0 / a.lo
        lo = 0.0 if a.hi == INF else 1.0 / a.hi
        return Iv(lo, hi, a.hi_open or a.hi == INF, a.lo_open or a.lo == 0)
    if a.neg():
        return iv_neg(iv_recip(iv_neg(a)))
    return TOP


def iv_div(a, b):
    r = iv_recip(b)
    if r is TOP:
        return TOP
    return iv_mul(a, r)


def iv_min(a, b):
    lo = min(a.lo, b.lo)
    hi = min(a.hi, b.hi)
    return Iv(lo, hi, (a.lo_open if a.lo < b.lo else b.lo_open if b.lo < a.lo else a.lo_open and b.lo_open),
              (a.hi_open if a.hi < b.hi else b.hi_open if b.hi < a.hi else a.hi_open or b.hi_open))


def iv_max(a, b):
    return iv_neg(iv_min(iv_neg(a), iv_neg(b)))


def iv_mono_fn(a, f, dom_ok):
    """Apply an increasing function f on its domain."""
    if not dom_ok(a):
        return TOP
    def ap(x):
        try:
            return f(x)
        except (ValueError, OverflowError):
            return -INF if x <= 0 else INF
    return Iv(ap(a.lo), ap(a.hi), a.lo_open, a.hi_open)


class AV:
    """Abstract value: interval, monotonicity w.r.t. the tracked input, tags (set of strings)."""
    __slots__ = ("iv", "mono", "tags", "expr")

    def __init__(self, iv=None, mono="T", tags=(), expr=None):
        self.iv = iv or TOP
        self.mono = mono        # 'C' const, 'U' non-decreasing, 'D' non-increasing, 'T' unknown
        self.tags = frozenset(tags)
        self.expr = expr

    def __repr__(self):
        return "AV(%s %s %s)" % (self.iv, self.mono, sorted(self.tags))


def m_flip(m):
    return {"U": "D", "D": "U"}.get(m, m)


def m_join_add(a, b):
    if a == "C":
        return b
    if b == "C":
        return a
    if a == b and a in ("U", "D"):
        return a
    return "T"


def m_scale(m, iv):
    """monotonicity of (value with mono m) * (constant in iv)."""
    if m == "C":
        return "C"
    if iv.nonneg():
        return m
    if iv.nonpos():
        return m_flip(m)
    return "T"


class Interp:
    """Evaluate a straight-line HIR block. env keys: ('L', binding id) or ('F', 'self.a.b')."""

    def __init__(self, field_init, local_init=None, notes=None):
        self.env = {}
        for k, v in field_init.items():
            self.env[("F", k)] = v
        for k, v in (local_init or {}).items():
            self.env[("L", k)] = v
        self.events = []     # (kind, key, AV, span)
        self.unknown = []

    # ----- places -----
    def place_key(self, n):
        n = K.peel(n)
        if n.get("k") == "Path" and "local" in n["res"]:
            return ("L", n["res"]["local"])
        if n.get("k") == "Field":
            parts = []
            cur = n
            while cur.get("k") == "Field":
                parts.append(cur["name"])
                cur = K.peel(cur["e"])
            if cur.get("k") == "Path" and "local" in cur["res"] and cur["res"]["name"] == "self":
                return ("F", "self." + ".".join(reversed(parts)))
        return None

    def read(self, n):
        key = self.place_key(n)
        if key is None:
            self.unknown.append(n)
            return AV()
        if key in self.env:
            return self.env[key]
        # prefix-insensitive lookup for option fields: self.settings.k -> match by suffix patterns
        if key[0] == "F":
            for (kk, v) in self.env.items():
                if kk[0] == "F" and kk[1].startswith("*.") and key[1].endswith(kk[1][1:]):
                    return v
        return AV()

    # ----- expressions -----
    def ev(self, n):
        n = K.peel(n)
        k = n.get("k")
        if k == "Lit":
            try:
                x = float(n["lit"]["v"])
            except ValueError:
                return AV()
            return AV(Iv.point(x), "C")
        if k in ("Path", "Field"):
            return self.read(n)
        if k in ("Cast", "Type"):
            v = self.ev(n["e"])
            return AV(v.iv, v.mono, v.tags)
        if k == "Block":
            for s in n["stmts"]:
                self.stmt(s)
            return self.ev(n["expr"]) if n.get("expr") else AV(Iv.point(0), "C")
        if k == "Unary" and n["op"] == "-":
            v = self.ev(n["a"])
            tags = {("-" + t[1:] if t.startswith("+") else "+" + t[1:]) for t in v.tags if t[:1] in "+-"}
            return AV(iv_neg(v.iv), m_flip(v.mono), tags)
        if k == "Binary" and n["op"] == "*":
            return self.product(n)
        if k == "Binary":
            return self.binop(n["op"], self.ev(n["a"]), self.ev(n["b"]), n)
        if k == "MethodCall":
            return self.method(n)
        if k == "Call":
            return AV()
        return AV()

    def product(self, n):
        """Flatten a multiplication chain; pairs of identical places are squares (>= 0)."""
        factors = []

        def flat(x):
            x = K.peel(x)
            if x.get("k") == "Binary" and x["op"] == "*":
                flat(x["a"])
                flat(x["b"])
            else:
                factors.append(x)
        flat(n)
        by_key = {}
        rest = []
        for f in factors:
            kx = self.place_key(f)
            if kx is None:
                rest.append(self.ev(f))
            else:
                by_key.setdefault(kx, []).append(f)
        vals = list(rest)
        for kx, fs in by_key.items():
            v = self.read(fs[0])
            for _ in range(len(fs) // 2):
                sq = iv_mul(v.iv, v.iv)
                vals.append(AV(Iv(max(sq.lo, 0.0), sq.hi, False if sq.lo <= 0 else sq.lo_open, sq.hi_open), "C" if v.mono == "C" else "T"))
            if len(fs) % 2:
                vals.append(v)
        acc = vals[0]
        for v in vals[1:]:
            acc = self.binop("*", acc, v, None)
        return acc

    def binop(self, op, a, b, n=None):
        if op == "+":
            tags = set()
            return AV(iv_add(a.iv, b.iv), m_join_add(a.mono, b.mono), tags)
        if op == "-":
            return AV(iv_sub(a.iv, b.iv), m_join_add(a.mono, m_flip(b.mono)))
        if op == "*":
            iv = iv_mul(a.iv, b.iv)
            # square of the same place is non-negative
            if n is not None:
                ka, kb = self.place_key(n["a"]), self.place_key(n["b"])
                if ka is not None and ka == kb:
                    iv = Iv(0, INF, False, True)
            if a.mono == "C":
                mono = m_scale(b.mono, a.iv)
            elif b.mono == "C":
                mono = m_scale(a.mono, b.iv)
            else:
                mono = "T"
            tags = set()
            for (x, y) in ((a, b), (b, a)):
                for t in x.tags:
                    if t[:1] in "+-":
                        if y.iv.pos():
                            tags.add(t)
                        elif y.iv.neg():
                            tags.add(("-" if t[0] == "+" else "+") + t[1:])
            return AV(iv, mono, tags)
        if op == "/":
            iv = iv_div(a.iv, b.iv)
            if b.mono == "C":
                if b.iv.pos():
                    mono = a.mono
                elif b.iv.neg():
                    mono = m_flip(a.mono)
                else:
                    mono = "T" if a.mono != "C" else "C"
            elif a.mono == "C" and (b.iv.pos() or b.iv.neg()):
                # c / x : decreasing in x when c >= 0, increasing when c <= 0
                if a.iv.nonneg():
                    mono = m_flip(b.mono)
                elif a.iv.nonpos():
                    mono = b.mono
                else:
                    mono = "T"
            else:
                mono = "T"
            tags = set()
            for t in a.tags:
                if t[:1] in "+-":
                    if b.iv.pos():
                        tags.add(t)
                    elif b.iv.neg():
                        tags.add(("-" if t[0] == "+" else "+") + t[1:])
            return AV(iv, mono, tags)
        return AV()

    def method(self, n):
        name = n["method"]
        callee = n.get("callee") or ""
        if "f64" not in callee and "f32" not in callee:
            return AV()
        r = self.ev(n["recv"])
        args = [self.ev(a) for a in n["args"]]
        if name == "sqrt":
            return AV(iv_mono_fn(r.iv, math.sqrt, lambda i: i.nonneg()), r.mono if r.iv.nonneg() else "T")
        if name == "ln":
            return AV(iv_mono_fn(r.iv, lambda x: math.log(x) if x > 0 else -INF, lambda i: i.nonneg()), r.mono if r.iv.nonneg() else "T",
                      {"cap"} if "cap" in r.tags else ())
        if name == "exp":
            iv = iv_mono_fn(r.iv, lambda x: math.exp(x) if x < 700 else INF, lambda i: True)
            iv = Iv(max(iv.lo, 0.0), iv.hi, True if iv.lo <= 0 else iv.lo_open, iv.hi_open)
            return AV(iv, r.mono)
        if name == "min" and len(args) == 1:
            tags = set()
            for (x, y) in ((r, args[0]), (args[0], r)):
                if "cap" in y.tags:
                    tags.add("capped")
            if "capped" in r.tags and "capped" in args[0].tags:
                tags.add("capped")
            return AV(iv_min(r.iv, args[0].iv), m_join_add(r.mono, args[0].mono), tags)
        if name == "max" and len(args) == 1:
            return AV(iv_max(r.iv, args[0].iv), m_join_add(r.mono, args[0].mono))
        if name == "abs":
            return AV(Iv(0, INF, False, True), "T" if r.mono != "C" else "C")
        if name == "recip":
            one = AV(Iv.point(1.0), "C")
            return self.binop("/", one, r)
        if name in ("powf", "powi") and len(args) == 1:
            e = args[0]
            if r.mono == "C" and e.mono == "C":
                # b >= 1, e <= 0  -> (0, 1];  0 <= b < 1, e >= 1 -> [0, 1)
                if r.iv.ge(1) and e.iv.nonpos():
                    return AV(Iv(0, 1, True, False), "C")
                if r.iv.ge(1) and e.iv.nonneg():
                    return AV(Iv(1, INF, False, True), "C")
                if r.iv.nonneg() and r.iv.hi <= 1 and e.iv.ge(1):
                    return AV(Iv(0, r.iv.hi, r.iv.lo_open and r.iv.lo == 0, r.iv.hi_open), "C")
                return AV(TOP, "C")
            return AV()
        if name == "ln_1p" or name == "exp_m1":
            return AV(TOP, r.mono)
        return AV()

    # ----- statements -----
    def assign(self, key, val, span, kind="store"):
        self.env[key] = val
        self.events.append((kind, key, val, span))

    def stmt(self, s):
        k = s["k"]
        if k == "Let":
            p = s["pat"]
            if p.get("k") == "Binding" and s.get("init"):
                self.assign(("L", p["id"]), self.ev(s["init"]), s.get("span"), "let")
            return
        e = K.peel(s["e"])
        ek = e.get("k")
        if ek == "Assign":
            key = self.place_key(e["l"])
            v = self.ev(e["r"])
            if key:
                self.assign(key, v, e.get("span"))
        elif ek == "AssignOp":
            key = self.place_key(e["l"])
            cur = self.read(e["l"])
            v = self.binop(e["op"].rstrip("="), cur, self.ev(e["r"]), None)
            if e["op"] in ("+=", "-="):
                rv = self.ev(e["r"])
                tags = set(rv.tags) if e["op"] == "+=" else {("-" if t[0] == "+" else "+") + t[1:] for t in rv.tags if t[:1] in "+-"}
                self.events.append(("increment", key, AV(rv.iv, rv.mono if e["op"] == "+=" else m_flip(rv.mono), tags), e.get("span")))
            if key:
                self.assign(key, v, e.get("span"))
        else:
            # a call of another method on `self` (one that was not spliced in: it has early returns, or is part of the baseline) may store into
            # any field: what was known about the fields it can reach is forgotten (monotonicity unknown)
            if ek == "MethodCall" and e.get("callee") and "f64" not in str(e.get("callee")) and "f32" not in str(e.get("callee")):
                r_ = K.peel(e.get("recv") or {})
                while r_.get("k") in ("AddrOf", "Unary"):
                    r_ = K.peel(r_.get("e") or {})
                if r_.get("k") == "Path" and (r_.get("res") or {}).get("name") == "self" and str(e.get("recv_ty") or "").startswith("&mut") or \
                   (r_.get("k") == "Path" and (r_.get("res") or {}).get("name") == "self" and not str(e.get("callee")).startswith(("core::", "std::", "alloc::"))):
                    for kk in list(self.env):
                        if kk[0] == "F" and kk[1].startswith("self.") and not kk[1].startswith("self.settings"):
                            self.env[kk] = AV(None, "T")
                    self.events.append(("havoc", None, AV(), e.get("span")))
            self.ev(e)

    def run(self, body_value):
        blk = body_value
        for s in blk.get("stmts", []):
            self.stmt(s)
        if blk.get("expr"):
            self.ev(blk["expr"])

"""Settings -> runtime conversion (shared by C07, C08, C18).

`Settings::new_chain` (and the helper `nuts_options`) is the one place where the user's settings become the options a chain runs with. Properties
stated in terms of a setting ("never above max_step_size", "the configured mass-matrix options", "round(subsample_frequency * L / eps) steps") hold only
if the value the chain gets is the value the user set. The rule reads that off the (helper-inlined) MIR of the conversion functions:

  (a) no lossy operation (min / max / clamp / abs) is applied to a value read from the settings on its way to a constructor;
  (b) an options struct copied from the settings is overwritten field-wise only with values that themselves come from the settings
      (`method = Fixed(self.step_size)` is such an override; a constant is not);
  (c) an options / settings struct built in the conversion takes every field from the settings - not from `Default::default()` or a literal.

What the constructors do with the options afterwards is the business of the per-property rules."""
from .facts import path_ends, loc, strip_generics, vt_walk, vt_str
from . import common as K

LOSSY = ("min", "max", "clamp", "abs", "rem_euclid", "signum")


def conversion_bodies(F):
    out = list(F.trait_method_impls("Settings", "new_chain"))
    out += list(F.trait_method_impls("Settings", "stats_options"))
    out += [b for p, b in F.bodies.items() if b.kind != "closure" and strip_generics(p).endswith("sampler::nuts_options")]
    return sorted(out, key=lambda b: b.path)


def _from_settings(v):
    """Does the value tree read the settings object (argument 1)?"""
    return any(x[0] == "arg" and x[1] == 1 for x in vt_walk(v))


def _settings_paths(v):
    out = []

    def walk(x, acc):
        if not isinstance(x, tuple):
            return
        if x[0] == "field":
            walk(x[1], [str(x[2])] + acc)
            return
        if x[0] in ("deref", "ref", "cast"):
            walk(x[1], acc)
            return
        if x[0] == "arg" and x[1] == 1:
            out.append(".".join(acc))
            return
        for y in x[1:]:
            if isinstance(y, tuple):
                walk(y, [])
            elif isinstance(y, list):
                for z in y:
                    walk(z, [])
    walk(v, [])
    return sorted(set(out))


def settings_world(F, b):
    """(ADT paths, field names) reachable from the settings type of this conversion (through field types, generic arguments included)."""
    import re
    start = str(b.local_ty(1))
    seen, names = set(), set()
    todo = [start]
    while todo:
        t = todo.pop()
        for p in re.findall(r"[A-Za-z_][A-Za-z0-9_]*(?:::[A-Za-z_][A-Za-z0-9_]*)+", t):
            if p in F.adts and p not in seen:
                seen.add(p)
                for v in F.adts[p].get("variants") or []:
                    for f in v.get("fields") or []:
                        names.add(f["name"])
                        todo.append(str(f.get("ty") or ""))
    return seen, names


def _is_opt_ty(ty):
    t = strip_generics(str(ty or "").replace("&mut ", "").replace("&", "").strip())
    last = t.split("::")[-1]
    return ("Options" in last or "Settings" in last) and "::" in t


def _unit_like(b, op):
    ty = str((op.get("const") or {}).get("ty") or (op.get("pl") or {}).get("ty") or op.get("ty") or "")
    return ty == "()"


def _field_ok(b, op, depth=0):
    """Is this struct field the user's: read from the settings, a unit, a settings copy adjusted in place, or a struct of such values."""
    if _from_settings(b.value(op)) or _unit_like(b, op) or _local_from_settings(b, op):
        return True
    pl = op.get("pl")
    if not pl or pl["p"] or depth > 4:
        return False
    defs = [st for blk in b.blocks for st in blk["stmts"] if st["k"] == "assign" and st["pl"]["l"] == pl["l"] and not st["pl"]["p"]]
    if len(defs) != 1:
        return False
    rv = defs[0]["rv"]
    if rv["k"] == "use":
        return _field_ok(b, rv["op"], depth + 1)
    if rv["k"] == "agg":
        return all(_field_ok(b, o, depth + 1) for o in rv.get("ops") or [])
    return False


def _local_from_settings(b, op):
    """A named local with several definitions (a copy of a settings field that is then adjusted field by field): one whole definition from the settings."""
    pl = op.get("pl")
    if not pl:
        return False
    for blk in b.blocks:
        for st in blk["stmts"]:
            if st["k"] == "assign" and st["pl"]["l"] == pl["l"] and not st["pl"]["p"] and _from_settings(b.rvalue_value(st["rv"])):
                return True
    return False


def analyse(F, b):
    """[(kind, key, span, text)] for one conversion body."""
    issues = []
    n_checked = 0
    world = settings_world(F, b)
    # locals that are (re)borrows of an options local: ref local -> (root local, projection names)
    refs = {}
    changed = True
    while changed:
        changed = False
        for blk in b.blocks:
            for st in blk["stmts"]:
                if st["k"] != "assign" or st["pl"]["p"]:
                    continue
                rv = st["rv"]
                if rv["k"] in ("ref", "rawptr") and rv.get("bk") in ("mut", "Mut"):
                    src = rv["pl"]
                    names = [e["n"] for e in src["p"] if isinstance(e, dict) and "f" in e]
                    root, pre = src["l"], []
                    if root in refs:
                        root, pre = refs[root]
                    elif not _is_opt_ty(b.local_ty(root)):
                        continue
                    val = (root, pre + names)
                    if refs.get(st["pl"]["l"]) != val:
                        refs[st["pl"]["l"]] = val
                        changed = True
                elif rv["k"] == "use" and rv["op"].get("pl") and not rv["op"]["pl"]["p"] and rv["op"]["pl"]["l"] in refs:
                    if refs.get(st["pl"]["l"]) != refs[rv["op"]["pl"]["l"]]:
                        refs[st["pl"]["l"]] = refs[rv["op"]["pl"]["l"]]
                        changed = True
    for bi, blk in enumerate(b.blocks):
        if blk["cleanup"]:
            continue
        for st in blk["stmts"]:
            if st["k"] != "assign":
                continue
            pl, rv = st["pl"], st["rv"]
            names = [e["n"] for e in pl["p"] if isinstance(e, dict) and "f" in e]
            # (b) field-wise overwrite of an options struct (directly or through a &mut)
            tgt = None
            if names and _is_opt_ty(b.local_ty(pl["l"])) and not b.is_arg(pl["l"]):
                tgt = (pl["l"], names)
            elif names and pl["l"] in refs and pl["p"] and pl["p"][0] == "*":
                tgt = (refs[pl["l"]][0], refs[pl["l"]][1] + names)
            if tgt is not None:
                n_checked += 1
                v = b.rvalue_value(rv)
                if not _from_settings(v):
                    issues.append(("overwrite", "%s.%s" % (strip_generics(b.local_ty(tgt[0])).split("::")[-1], ".".join(tgt[1])), st["span"],
                                   "field `%s` of the %s handed to the chain is overwritten with `%s`, a value that does not come from the settings: the "
                                   "user's value of that field is lost" % (".".join(tgt[1]), strip_generics(b.local_ty(tgt[0])).split("::")[-1], vt_str(v)[:60])))
            # (c) options struct literal with fields that are not the user's
            if rv["k"] == "agg" and rv.get("ak") == "adt" and _is_opt_ty(rv.get("adt")):
                users = strip_generics(rv["adt"]) in world[0]     # a type the user fills in: every field is the user's
                for fn, op in zip(rv.get("fields") or [], rv.get("ops") or []):
                    if not users and fn not in world[1]:
                        continue                                    # a runtime-only field the settings have no say in
                    n_checked += 1
                    v = b.value(op)
                    if _field_ok(b, op):
                        continue
                    issues.append(("default", "%s.%s" % (strip_generics(rv["adt"]).split("::")[-1], fn), st["span"],
                                   "field `%s` of the %s built for the chain is `%s`, not a value of the settings" % (
                                       fn, strip_generics(rv["adt"]).split("::")[-1], vt_str(v)[:60])))
        t = blk["term"]
        if t["k"] == "call":
            nm = t["callee"].get("name")
            if nm in LOSSY and t["args"]:
                v = b.value(t["args"][0])
                n_checked += 1
                if _from_settings(v):
                    sp = _settings_paths(v)
                    issues.append(("lossy", "%s:%s" % (nm, ",".join(sp) or "?"), t["span"],
                                   "`%s` applied to the setting %s on its way to the chain: values outside the range are silently replaced" % (nm, sp or vt_str(v)[:40])))
            else:
                n_checked += 1
    return issues, n_checked


def faithful_conversion(F, R, rid, focus=None, focus_text=""):
    """focus: predicate on (conversion body path, issue key): each property claims the part of the settings it is stated in."""
    R.rule(rid, "settings reach the chain as the user set them%s: in Settings::new_chain / stats_options / nuts_options (helpers inlined) no min / max / clamp / abs is "
                "applied to a settings value, an options struct copied from the settings is overwritten field-wise only with values that come from the settings, "
                "and an options struct built there takes every field from the settings (not from Default::default() or a literal)" % focus_text)
    bodies = conversion_bodies(F)
    n_chain = sum(1 for b in bodies if b.fn_name == "new_chain")
    if n_chain < 6:
        R.missing(rid, "Settings::new_chain impls (found %d, expected the six presets)" % n_chain)
    for b in bodies:
        issues, n = analyse(F, b)
        mine = [i for i in issues if focus is None or focus(b.path, i[1])]
        site = "%s @%s" % (b.path, b.loc())
        for (kind, key, span, text) in mine:
            R.bad(rid, "%s:%s:%s" % (b.path, kind, key), "%s @%s" % (b.path, loc(span)), text)
        if not mine:
            R.ok(rid, b.path + ":conversion", site, "%d stores / struct fields / calls examined%s" % (n, "; %d issue(s) outside this property's settings" % len(issues) if issues else ""))

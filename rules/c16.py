"""C16 - statistics schema and per-draw values are mutually consistent (structural clauses)."""
from .facts import path_ends, loc, strip_generics, hir_walk, vt_walk, vt_str
from . import common as K
from . import schema as S
from . import presence as P

LEVEL = ("Static agreement of the five functions of every Storable impl, read off the derive expansion / manual impl in the type-checked program: "
         "names() and get_all() list the same entries in the same order and each value is read from the field of that name; item_type, dims and "
         "event_dim have exactly one arm per entry and a diverging wildcard, with no shadowing (R1); the Value variant each entry constructs is "
         "admissible for its declared ItemType (R2) and scalar/vector rank matches the declared dims (R3); by abstract interpretation of every "
         "statistics construction, the identifying fields of an event (divergence_draw, divergence_message; transformation_update_id) are Some "
         "exactly when the event predicate holds, all other fields of that event only then, `diverging` equals the predicate and it is the "
         "predicate reported in Progress.diverging (R4); a non-event Option field is Some/None as a function of option switches only (R5); `chain` "
         "is written only in constructors and `draw` is the per-draw counter (R6); all schema queries of Settings name one Stats type, no preset "
         "overrides them, and the update-event marker is advanced after extract_stats in every expanded_draw (R7); flattened stat names of every "
         "preset are reported for duplicates (R8). Not decided: that a vector's runtime length equals the runtime size of its dimension."
         " Added: each store_* option of the statistics is fed by the settings switch of the same name in every preset (R9)."
         " Added (round 4): no function that builds a statistics struct fabricates an empty / default numeric vector (R12)."
         " Added (round 5): StatsDims.n_dim is Math::dim() itself (R13).")
EXPLANATION = ("SCHEMA reconstruction from HIR (literal arms, resolved delegation targets, resolved Value constructors / From impls); option-provenance "
               "abstract interpretation with exhaustive boolean comparison of presence formulas; field-writer inventory on MIR.")
TRUSTED = ["rustc nightly HIR/MIR + macro expansion", "nutsfacts extractor", "rules/schema.py, rules/presence.py, rules/c16.py"]
TECHNIQUE = "static analysis: schema reconstruction of derive expansions + option-provenance abstract interpretation (presence formulas compared by truth table)"

# identifying fields per event dimension: named in the property statement itself
IDENT = {"divergence": ["divergence_draw", "divergence_message"], "transformation_update": ["transformation_update_id"]}
# boolean field that must equal the event predicate
EVENT_FLAG = {"divergence": "diverging"}


def impl_key(im):
    return strip_generics(im.self_ty) or im.self_ty


def r1_r2_r3(F, R):
    R.rule("C16-R1", "per Storable impl: names() and get_all() have identical entry sequences; each literal entry's value reads the field of the same "
                     "name; item_type/dims/event_dim have exactly one arm per entry (literal or delegating to the same type's function), in an order "
                     "that cannot shadow, and end in a diverging wildcard; optional flattening is reported")
    R.rule("C16-R2", "the Value variant constructed for each literal entry is admissible for its declared ItemType")
    R.rule("C16-R3", "scalar Value variant <=> no declared dims; vector variant <=> exactly one declared dim")
    impls = S.storable_impls(F)
    decl = {}
    for im in impls:
        key = impl_key(im)
        site = "%s @%s" % (im.path, loc(im.rec.get("span")))
        missing = [f for f in ("names", "item_type", "dims", "get_all") if f not in im.fn]
        if missing:
            R.bad("C16-R1", key + ":fns", site, "impl lacks %s" % missing)
            continue
        names = S.names_entries(im.fn["names"])
        gets = S.get_all_entries(im.fn["get_all"])
        seq_n = [(e[0], e[1]) for e in names]
        seq_g = [(e[0], e[1]) for e in gets]
        if key in ("()",):
            R.ok("C16-R1", key + ":empty", site, "unit type declares no items")
            continue
        if "ExpandedVectorWrapper" in key:
            # manual forwarding impl: every function forwards to the wrapped type
            fw = all(any((S._deleg_call(x, fn) if x.get("k") in ("Call", "MethodCall") else None) for x in hir_walk(im.fn[fn].hir["value"]))
                     for fn in ("names", "item_type", "dims", "get_all"))
            if fw:
                R.ok("C16-R1", key + ":forward", site, "manual impl forwards names/item_type/dims/get_all to the wrapped Storable")
            else:
                R.bad("C16-R1", key + ":forward", site, "manual wrapper does not forward every function to the wrapped Storable")
            if "event_dim" not in im.fn:
                R.info("C16-R1", "%s does not forward event_dim (default None): event statistics of user draw types are not supported" % key)
            continue
        if seq_n != seq_g:
            R.bad("C16-R1", key + ":names-vs-get_all", site, "names() declares %s but get_all() produces %s" % (seq_n, seq_g))
        else:
            R.ok("C16-R1", key + ":names-vs-get_all", site, "%d entries in the same order" % len(seq_n))
        for fn in ("names", "get_all"):
            ops = S.other_result_ops(im.fn[fn])
            if ops:
                R.bad("C16-R1", "%s:%s:reordered" % (key, fn), site, "%s() post-processes its result with %s: order/content no longer follows the declaration" % (fn, ops))
        for e in gets:
            if e[3]:
                R.bad("C16-R1", "%s:optional-flatten:%s" % (key, e[1]), site, "entry %s is produced only conditionally while names() is unconditional" % (e[1],))
            if e[0] == "lit":
                rd = set(S.self_fields_read(e[2]))
                if im.derived and rd != {e[1]}:
                    R.bad("C16-R1", "%s:value-field:%s" % (key, e[1]), site, "value of `%s` is read from field(s) %s" % (e[1], sorted(rd)))
        lit_names = [e[1] for e in names if e[0] == "lit"]
        if len(set(lit_names)) != len(lit_names):
            R.bad("C16-R1", key + ":dup-literal", site, "a literal name is declared twice in one impl: %s" % lit_names)
        tables = {}
        for fn in ("item_type", "dims", "event_dim"):
            if fn not in im.fn:
                tables[fn] = None
                continue
            arms, whole = S.lookup_arms(im.fn[fn], fn)
            if arms is None:
                # manual impl answering every item the same way
                tables[fn] = ("const", whole)
                continue
            tables[fn] = ("arms", arms)
            got = [(a[0], a[1]) for a in arms if a[0] in ("lit", "deleg")]
            if sorted(map(str, got)) != sorted(map(str, seq_n)):
                R.bad("C16-R1", "%s:%s:arms" % (key, fn), site, "%s() has arms %s for declared entries %s" % (fn, got, seq_n))
            else:
                R.ok("C16-R1", "%s:%s:arms" % (key, fn), site, "one arm per declared entry")
            for a in arms:
                if a[0] == "deleg" and a[1] != a[2]:
                    R.bad("C16-R1", "%s:%s:deleg:%s" % (key, fn, a[1]), site, "arm guarded by %s::names delegates to %s::%s" % (a[1], a[2], fn))
                if a[0] == "other":
                    R.bad("C16-R1", "%s:%s:pattern" % (key, fn), site, "unrecognised arm pattern %s" % a[1])
            if not arms or arms[-1][0] != "wild" or not arms[-1][1]:
                R.bad("C16-R1", "%s:%s:wildcard" % (key, fn), site, "%s() does not end in a diverging wildcard arm (an unknown name would get a made-up answer)" % fn)
            if any(a[0] == "wild" for a in arms[:-1]):
                R.bad("C16-R1", "%s:%s:early-wildcard" % (key, fn), site, "wildcard arm before the last arm shadows later entries")
        decl[key] = {"names": names, "gets": gets, "tables": tables, "im": im}
        # R2 / R3 on literal entries
        for e in gets:
            if e[0] != "lit":
                continue
            name = e[1]
            variants = S.value_variant(F, e[2])
            it = None
            dims = None
            t = tables.get("item_type")
            if t and t[0] == "arms":
                for a in t[1]:
                    if a[0] == "lit" and a[1] == name:
                        it = S.item_type_variant(a[2])
            elif t:
                it = S.item_type_variant(t[1])
            t = tables.get("dims")
            if t and t[0] == "arms":
                for a in t[1]:
                    if a[0] == "lit" and a[1] == name:
                        dims = S.dims_list(a[2])
            elif t:
                dims = S.dims_list(t[1])
            k2 = "%s:%s" % (key, name)
            if len(variants) != 1 or it is None:
                R.bad("C16-R2", k2, site, "cannot determine one Value variant / ItemType for `%s`: variants %s, item type %s" % (name, sorted(variants), it))
                continue
            v = list(variants)[0]
            adm = S.ADMISSIBLE.get(it)
            if adm is None or v not in adm:
                R.bad("C16-R2", k2, site, "`%s` is declared ItemType::%s but its value is Value::%s" % (name, it, v))
            else:
                R.ok("C16-R2", k2, site, "ItemType::%s / Value::%s" % (it, v))
            if adm and v in adm and dims is not None:
                scalar = (v == adm[0])
                if scalar and dims:
                    R.bad("C16-R3", k2, site, "scalar value Value::%s with declared dims %s" % (v, dims))
                elif (not scalar) and len(dims) != 1:
                    R.bad("C16-R3", k2, site, "vector value Value::%s with %d declared dims %s (needs exactly one)" % (v, len(dims), dims))
                else:
                    R.ok("C16-R3", k2, site, "%s, dims %s" % ("scalar" if scalar else "vector", dims))
    R.floor("C16-R1", 40)
    R.floor("C16-R2", 40)
    R.floor("C16-R3", 40)
    return decl


def event_fields(decl_entry):
    """{event dim: [field names]} and list of non-event literal fields, from the event_dim table."""
    ev = {}
    non = []
    t = decl_entry["tables"].get("event_dim")
    if not t or t[0] != "arms":
        return ev, [e[1] for e in decl_entry["names"] if e[0] == "lit"]
    for a in t[1]:
        if a[0] != "lit":
            continue
        d = S.event_of(a[2])
        if d is None:
            non.append(a[1])
        else:
            ev.setdefault(d, []).append(a[1])
    return ev, non


def constructions_of(F, adt_path):
    """[(body, Interp, construction)] for every struct expression that builds adt_path."""
    out = []
    short = strip_generics(adt_path)
    for b in F.hir_bodies():
        if not b.hir or K.is_std_derive(b):
            continue
        if not any(x.get("k") == "Struct" and strip_generics(x["res"].get("def", "")) == short for x in hir_walk(b.hir["value"])):
            continue
        it = P.Interp(b).run()
        for c in it.constructions:
            if strip_generics(c[1]) == short:
                out.append((b, it, c))
    return out


def overall_presence(items, field):
    """OR over constructions of (ctx & presence(field)) - per function (contexts of one function are disjoint)."""
    res = P.Fa
    for (b, it, c) in items:
        res = P.mk_or(res, P.mk_and(c[0], it.field_presence(c, field)))
    return res


def r4_r5(F, R, decl):
    R.rule("C16-R4", "event discipline: in every construction of a statistics struct the identifying fields of an event are Some exactly under the event "
                     "predicate, every other field of that event dimension only under it, the event flag field equals it, and the predicate is not constant")
    R.rule("C16-R5", "a non-event Option field is Some/None as a function of boolean option switches only (fields of the options parameter or immutable "
                     "configuration fields of self), never of per-draw state")
    for key, de in sorted(decl.items()):
        ev, non = event_fields(de)
        adt = F.adts.get(key)
        if adt is None:
            continue
        ftypes = {f["name"]: f["ty"] for f in adt["variants"][0]["fields"]}
        opt_non = [n for n in non if "Option<" in ftypes.get(n, "")]
        if not ev and not opt_non:
            continue
        cons = constructions_of(F, key)
        site = "%s @%s" % (key, loc(adt.get("span")))
        if not cons:
            R.bad("C16-R4", key + ":constructions", site, "no construction of %s found (anchor)" % key)
            continue
        # group by function
        byfn = {}
        for (b, it, c) in cons:
            byfn.setdefault(b.path, []).append((b, it, c))
        for fn, items in sorted(byfn.items()):
            fsite = "%s @%s" % (fn, items[0][0].loc())
            for dim, fields in sorted(ev.items()):
                ids = IDENT.get(dim)
                k0 = "%s:%s:%s" % (key, fn, dim)
                if not ids:
                    # an event dimension added after the table was written: its identifying field is the one every other field of the event implies
                    pres = {f: overall_presence(items, f) for f in fields}
                    cand = [f0 for f0 in sorted(fields) if all(P.implies(pres[f], pres[f0]) for f in fields) and P.is_constant(pres[f0]) is None]
                    if cand:
                        R.ok("C16-R4", k0 + ":predicate", fsite, "new event `%s`: every field is present only when `%s` is (%s), which is not constant" % (dim, cand[0], P.fshow(pres[cand[0]])))
                    else:
                        R.bad("C16-R4", k0 + ":unknown-event", fsite, "event dimension `%s`: no field whose presence (non-constant) is implied by all the others - the fields of one event "
                              "do not appear together (%s)" % (dim, {f: P.fshow(x) for f, x in pres.items()}))
                    continue
                present_ids = [f for f in ids if f in fields]
                if not present_ids:
                    R.bad("C16-R4", k0 + ":no-ident", fsite, "struct has fields of event `%s` but none of its identifying fields %s" % (dim, ids))
                    continue
                E = overall_presence(items, present_ids[0])
                cst = P.is_constant(E)
                if cst is not None:
                    R.bad("C16-R4", k0 + ":const", fsite, "event predicate of `%s` is constantly %s: %s is %s on every draw" % (dim, cst, present_ids[0], "present" if cst else "absent"))
                else:
                    R.ok("C16-R4", k0 + ":predicate", fsite, "%s present iff %s" % (present_ids[0], P.fshow(E)))
                for f in fields:
                    pf = overall_presence(items, f)
                    kf = "%s:%s" % (k0, f)
                    if f in present_ids:
                        if P.equivalent(pf, E):
                            R.ok("C16-R4", kf, fsite, "identifying field present exactly on the event")
                        else:
                            R.bad("C16-R4", kf, fsite, "identifying field `%s` is present iff %s, but the event (%s) happens iff %s" % (f, P.fshow(pf), present_ids[0], P.fshow(E)))
                    else:
                        if P.implies(pf, E):
                            R.ok("C16-R4", kf, fsite, "present only on the event (%s)" % P.fshow(pf))
                        else:
                            R.bad("C16-R4", kf, fsite, "event field `%s` can be present (%s) on a draw without the event (%s)" % (f, P.fshow(pf), P.fshow(E)))
                flag = EVENT_FLAG.get(dim)
                if flag and flag in ftypes:
                    pf = overall_presence(items, flag)
                    kf = "%s:%s" % (k0, flag)
                    if P.equivalent(pf, E):
                        R.ok("C16-R4", kf, fsite, "`%s` equals the event predicate" % flag)
                    else:
                        R.bad("C16-R4", kf, fsite, "`%s` is %s but the event fields are present iff %s" % (flag, P.fshow(pf), P.fshow(E)))
            for f in opt_non:
                pf = overall_presence(items, f)
                kf = "%s:%s:%s" % (key, fn, f)
                bad_atoms = [a for a in P.atoms_of(pf) if not option_atom(F, items[0][0], a)]
                cached = cached_option_ok(F, items[0][0], key, f) if bad_atoms else None
                if cached is not None and cached[0]:
                    R.ok("C16-R5", kf, fsite, "present as in the per-draw cache it is " + cached[1])
                elif bad_atoms:
                    R.bad("C16-R5", kf, fsite, "non-event statistic `%s` is present iff %s, which depends on %s (not an option switch): present on some draws and absent on others" % (
                        f, P.fshow(pf), bad_atoms))
                else:
                    R.ok("C16-R5", kf, fsite, "present iff %s" % P.fshow(pf))
    R.floor("C16-R4", 14)
    R.floor("C16-R5", 4)


def option_atom(F, b, a):
    """atom is `$param.field(.field)*` of bool type where param is not per-draw state: a parameter other than self, or a self field
    that is only written in constructors."""
    if a.startswith("some:") or a.startswith("unknown#") or a.startswith("arm#"):
        return False
    if not a.startswith("$"):
        return False
    body = a[1:]
    parts = body.split(".")
    if any(not p.replace("_", "").isalnum() for p in parts):
        return False
    if parts[0] != "self":
        return len(parts) >= 2
    # self.<field>...: the first field must have no writer outside constructors
    adt = b.parent.get("self_adt")
    if not adt or len(parts) < 2:
        return False
    ws = [w for w in K.field_writers(F, adt, parts[1]) if w[4] != "agg"]
    # a consuming builder (`fn with_x(mut self, x) -> Self { self.x = x; self }`) configures the object before it is used: constructor-like
    ws = [w for w in ws if not _consuming_builder(w[0])]
    # a store into an object the function itself has just built (`let mut chain = Chain::new(..); chain.flag = v;`, also an inlined builder)
    ws = [w for w in ws if not ("pl" in w[2] and not w[0].is_arg(K.root_local(w[0], {"k": "copy", "pl": {"l": w[2]["pl"]["l"], "p": []}}) or -1)
                                and not w[0].is_arg(w[2]["pl"]["l"]))]
    return not ws


def _consuming_builder(wb):
    if wb.kind == "closure" or wb.arg_count < 1:
        return False
    ty = wb.local_ty(1) or ""
    out = str(wb.r.get("output") or (wb.locals[0].get("ty") if wb.locals else ""))
    return not ty.startswith("&") and strip_generics(ty).split("::")[-1] == strip_generics(out).split("::")[-1] and ty != ""


def cached_option_ok(F, b, stat_adt, f):
    """A non-event statistic copied from a per-draw cache object held by the chain (`self.last_x.as_ref().expect(..).f.clone()`): its presence is
    decided where the cache object is built. -> (ok?, text) or None if the value does not come from such a cache."""
    for bi, blk in enumerate(b.blocks):
        for st in blk["stmts"]:
            if st["k"] == "assign" and st["rv"]["k"] == "agg" and st["rv"].get("ak") == "adt" and strip_generics(st["rv"]["adt"]) == strip_generics(stat_adt) \
                    and f in (st["rv"].get("fields") or []):
                v = b.value(st["rv"]["ops"][st["rv"]["fields"].index(f)])
                chain = []
                x = v
                while True:
                    if x[0] in ("ref", "deref", "cast", "downcast"):
                        x = x[1]
                    elif x[0] == "field":
                        chain.append(str(x[2]))
                        x = x[1]
                    elif x[0] == "call" and x[2]:
                        x = x[2][0]
                    else:
                        break
                chain = [c for c in reversed(chain) if not c.isdigit()]
                if x[0] != "arg" or x[1] != 1 or len(chain) < 2:
                    return None
                self_adt = b.parent.get("self_adt")
                sa = F.adts.get(self_adt) or {}
                fty = next((q["ty"] for q in (sa.get("variants") or [{}])[0].get("fields", []) if q["name"] == chain[0]), "")
                cache_adt = next((p_ for p_ in F.adts if p_ in fty or strip_generics(p_) in strip_generics(fty)), None)
                if cache_adt is None:
                    return None
                fld = chain[-1]
                texts = []
                okk = True
                found = False
                for wb in sorted(F.bodies.values(), key=lambda z: z.path):
                    if not wb.hir or K.is_std_derive(wb):
                        continue
                    if not any(zz.get("k") == "Struct" and strip_generics((zz.get("res") or {}).get("def", "")) == strip_generics(cache_adt) for zz in hir_walk(wb.hir["value"])):
                        continue
                    it = P.Interp(wb).run()
                    for c in it.constructions:
                        if strip_generics(c[1]) != strip_generics(cache_adt) or fld not in c[2]:
                            continue
                        found = True
                        pf = it.field_presence(c, fld)
                        bad = [a for a in P.atoms_of(pf) if not option_atom(F, wb, a)]
                        texts.append("%s: %s" % (wb.fn_name, P.fshow(pf)))
                        if bad:
                            okk = False
                if not found:
                    return None
                return okk, "copied from %s.%s, which is built with presence %s" % (strip_generics(cache_adt).split("::")[-1], fld, "; ".join(texts))
    return None


def r6(F, R):
    R.rule("C16-R6", "the `chain` statistic is the chain's `chain` field, written only when the chain is constructed; the `draw` statistic is the chain's "
                     "draw counter field (whose single increment per draw is decided by C03-R3)")
    n = 0
    for b in F.trait_method_impls("SamplerStats", "extract_stats"):
        adt = b.parent.get("self_adt")
        if not adt or not (path_ends(adt, "NutsChain") or path_ends(adt, "MclmcChain")):
            continue
        it = P.Interp(b).run()
        for c in it.constructions:
            fields = c[2]
            for stat, want in (("chain", "chain"), ("draw", "draw_count")):
                if stat not in fields:
                    continue
                n += 1
                e = K.peel(fields[stat][0])
                key = "%s:%s" % (b.path, stat)
                site = "%s @%s" % (b.path, b.loc())
                if e.get("k") == "Field" and K.local_name(e["e"]) == "self" and e["name"] == want:
                    ws = [w for w in K.field_writers(F, adt, want)]
                    if stat == "chain" and any(w[4] != "agg" for w in ws):
                        R.bad("C16-R6", key, site, "`chain` field is assigned outside the constructor")
                    else:
                        R.ok("C16-R6", key, site, "%s = self.%s" % (stat, want))
                else:
                    R.bad("C16-R6", key, site, "statistic `%s` is not self.%s" % (stat, want))
    R.floor("C16-R6", 4)


def r7(F, R):
    R.rule("C16-R7", "every schema query of the Settings trait (stat_names/stat_type/stat_dims/stat_event_dim ...) is a default method that asks "
                     "`<<Self::Chain<M> as SamplerStats<M>>::Stats as Storable<_>>`, no Settings impl overrides one of them, and in every expanded_draw the "
                     "transformation-update marker (update_stats_options) is advanced after extract_stats")
    tr = F.traits.get("sampler::Settings")
    if not tr:
        R.missing("C16-R7", "trait sampler::Settings")
        return
    defaults = [it["name"] for it in tr["items"] if it["name"].startswith("stat_") and it.get("has_default")]
    for nme in defaults:
        b = F.bodies.get("sampler::Settings::" + nme)
        if b is None or not b.hir:
            continue
        tys = set()
        for x in hir_walk(b.hir["value"]):
            if x.get("k") == "Path":
                d = S._storable_path(x)
                if d:
                    tys.add(d[1])
        key = "Settings::%s" % nme
        site = "%s @%s" % (b.path, b.loc())
        calls_other = any(x.get("k") == "MethodCall" and (x.get("callee") or "").startswith("sampler::Settings::stat_") for x in hir_walk(b.hir["value"]))
        uses_dims = any(x.get("k") in ("Call", "MethodCall") and ("HasDims" in (K.callee_of(x) or "")) for x in hir_walk(b.hir["value"]))
        if not tys and not calls_other and uses_dims:
            R.ok("C16-R7", key, site, "dimension query (HasDims of StatsDims), no schema involved")
        elif tys and all("SamplerStats" in t and "::Stats" in t and "Chain" in t for t in tys):
            R.ok("C16-R7", key, site, "queries %s" % sorted(tys))
        elif not tys and calls_other:
            R.ok("C16-R7", key, site, "built from the other stat_* queries")
        else:
            R.bad("C16-R7", key, site, "schema query uses %s, not the chain's Stats type" % sorted(tys))
    over = []
    for i in F.impls_of_trait("sampler::Settings"):
        for it in i.get("items", []):
            if it["name"].startswith("stat_"):
                over.append((i["self_ty"], it["name"]))
    if over:
        for (t, nme) in over:
            R.bad("C16-R7", "override:%s:%s" % (t, nme), t, "preset overrides schema query %s: schema and values can drift apart" % nme)
    else:
        R.ok("C16-R7", "no-override", "impl Settings for the presets", "no preset overrides a stat_* default method (%d defaults)" % len(defaults))
    for b in F.trait_method_impls("chain::Chain", "expanded_draw"):
        ex = b.calls_to(lambda c: path_ends(c["path"], "SamplerStats::extract_stats"))
        up = b.calls_to(lambda c: path_ends(c["path"], "Hamiltonian::update_stats_options"))
        key = b.path + ":marker"
        site = "%s @%s" % (b.path, b.loc())
        rng_ = K.path_count_range(b, {up[0][0]: 1}, ex[0][0]) if len(ex) == 1 and len(up) == 1 else None
        stored = False
        if len(up) == 1:
            d = up[0][1]["dest"]
            stored = any(isinstance(e, dict) and e.get("n") == "stats_options" for e in d["p"]) or \
                any(st["k"] == "assign" and any(isinstance(e, dict) and e.get("n") == "stats_options" for e in st["pl"]["p"]) and
                    st["rv"]["k"] == "use" and st["rv"]["op"]["k"] in ("copy", "move") and st["rv"]["op"]["pl"]["l"] == d["l"]
                    for blk in b.blocks for st in blk["stmts"])
        if len(ex) == 1 and len(up) == 1 and b.dominates(ex[0][0], up[0][0]) and rng_ == (1, 1) and stored:
            R.ok("C16-R7", key, site, "update_stats_options runs after extract_stats on every path and its result is stored back into stats_options")
        elif len(ex) == 1 and len(up) == 1 and b.dominates(ex[0][0], up[0][0]):
            R.bad("C16-R7", key, site, "the update-event marker is advanced only on some paths after extract_stats (%s) or not stored back (stored=%s): "
                  "a transformation update would be announced again on later draws" % (rng_, stored))
        else:
            R.bad("C16-R7", key, site, "extract_stats calls: %d, update_stats_options calls: %d, order not established: an update event would be reported never or twice" % (len(ex), len(up)))
    for b in F.trait_method_impls("Transformation", "next_stats_options"):
        ds = b.defs().get(0, [])
        v = b.rvalue_value(ds[0][3]["rv"]) if len(ds) == 1 and ds[0][0] == "stmt" and ds[0][3]["k"] == "assign" else None
        if v is None and len(ds) == 1 and ds[0][0] == "call":
            t = ds[0][3]
            v = ("call", t["callee"].get("path", "?"), [b.value(a) for a in t["args"]], t["callee"])
        key = b.path + ":marker-value"
        site = "%s @%s" % (b.path, b.loc())
        s = vt_str(v) if v else "?"
        if v is not None and ("id" in s) and not any(n[0] == "arg" and n[2] and "current" in n[2] for n in vt_walk(v)):
            R.ok("C16-R7", key, site, "next marker = %s" % s)
        else:
            R.bad("C16-R7", key, site, "next_stats_options returns %s (expected the transformation's current id)" % s)
    R.floor("C16-R7", 8)


def flat_names(F, decl, ty, depth=0):
    """Flattened literal names of a concrete Stats type string."""
    from . import tys as T
    t = T.parse(ty) if isinstance(ty, str) else ty
    key = t[0]
    if key == "tuple" and not t[1]:
        return []
    de = decl.get(key)
    if de is None or depth > 8:
        return [("?" + T.show(t))] if key not in ("()",) else []
    adt = F.adts.get(key)
    gens = [g for g in (adt.get("generics", []) if adt else []) if not g.startswith("'")]
    env = {g: a for g, a in zip(gens, t[1])}
    out = []
    for e in de["names"]:
        if e[0] == "lit":
            out.append(e[1])
        else:
            sub = T.subst(T.parse(e[1]), env)
            out += flat_names(F, decl, sub, depth + 1)
    return out


def r8(F, R, decl):
    R.rule("C16-R8", "flattened statistic names of every preset's concrete Stats type: duplicates are reported (name-keyed backends collapse them)")
    for s in sorted(F.settings_stats, key=lambda x: x["self_ty"]):
        names = flat_names(F, decl, s["stats_ty"])
        dup = sorted({n for n in names if names.count(n) > 1})
        unk = [n for n in names if n.startswith("?")]
        key = "%s:flat" % s["self_ty"]
        if unk:
            R.bad("C16-R8", key, s["self_ty"], "cannot flatten %s" % unk)
        elif dup:
            for d in dup:
                R.bad("C16-R8", "%s:dup:%s" % (s["self_ty"], d), s["self_ty"], "statistic `%s` is declared %d times in the flattened schema of %s" % (d, names.count(d), s["self_ty"]))
        else:
            R.ok("C16-R8", key, s["self_ty"], "%d distinct names" % len(names))
    R.floor("C16-R8", 6)


def progress_predicate(F, R):
    """R4 last clause: Progress.diverging in every Chain::draw is `divergence info is Some` of the same transition."""
    for b in F.trait_method_impls("chain::Chain", "draw"):
        for bi, blk in enumerate(b.blocks):
            for st in blk["stmts"]:
                if st["k"] == "assign" and st["rv"]["k"] == "agg" and st["rv"]["ak"] == "adt" and path_ends(st["rv"]["adt"], "sampler::Progress"):
                    op = st["rv"]["ops"][st["rv"]["fields"].index("diverging")]
                    v = b.value(op)
                    s = vt_str(v)
                    key = b.path + ":progress.diverging"
                    site = "%s @%s" % (b.path, loc(st["span"]))
                    if "is_some" in s and ("divergence_info" in s or "diverg" in s):
                        R.ok("C16-R4", key, site, "Progress.diverging = %s" % s[:80])
                        continue
                    # a `diverging` flag carried next to an Option<DivergenceInfo> in an info struct: flag == presence in every construction
                    flds = [n for n in vt_walk(v) if n[0] == "field"]
                    okk = False
                    if flds and flds[0][2] == "diverging":
                        for adt_path, adt in F.adts.items():
                            fn = {f["name"]: f["ty"] for f in adt["variants"][0]["fields"]} if adt["kind"] == "struct" and adt["variants"] else {}
                            if fn.get("diverging") == "bool" and "DivergenceInfo" in fn.get("divergence_info", "") and not adt_path.endswith("DivergenceStats"):
                                cons = constructions_of(F, adt_path)
                                byfn = {}
                                for (cb, it, c) in cons:
                                    byfn.setdefault(cb.path, []).append((cb, it, c))
                                # the flag must not be a constant over all constructions of the struct (then it would say nothing);
                                # one function may well build only the diverging (or only the regular) value
                                consts = {P.is_constant(overall_presence(items, "diverging")) for items in byfn.values()}
                                informative = (None in consts) or ({True, False} <= consts)
                                okk = bool(byfn)
                                for fnp, items in byfn.items():
                                    a = overall_presence(items, "diverging")
                                    d = overall_presence(items, "divergence_info")
                                    kk = "%s:%s:flag-vs-info" % (adt_path, fnp)
                                    if P.equivalent(a, d) and informative:
                                        R.ok("C16-R4", kk, "%s @%s" % (fnp, items[0][0].loc()), "%s.diverging == divergence_info.is_some() in every construction (%s)" % (adt_path, P.fshow(a)))
                                    else:
                                        okk = False
                                        R.bad("C16-R4", kk, "%s @%s" % (fnp, items[0][0].loc()), "%s.diverging is %s but divergence_info is Some iff %s" % (adt_path, P.fshow(a), P.fshow(d)))
                    if okk:
                        R.ok("C16-R4", key, site, "Progress.diverging = %s (flag proven equal to `divergence info is Some`)" % s[-60:])
                    else:
                        R.bad("C16-R4", key, site, "Progress.diverging = %s, not provably `divergence info is Some`" % s[:120])


def r9(F, R):
    """A `store_*` switch of the settings reaches the statistics option of the same name."""
    R.rule("C16-R9", "in every Settings::stats_options, each boolean field `store_X` of a statistics-options struct is given `self.store_X` of the settings "
                     "(same name; helpers inlined): a switched pair makes the statistic whose option is on absent and the other one present on every draw")
    n = 0
    for b in F.trait_method_impls("sampler::Settings", "stats_options"):
        for bi, blk in enumerate(b.blocks):
            if blk["cleanup"]:
                continue
            for st in blk["stmts"]:
                if st["k"] != "assign" or st["rv"]["k"] != "agg" or st["rv"].get("ak") != "adt" or not st["rv"].get("fields"):
                    continue
                adt = F.adts.get(st["rv"]["adt"]) or {}
                ftypes = {f["name"]: f["ty"] for v_ in adt.get("variants", []) for f in v_["fields"]}
                for fn, op in zip(st["rv"]["fields"], st["rv"]["ops"]):
                    if not fn.startswith("store_") or ftypes.get(fn) != "bool":
                        continue
                    n += 1
                    v = b.value(op)
                    key = "%s:%s.%s" % (b.path, strip_generics(st["rv"]["adt"]).split("::")[-1], fn)
                    site = "%s @%s" % (b.path, loc(st["span"]))
                    src = v
                    while src[0] in ("deref", "ref", "cast"):
                        src = src[1]
                    if src[0] == "field":
                        root = src[1]
                        while root[0] in ("deref", "ref", "field"):
                            root = root[1]
                        if root[0] == "arg" and root[1] == 1 and src[2] == fn:
                            R.ok("C16-R9", key, site, "%s = self.%s" % (fn, fn))
                            continue
                        if root[0] == "arg" and root[1] == 1 and str(src[2]).startswith("store_"):
                            R.bad("C16-R9", key, site, "option %s is driven by the settings switch `%s`" % (fn, src[2]))
                            continue
                    R.bad("C16-R9", key, site, "option %s is %s, not the settings switch of the same name" % (fn, vt_str(v)))
    R.floor("C16-R9", 20)



def r10(F, R):
    """The draw counter advances once per *returned* draw."""
    from .c05 import agg_blocks
    R.rule("C16-R10", "in every Chain::draw the draw counter is incremented only on the way to the successful return: no error exit (`?`, Err(..)) is reachable "
                      "after the increment, so a failed draw does not consume a counter value and `draw` / `divergence_draw` increase by one per recorded draw")
    n = 0
    for b in F.trait_method_impls("chain::Chain", "draw"):
        adt = b.parent.get("self_adt")
        incs = [(bb, st) for (wb, bb, st, v, how) in K.field_writers(F, adt, "draw_count") if wb.path == b.path and how == "assign"]
        site = "%s @%s" % (b.path, b.loc())
        key = b.path + ":counter-after-failures"
        if not incs:
            R.bad("C16-R10", key, site, "no increment of draw_count in draw()")
            continue
        n += 1
        errs = set(x[0] for x in agg_blocks(b, "Result", "Err") if x[1]["pl"]["l"] == 0)
        for bb, t in b.calls():
            if strip_generics(t["callee"].get("path", "")).endswith("FromResidual::from_residual") and not t["dest"]["p"] and t["dest"]["l"] == 0:
                errs.add(bb)
        late = []
        for ib, st in incs:
            reach = b.reach_from(ib)
            late += [e_ for e_ in errs if e_ in reach and e_ != ib]
        if late:
            R.bad("C16-R10", key, "%s @%s" % (b.path, loc(incs[0][1]["span"])), "an error return is reachable after draw_count was incremented (%d error exits): a draw that "
                  "failed still uses up a value of the `draw` statistic" % len(set(late)))
        else:
            R.ok("C16-R10", key, site, "draw_count is incremented after the last fallible step")
    R.floor("C16-R10", 2)



FABRICATED = ("unwrap_or_default", "Default::default", "Vec::<T>::new", "Vec::new", "Vec::<T>::with_capacity", "Box::<[T]>::default")


def _fabricated_vectors(F, stats_adts):
    """Calls that produce an empty / default vector inside a function (or one of its closures) that builds a statistics struct."""
    out = []
    builders = []
    for b in sorted(F.bodies.values(), key=lambda x: x.path):
        if K.is_std_derive(b) or not b.blocks:
            continue
        for blk in b.blocks:
            for st in blk["stmts"]:
                if st["k"] == "assign" and st["rv"]["k"] == "agg" and st["rv"].get("ak") == "adt" and st["rv"]["adt"] in stats_adts:
                    builders.append(b)
                    break
            else:
                continue
            break
    for b in builders:
        group = [b] + K.all_closures_of(F, b.path)
        for x in group:
            for bb, t in x.calls():
                p_ = strip_generics(t["callee"].get("path", ""))
                if not p_.endswith(FABRICATED):
                    continue
                ty = x.local_ty(t["dest"]["l"]) if not t["dest"]["p"] else str(t["dest"].get("ty"))
                if ty.startswith(("std::vec::Vec<", "std::boxed::Box<[")) and any(e in ty for e in ("f64", "f32", "i64", "u64", "bool")):
                    out.append((b, x, bb, t, ty))
    return out, builders


def r12(F, R):
    R.rule("C16-R12", "vector-valued statistics are never fabricated: a function that builds a statistics struct (a type with a Storable impl), or one of its closures "
                      "and inlined helpers, does not produce an empty / default numeric vector (`unwrap_or_default()`, `Vec::new()`, `Default::default()`): a value "
                      "that is present must have the length of its declared dimensions, a value that does not exist is None")
    from . import schema as S
    stats_adts = {im.rec.get("self_adt") for im in S.storable_impls(F) if im.rec.get("self_adt")}
    hits, builders = _fabricated_vectors(F, stats_adts)
    if not builders:
        R.missing("C16-R12", "functions constructing Storable statistics structs")
        return
    for (b, x, bb, t, ty) in hits:
        R.bad("C16-R12", "%s:%s" % (b.path, t["callee"].get("name")), "%s @%s" % (x.path, loc(t["span"])), "%s produces a %s inside the construction of a statistics struct: "
              "an empty vector is stored where the declared dims promise a full one" % (strip_generics(t["callee"].get("path", "")).split("::", 1)[-1], ty[:40]))
    if not hits:
        R.ok("C16-R12", "scan", "library crates", "%d functions build statistics structs; none fabricates a numeric vector" % len(builders))
    R.floor("C16-R12", 1)


def r13(F, R):
    R.rule("C16-R13", "the declared size of the statistics' dimension is the size of the values: StatsDims.n_dim (what Settings::stat_dim_sizes reports for "
                      "`unconstrained_parameter`) is Math::dim() itself - not clamped, rounded or offset - so that a vector statistic, whose values have "
                      "math.dim() entries, always has the length its declared dimension gives (also for a model without parameters)")
    ws = K.field_writers(F, "sampler_stats::StatsDims", "n_dim")
    if not ws:
        R.missing("C16-R13", "writers of StatsDims.n_dim")
    for (b, bb, st, v, how) in ws:
        site = "%s @%s" % (b.path, loc(st["span"]))
        key = "%s:n_dim" % b.path
        calls = [strip_generics(x[1]).split("::")[-1] for x in vt_walk(v) if x[0] == "call"]
        bins = [x[1] for x in vt_walk(v) if x[0] == "bin"]
        if calls == ["dim"] and not bins:
            R.ok("C16-R13", key, site, "n_dim = math.dim() as u64")
        elif v[0] == "call" and path_ends(v[1], "Clone::clone"):
            R.ok("C16-R13", key, site, "copied")
        else:
            R.bad("C16-R13", key, site, "n_dim = %s: the declared size of `unconstrained_parameter` is not Math::dim() itself (calls %s, arithmetic %s)" % (vt_str(v)[:80], calls, bins))
    R.floor("C16-R13", 1)


def run(F, R, config=None):
    decl = r1_r2_r3(F, R)
    r4_r5(F, R, decl)
    progress_predicate(F, R)
    r6(F, R)
    r7(F, R)
    r8(F, R, decl)
    r9(F, R)
    r10(F, R)
    r12(F, R)
    r13(F, R)
    # the update marker is the transformation id: it must change whenever the transformation does (C02-R5 analysis)
    from . import c02
    K.borrow_rule(R, lambda sub: c02.r5(F, sub), "C16-R11", "every function that changes a transformation (scales, mean, low-rank part) also increments its id, so the "
                  "`transformation_update` event fields appear exactly on the draws after which the transformation changed (C02-R5 analysis)", only_rules={"C02-R5"})
    R.assume("user-supplied Storable impls (draw data) satisfy the documented contract; only workspace impls are analysed")
    R.assume("vector lengths equal the runtime size of the declared dimension (value statement, not decided)")


CONFIGS = ["all", "default", "nodefault"]
SELFTEST = True

"""Abstract interpretation of f64 expressions in HIR for 'finite and strictly positive' facts.

Abstract value: dict(nan: bool possible, inf: bool possible, neg: bool possible, zero: bool possible, lo, hi: optional numeric bounds).
POSFIN  = not nan, not inf, not neg, not zero.
"""
import math

from . import common as K

TOP = {"nan": True, "inf": True, "neg": True, "zero": True, "lo": None, "hi": None}


def const(c):
    c = float(c)
    return {"nan": c != c, "inf": c in (float("inf"), float("-inf")), "neg": c < 0, "zero": c == 0, "lo": c, "hi": c}


def posfin(v):
    return v is not None and not v["nan"] and not v["inf"] and not v["neg"] and not v["zero"]


def join(a, b):
    if a is None:
        return b
    if b is None:
        return a
    lo = min(a["lo"], b["lo"]) if a["lo"] is not None and b["lo"] is not None else None
    hi = max(a["hi"], b["hi"]) if a["hi"] is not None and b["hi"] is not None else None
    return {"nan": a["nan"] or b["nan"], "inf": a["inf"] or b["inf"], "neg": a["neg"] or b["neg"], "zero": a["zero"] or b["zero"], "lo": lo, "hi": hi}


def show(v):
    if v is None:
        return "unreachable"
    if posfin(v):
        return "finite>0" + ("[%g,%g]" % (v["lo"], v["hi"]) if v["lo"] is not None and v["hi"] is not None else "")
    return "may be " + "/".join(k for k in ("nan", "inf", "neg", "zero") if v[k])


class AInterp:
    """env: binding id -> abstract value (f64) | ('opt', abstract or None-possible) | ('tuple', [abs...])"""

    def __init__(self, env=None):
        self.env = dict(env or {})
        self.sinks = []      # (target binding id, abstract value, node)
        self.notes = []

    def ev(self, n, env):
        n = self._peel(n)
        k = n.get("k")
        if k == "Lit":
            if n["lit"]["lk"] in ("float", "int"):
                try:
                    return const(str(n["lit"]["v"]).replace("_", "").replace("f64", "").replace("f32", ""))
                except ValueError:
                    return dict(TOP)
            return dict(TOP)
        if k == "Path":
            lid = K.local_id(n)
            if lid is not None and lid in env:
                v = env[lid]
                return v if isinstance(v, dict) else dict(TOP)
            r = n.get("res", {})
            if r.get("const_value") is not None:
                try:
                    return const(r["const_value"])
                except (TypeError, ValueError):
                    pass
            return dict(TOP)
        if k == "Field":
            base = self._peel(n["e"])
            lid = K.local_id(base)
            if lid is not None and isinstance(env.get(lid), tuple) and env[lid][0] == "tuple":
                try:
                    return env[lid][1][int(n["name"])]
                except (ValueError, IndexError):
                    return dict(TOP)
            return dict(TOP)
        if k == "Unary":
            if n["op"] == "-":
                a = self.ev(n["a"], env)
                return {"nan": a["nan"], "inf": a["inf"], "neg": True, "zero": a["zero"], "lo": None, "hi": None}
            return self.ev(n["a"], env)
        if k == "Binary":
            a, b = self.ev(n["a"], env), self.ev(n["b"], env)
            if n["op"] == "*" and posfin(a) and posfin(b) and None not in (a["lo"], a["hi"], b["lo"], b["hi"]):
                lo, hi = a["lo"] * b["lo"], a["hi"] * b["hi"]
                if lo > 1e-300 and hi < 1e300:
                    return {"nan": False, "inf": False, "neg": False, "zero": False, "lo": lo, "hi": hi}
            return dict(TOP)
        if k == "MethodCall":
            m = n["method"]
            if m in ("abs",):
                a = self.ev(n["recv"], env)
                return {"nan": a["nan"], "inf": a["inf"], "neg": False, "zero": a["zero"], "lo": None, "hi": None}
            if m == "clamp" and len(n["args"]) == 2:
                a = self.ev(n["recv"], env)
                lo, hi = self.ev(n["args"][0], env), self.ev(n["args"][1], env)
                if posfin(lo) and posfin(hi) and lo["lo"] is not None and hi["hi"] is not None:
                    return {"nan": a["nan"], "inf": False, "neg": False, "zero": False, "lo": lo["lo"], "hi": hi["hi"]}
                return {"nan": True, "inf": a["inf"] or not (lo and hi and not hi["inf"]), "neg": True, "zero": True, "lo": None, "hi": None}
            if m in ("max",) and len(n["args"]) == 1:
                a, b = self.ev(n["recv"], env), self.ev(n["args"][0], env)
                if posfin(b):   # f64::max ignores a NaN operand
                    return {"nan": False, "inf": a["inf"], "neg": False, "zero": False, "lo": b["lo"], "hi": None}
                return dict(TOP)
            if m == "sqrt":
                a = self.ev(n["recv"], env)
                if not a["neg"]:
                    return {"nan": a["nan"], "inf": a["inf"], "neg": False, "zero": a["zero"],
                            "lo": math.sqrt(a["lo"]) if a["lo"] is not None and a["lo"] >= 0 else None,
                            "hi": math.sqrt(a["hi"]) if a["hi"] is not None and a["hi"] >= 0 else None}
                return {"nan": True, "inf": a["inf"], "neg": False, "zero": True, "lo": None, "hi": None}
            if m == "recip":
                a = self.ev(n["recv"], env)
                if not a["neg"] and not a["zero"] and not a["inf"] and a["lo"] is not None and a["hi"] is not None and a["lo"] > 1e-300:
                    return {"nan": a["nan"], "inf": False, "neg": False, "zero": False, "lo": 1.0 / a["hi"], "hi": 1.0 / a["lo"]}
                return {"nan": a["nan"], "inf": True, "neg": a["neg"], "zero": a["inf"], "lo": None, "hi": None}
            if m in ("clone", "to_owned", "copied"):
                return self.ev(n["recv"], env)
            return dict(TOP)
        if k == "If":
            envs = self.refine(n["cond"], env)
            a = self.ev(n["then"], envs[0]) if envs[0] is not None else None
            b = self.ev(n["else"], envs[1]) if n.get("else") is not None and envs[1] is not None else None
            r = join(a, b)
            return r if r is not None else dict(TOP)
        if k == "Block":
            env2 = dict(env)
            self.stmts(n.get("stmts", []), env2)
            if n.get("expr") is not None:
                return self.ev(n["expr"], env2)
            return dict(TOP)
        if k in ("Cast", "Type"):
            return dict(TOP)
        return dict(TOP)

    @staticmethod
    def _peel(n):
        while isinstance(n, dict):
            k = n.get("k")
            if k == "AddrOf":
                n = n["e"]
            elif k == "Unary" and n.get("op") == "*":
                n = n["a"]
            elif k == "Block" and not n.get("stmts") and n.get("expr") is not None:
                n = n["expr"]
            elif k in ("Use", "DropTemps"):
                n = n["e"]
            else:
                break
        return n

    def refine(self, cond, env):
        """-> (env if cond true, env if cond false); None = unreachable"""
        c = self._peel(cond)
        k = c.get("k")
        if k == "Unary" and c["op"] == "!":
            t, f = self.refine(c["a"], env)
            return f, t
        if k == "Binary" and c["op"] in ("|", "||"):
            t1, f1 = self.refine(c["a"], env)
            t2, f2 = self.refine(c["b"], f1 if f1 is not None else env)
            # true: either -> no refinement (join of t1 and t2 is weaker than env); false: both false
            return dict(env), f2
        if k == "Binary" and c["op"] in ("&", "&&"):
            t1, f1 = self.refine(c["a"], env)
            t2, f2 = self.refine(c["b"], t1 if t1 is not None else env)
            return t2, dict(env)
        if k == "MethodCall" and c["method"] in ("is_finite", "is_nan", "is_infinite", "is_normal"):
            lid = K.local_id(c["recv"])
            if lid is not None and isinstance(env.get(lid, TOP), dict):
                cur = dict(env.get(lid, TOP))
                t, f = dict(env), dict(env)
                if c["method"] in ("is_finite", "is_normal"):
                    a = dict(cur)
                    a["nan"] = False
                    a["inf"] = False
                    if c["method"] == "is_normal":
                        a["zero"] = False
                    t[lid] = a
                elif c["method"] == "is_nan":
                    a = dict(cur)
                    a["nan"] = False
                    f[lid] = a
                return t, f
            return dict(env), dict(env)
        if k == "Binary" and c["op"] in ("==", "!=", ">", "<", ">=", "<="):
            lid = K.local_id(c["a"])
            rhs = self.ev(c["b"], env)
            if lid is not None and isinstance(env.get(lid, TOP), dict) and rhs.get("lo") == 0 and rhs.get("hi") == 0:
                cur = dict(env.get(lid, TOP))
                t, f = dict(env), dict(env)
                nz = dict(cur)
                nz["zero"] = False
                pos = dict(cur)
                pos.update({"zero": False, "neg": False, "nan": False})
                nonneg = dict(cur)
                nonneg.update({"neg": False, "nan": False})
                op = c["op"]
                if op == "==":
                    f[lid] = nz
                elif op == "!=":
                    t[lid] = nz
                elif op == ">":
                    t[lid] = pos
                elif op == ">=":
                    t[lid] = nonneg
                elif op == "<":
                    f[lid] = dict(cur, neg=False) if False else f.get(lid, cur)
                elif op == "<=":
                    f[lid] = pos
                return t, f
            return dict(env), dict(env)
        if k == "LetExpr":
            # if let Some(x) = opt
            v = K.pat_variant(c["pat"])
            lid = K.local_id(c["init"])
            t, f = dict(env), dict(env)
            if v == "Some" and lid is not None and isinstance(env.get(lid), tuple) and env[lid][0] == "opt":
                inner = env[lid][1]
                for q in c["pat"].get("pats", []):
                    while q.get("k") in ("Ref",):
                        q = q["pat"]
                    if q.get("k") == "Binding":
                        t[q["id"]] = inner if inner is not None else dict(TOP)
                if env[lid][2] is False:   # never Some
                    t = None
            elif v == "Some":
                for q in c["pat"].get("pats", []):
                    while q.get("k") in ("Ref",):
                        q = q["pat"]
                    if q.get("k") == "Binding":
                        t[q["id"]] = dict(TOP)
            return t, f
        return dict(env), dict(env)

    def stmts(self, stmts, env):
        for st in stmts:
            k = st.get("k")
            if k == "Let":
                pat = st["pat"]
                while pat.get("k") == "Ref":
                    pat = pat["pat"]
                if pat.get("k") == "Binding" and st.get("init") is not None:
                    env[pat["id"]] = self.ev(st["init"], env)
            elif k in ("Semi", "ExprStmt"):
                self.exec(st["e"], env)

    def exec(self, e, env):
        e = self._peel(e)
        k = e.get("k")
        if k == "Assign":
            l = self._peel(e["l"])
            lid = K.local_id(l)
            v = self.ev(e["r"], env)
            if lid is not None:
                self.sinks.append((lid, v, e))
        elif k == "If":
            t, f = self.refine(e["cond"], env)
            if t is not None:
                self.exec(e["then"], dict(t))
            if e.get("else") is not None and f is not None:
                self.exec(e["else"], dict(f))
        elif k == "Block":
            env2 = dict(env)
            self.stmts(e.get("stmts", []), env2)
            if e.get("expr") is not None:
                self.exec(e["expr"], env2)
        elif k == "Match":
            for a in e["arms"]:
                self.exec(a["body"], dict(env))

"""Relations that hold on CFG edges: turn (switch condition, edge) pairs into normalised comparisons."""
from .facts import vt_str

NEG = {"Lt": "Ge", "Ge": "Lt", "Gt": "Le", "Le": "Gt", "Eq": "Ne", "Ne": "Eq"}
FLIP = {"Lt": "Gt", "Gt": "Lt", "Le": "Ge", "Ge": "Le", "Eq": "Eq", "Ne": "Ne"}


def key(v):
    """Stable printable key of a value tree (used to compare operands)."""
    return vt_str(v)


def edge_relations(b, bb, _depth=0, _seen=None):
    """All atomic relations known to hold when block bb executes (from transitive control dependences).

    Returns list of (op, lhs_tree, rhs_tree, switch_bb). Conjunctions/disjunctions are decomposed only
    where sound: on the true edge of `a & b` both hold; on the false edge of `a | b` both negations hold.
    Bare booleans are returned as ('True'|'False', tree, None, switch_bb). A boolean local assigned in several
    branches (`let f = a && b;` is `f = if a { b } else { false }`) that is known to be true/false can only have
    been assigned by the definitions not contradicting that value: when exactly one is left, its value and the
    relations under which it was assigned hold as well."""
    out = []
    _seen = _seen if _seen is not None else set()
    for (a, s) in b.control_deps_trans(bb):
        t = b.blocks[a]["term"]
        if t["k"] != "switch":
            continue
        v = b.value(t["discr"])
        # which truth value does edge s correspond to?
        val = None
        for arm in t["arms"]:
            if arm["target"] == s:
                val = (arm["val"] != 0)
        if val is None and t["otherwise"] == s:
            # otherwise edge of a boolean switch = the value not listed
            vals = {arm["val"] for arm in t["arms"]}
            if vals == {0}:
                val = True
            elif vals == {1}:
                val = False
        if val is None or t.get("discr_ty") != "bool":
            continue
        _decompose(v, val, a, out, b, _depth, _seen)
    if _depth == 0 and getattr(b, "inlined_from", None):
        for r in _path_relations(b, bb):
            if not any(key_rel(r) == key_rel(x) for x in out):
                out.append(r)
    return out


def key_rel(r):
    return (r[0], vt_str(r[1]), vt_str(r[2]) if r[2] is not None else None)


def _path_relations(b, bb):
    """Relations that hold on every feasible path from the entry to bb. In a body with inlined helpers a decision can be taken through
    a value computed by a helper (`match self.schedule.phase(draw) { Early => .., Final => .. }`): the enum is resolved on each path
    (Body.feasible_step), and what all paths to bb have in common are the comparisons the helper made for that arm."""
    cache = b.__dict__.setdefault("_path_rel_cache", {})
    if bb in cache:
        return cache[bb]
    from . import common as K
    res = []
    hits, _ex = K.iter_paths(b, 0, [bb], max_steps=30000) if bb != 0 else ([], [])
    if hits:
        per_path = []
        for (_t, conds, _p) in hits:
            rs = []
            for (sw, val) in conds:
                _decompose(b.value(b.blocks[sw]["term"]["discr"]), val, sw, rs, None)
            per_path.append({key_rel(r): r for r in rs})
        common = set(per_path[0])
        for d in per_path[1:]:
            common &= set(d)
        res = [per_path[0][k] for k in sorted(common, key=str)]
    cache[bb] = res
    return res


def _decompose(v, val, sw, out, b=None, depth=0, seen=None):
    k = v[0]
    if k == "un" and v[1] == "Not":
        _decompose(v[2], not val, sw, out, b, depth, seen)
        return
    if k == "bin" and v[1] in NEG:
        op = v[1] if val else NEG[v[1]]
        out.append((op, v[2], v[3], sw))
        return
    if k == "bin" and v[1] == "BitAnd" and val:
        _decompose(v[2], True, sw, out, b, depth, seen)
        _decompose(v[3], True, sw, out, b, depth, seen)
        return
    if k == "bin" and v[1] == "BitOr" and not val:
        _decompose(v[2], False, sw, out, b, depth, seen)
        _decompose(v[3], False, sw, out, b, depth, seen)
        return
    out.append(("True" if val else "False", v, None, sw))
    if b is not None and k == "local" and depth < 3 and (v[1], val) not in seen:
        seen.add((v[1], val))
        ds = b.defs().get(v[1], [])
        if 2 <= len(ds) <= 4 and all((d[0] == "stmt" and d[3]["k"] == "assign" and not d[3]["pl"]["p"]) or (d[0] == "call" and not d[3]["dest"]["p"]) for d in ds):
            feasible = []
            for d in ds:
                if d[0] == "call":
                    t_ = d[3]
                    dv = ("call", t_["callee"].get("path", "?"), [b.value(a_) for a_ in t_["args"]], t_["callee"])
                else:
                    dv = b.rvalue_value(d[3]["rv"])
                if dv[0] == "const" and dv[2] in ("true", "false") and (dv[2] == "true") != val:
                    continue
                feasible.append((d, dv))
            if len(feasible) == 1:
                d, dv = feasible[0]
                if not (dv[0] == "const"):
                    _decompose(dv, val, sw, out, b, depth + 1, seen)
                for r in edge_relations(b, d[1], depth + 1, seen):
                    if r not in out:
                        out.append(r)


def holds(rels, op, lhs_pred, rhs_pred):
    """Is there a relation equivalent to `lhs op rhs` where operands satisfy the predicates?"""
    for (o, l, r, _sw) in rels:
        if r is None:
            continue
        if o == op and lhs_pred(l) and rhs_pred(r):
            return True
        if FLIP.get(o) == op and lhs_pred(r) and rhs_pred(l):
            return True
    return False


def find(rels, op, lhs_pred, rhs_pred):
    """Like holds(), but returns the (lhs, rhs) operand trees of the first matching relation (None when there is none)."""
    for (o, l, r, _sw) in rels:
        if r is None:
            continue
        if o == op and lhs_pred(l) and rhs_pred(r):
            return (l, r)
        if FLIP.get(o) == op and lhs_pred(r) and rhs_pred(l):
            return (r, l)
    return None


def is_arg_named(b, name):
    return lambda v: v[0] == "arg" and v[2] == name


def is_self_field(name=None):
    def p(v):
        if v[0] != "field":
            return False
        base = v[1]
        # `self.f`, and `self.g.f` when the fields were grouped into a sub-struct of self
        while base[0] in ("deref", "ref", "field"):
            base = base[1]
        return base[0] == "arg" and base[1] == 1 and (name is None or v[2] == name)
    return p


def self_field_name(v):
    if v[0] != "field":
        return None
    base = v[1]
    while base[0] in ("deref", "ref", "field"):
        base = base[1]
    if base[0] == "arg" and base[1] == 1:
        return v[2]
    return None

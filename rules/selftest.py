"""Self-validation of the rules (thorough tier): mutants must fire, refactors must stay silent.

Fixtures live in fixtures/<prop>.json: [{"name", "kind": "M"|"R", "expect": "<rule id or key substring>",
"edits": [{"file", "old", "new"}], "why"}]. Each is applied to a scratch copy of the *current* /repo
(outside /repo, /verif and /tmp), the copy is re-extracted with the same driver, the property's rules
are run on it, and the copy is deleted. A fixture whose `old` text is not found in the edited tree is
skipped (counted), not failed.
"""
import importlib
import json
import os
import shutil
import subprocess
import sys
import tempfile
from concurrent.futures import ThreadPoolExecutor

from . import extract as X
from .facts import Facts
from . import normalise
from .report import Report

VERIF = os.path.dirname(os.path.dirname(os.path.abspath(__file__)))
NPAR = 8


def load_fixtures(prop):
    p = os.path.join(VERIF, "fixtures", "%s.json" % prop.lower())
    if not os.path.exists(p):
        return []
    return json.load(open(p))


def make_scratch(repo):
    os.makedirs(X.CACHE, exist_ok=True)
    d = tempfile.mkdtemp(prefix="scratch.", dir=X.CACHE)
    subprocess.check_call(["rsync", "-a", "--exclude", "target", "--exclude", ".git", repo.rstrip("/") + "/", d + "/"])
    return d


def apply_patch_file(d, rel):
    """Apply a unified diff stored under fixtures/patches/ to the scratch copy (used for larger refactors / seeded changes)."""
    pf = os.path.join(VERIF, "fixtures", "patches", rel)
    if not os.path.exists(pf):
        return False
    r = subprocess.run(["patch", "-p1", "-s", "-f", "-d", d, "-i", pf], stdout=subprocess.PIPE, stderr=subprocess.STDOUT)
    return r.returncode == 0


def apply_edits(d, edits):
    for e in edits:
        p = os.path.join(d, e["file"])
        if not os.path.exists(p):
            return False
        s = open(p).read()
        if s.count(e["old"]) < 1:
            return False
        if e.get("all"):
            s = s.replace(e["old"], e["new"])
        else:
            if s.count(e["old"]) != 1:
                return False
            s = s.replace(e["old"], e["new"], 1)
        open(p, "w").write(s)
    return True


def ensure_target(slot):
    """Per-slot target dir seeded from the main one so that dependencies are not rebuilt."""
    tag = "mut%d" % slot
    t = os.path.join(X.CACHE, "target-%s" % tag)
    src = os.path.join(X.CACHE, "target-all")
    import fcntl
    os.makedirs(X.CACHE, exist_ok=True)
    with open(os.path.join(X.CACHE, "target-%s.seed.lock" % tag), "w") as lk:
        fcntl.flock(lk, fcntl.LOCK_EX)
        if not os.path.exists(t) and os.path.exists(src):
            tmp = t + ".tmp"
            subprocess.call(["rm", "-rf", tmp])
            if subprocess.call(["cp", "-a", src, tmp]) == 0:
                os.rename(tmp, t)
    return tag


def run_fixture(prop, mod, fx, repo, slot):
    d = make_scratch(repo)
    try:
        if fx.get("patch_file") and not apply_patch_file(d, fx["patch_file"]):
            return {"name": fx["name"], "status": "skipped", "detail": "patch does not apply to this tree"}
        if not apply_edits(d, fx.get("edits", [])):
            return {"name": fx["name"], "status": "skipped", "detail": "edit does not apply to this tree"}
        F = None
        for attempt in range(4):
            try:
                fd, meta = X.extract(d, "all", target_tag=ensure_target(slot))
            except X.BuildFailed as e:
                return {"name": fx["name"], "status": "nobuild", "detail": e.log[-600:]}
            try:
                F = Facts(fd, meta)
                break
            except FileNotFoundError:
                # another check running in parallel carries the same patch and has just dropped the shared cache entry: extract again
                if attempt == 3:
                    raise
        normalise.normalise(F)
        sub = Report(prop, "thorough")
        mod.run(F, sub)
        shutil.rmtree(fd, ignore_errors=True)
        keys = [v["key"] for v in sub.violations]
        return {"name": fx["name"], "status": "ran", "keys": keys, "details": [v["detail"] for v in sub.violations]}
    finally:
        shutil.rmtree(d, ignore_errors=True)


def evaluate(prop, mod, repo, only=None, baseline_keys=()):
    fxs = [f for f in load_fixtures(prop) if only is None or f["name"] in only]
    results = []
    with ThreadPoolExecutor(NPAR) as ex:
        futs = [ex.submit(run_fixture, prop, mod, fx, repo, i % NPAR) for i, fx in enumerate(fxs)]
        for fx, fu in zip(fxs, futs):
            r = fu.result()
            r["kind"] = fx["kind"]
            r["expect"] = fx.get("expect", "")
            if r["status"] == "ran":
                new = [k for k in r["keys"] if k not in baseline_keys]
                if fx["kind"] == "M":
                    hit = [k for k in new if fx.get("expect", "") in k]
                    r["verdict"] = "ok" if hit else "MISSED"
                    r["hit"] = hit[:3]
                else:
                    r["verdict"] = "ok" if not new else "FALSE-ALARM"
                    r["new"] = new[:3]
            elif r["status"] == "nobuild":
                r["verdict"] = "BROKEN-FIXTURE"
            else:
                r["verdict"] = "skipped"
            results.append(r)
    return results


def run(prop, mod, rep, repo):
    """Called by ./check --tier thorough. A rule failing its own fixture = checker broken."""
    base = {v["key"] for v in rep.violations}
    res = evaluate(prop, mod, repo, baseline_keys=base)
    bad = [r for r in res if r["verdict"] in ("MISSED", "FALSE-ALARM", "BROKEN-FIXTURE")]
    rep.info("selftest", "fixtures=%d ok=%d skipped=%d bad=%d" % (
        len(res), sum(1 for r in res if r["verdict"] == "ok"), sum(1 for r in res if r["verdict"] == "skipped"), len(bad)))
    for r in res:
        rep.info("selftest", "%s %s -> %s" % (r["kind"], r["name"], r["verdict"]))
    # Self-validation is reported, it never changes the verdict on the property: on an edited tree a fixture may legitimately
    # interact with the edit (a mutant that no longer applies is skipped; one that applies next to another change may be masked).
    for r in bad:
        print("SELFTEST-WARNING %s fixture %s: %s %s" % (prop, r["name"], r["verdict"], str(r.get("detail", r.get("new", "")))[:200]))
    rep.selftest = {"fixtures": len(res), "ok": sum(1 for r in res if r["verdict"] == "ok"), "skipped": sum(1 for r in res if r["verdict"] == "skipped"),
                    "bad": [{"name": r["name"], "verdict": r["verdict"]} for r in bad],
                    "mutants_detected": [r["name"] for r in res if r["kind"] == "M" and r["verdict"] == "ok"],
                    "refactors_silent": [r["name"] for r in res if r["kind"] == "R" and r["verdict"] == "ok"]}


if __name__ == "__main__":
    prop = sys.argv[1].upper()
    only = set(sys.argv[2:]) or None
    sys.path.insert(0, VERIF)
    mod = importlib.import_module("rules.%s" % prop.lower())
    d, m = X.extract("/repo", "all")
    base_rep = Report(prop, "thorough")
    mod.run(Facts(d, m), base_rep)
    base = {v["key"] for v in base_rep.violations}
    for r in evaluate(prop, mod, "/repo", only, base):
        print("%-14s %s %-40s %s" % (r["verdict"], r["kind"], r["name"], r.get("hit") or r.get("new") or r.get("detail", "")[-300:]))
        if r["verdict"] in ("MISSED",) and r.get("keys"):
            print("      other keys:", r["keys"][:5])

"""C17 - vector kernels agree with scalar arithmetic for every length and value (structural clauses)."""
from .facts import path_ends, loc, strip_generics, hir_walk, vt_walk, vt_str
from . import common as K
from . import kernel as KN

LEVEL = ("Static agreement of the three element loops of every SIMD kernel (impl pulp::WithSimd in math::util), by symbolic evaluation of the loop "
         "closures into polynomial normal forms: every slice operand is partitioned exactly once into unrolled-SIMD / SIMD-tail / scalar-tail pieces "
         "(K1) and each of the three loops zips the corresponding piece of every operand exactly once (K2); in the 4x unrolled body lane k reads only "
         "lane-k inputs and its own accumulators and computes the same polynomial as lane 0 (K3); the SIMD tail computes lane 0's polynomial (K4) and "
         "the scalar tail the same polynomial in scalar arithmetic, treating fused multiply-add as a*b+c (K5); every accumulator is initialised to "
         "zero, updated in exactly one lane and summed exactly once in the final reduction, and the scalar tail adds into that result (K6); the "
         "dispatch wrappers pass the caller's slices unchanged, one parameter per operand (K7); element loops of the CPU backend iterate whole "
         "slices (no skip/take/step_by/chunks/nth/...) and finiteness predicates are applied per element, not to an aggregate (K8). Rounding / "
         "summation-order error is not decided."
         " Added: the backend keeps no state between kernel calls (K9); a Math default inherited by CpuMath does no floating-point arithmetic of its own (K10); no unsafe code / inline assembly in math::* (K11)."
         " Added (round 5): outside the scale-update kernels no min / max / clamp / abs on an f64 in the CPU backend and math::util (K12)."
         " Added (round 6): scalars cross the backend boundary unmodified (K13); data-movement methods do no arithmetic and delegating methods do nothing but call their kernel (K14)."
         " Added (round 7): a method that borrows the low-rank scratch column sizes it in the same call from its own operands, so no length travels between calls (K9 sized-here clause).")
EXPLANATION = ("HIR of each with_simd body: provenance of slice pieces through S::as_simd_f64s / pulp::as_arrays, operand lists of the izip! loops, symbolic "
               "evaluation of the closure bodies (SIMD intrinsics translated to +,-,*) with per-lane renaming, comparison of normal forms.")
TRUSTED = ["rustc nightly HIR (macro-expanded izip!)", "nutsfacts extractor", "rules/kernel.py, rules/c17.py",
           "pulp: as_simd_f64s / as_arrays::<4> partition a slice into head and tail exactly; intrinsic semantics as named"]
TECHNIQUE = "static analysis: symbolic evaluation of loop bodies to polynomial normal forms + sibling (lane / tail) comparison + partition provenance"

BAD_ADAPTORS = ("skip", "take", "step_by", "skip_while", "take_while", "chunks", "chunks_exact", "windows", "split_at", "split_at_mut", "nth", "last",
                "first", "split_first", "split_last", "rchunks", "filter", "rev_take", "get", "get_mut", "truncate")


def kernels(F):
    return sorted([b for b in F.bodies.values() if b.kind == "method" and b.fn_name == "with_simd" and b.parent.get("trait") and
                   path_ends(b.parent["trait"], "WithSimd") and (b.parent.get("self_adt") or "").startswith("math::")], key=lambda b: b.path)


class KernelModel:
    def __init__(self, F, b):
        self.F = F
        self.b = b
        self.adt = F.adts.get(b.parent.get("self_adt"))
        self.slice_fields = [f["name"] for f in self.adt["variants"][0]["fields"] if "[f64]" in f["ty"]] if self.adt else []
        self.operand_of = {}    # binding id -> operand index
        self.prov = {}          # binding id -> (operand index, piece)
        self.split1 = {}        # operand -> count of as_simd splits
        self.split2 = {}        # operand -> count of as_arrays splits
        self.accs = {}          # binding id -> name
        self.acc_init_ok = {}
        self.outer = {}         # binding id -> poly (lane-invariant values)
        self.loops = []         # (kind, operand list, closure node, stmt node)
        self.reduction = None   # (binding id or None, {component: poly})
        self.problems = []
        self.final = None
        self.parse()

    def parse(self):
        h = self.b.hir["value"]
        if h.get("k") != "Block":
            self.problems.append("body is not a block")
            return
        ev = KN.Eval()
        self.ev0 = ev
        for st in h.get("stmts", []):
            k = st.get("k")
            if k == "Let":
                self.let(st, ev)
            elif k in ("Semi", "ExprStmt"):
                self.loop_stmt(st["e"], ev)
        if h.get("expr") is not None:
            e = K.peel(h["expr"])
            if K.for_each_view(e) is not None:
                self.loop_stmt(e, ev)
            else:
                self.final = e

    def let(self, st, ev):
        pat = st["pat"]
        init = st.get("init")
        if init is None:
            return
        ini = K.peel(init)
        # operands
        if pat.get("k") == "Binding" and ini.get("k") == "Field" and K.local_name(ini["e"]) == "self" and ini["name"] in self.slice_fields:
            self.operand_of[pat["id"]] = self.slice_fields.index(ini["name"])
            return
        if pat.get("k") == "Struct" and K.local_name(ini) == "self":
            for f in pat["fields"]:
                q = f["pat"]
                if q.get("k") == "Binding":
                    if f["name"] in self.slice_fields:
                        self.operand_of[q["id"]] = self.slice_fields.index(f["name"])
                    else:
                        ev.env[q["id"]] = KN.patom(("var", "self." + f["name"]))
            return
        if pat.get("k") == "Binding" and ini.get("k") == "Field" and K.local_name(ini["e"]) == "self":
            ev.env[pat["id"]] = KN.patom(("var", "self." + ini["name"]))
            return
        # partition calls
        if pat.get("k") == "Tuple" and len(pat["pats"]) == 2 and ini.get("k") == "Call":
            callee = (K.callee_of(ini) or "")
            arg = ini["args"][0] if ini.get("args") else None
            aid = K.local_id(arg) if arg is not None else None
            ids = [q["id"] if q.get("k") == "Binding" else None for q in pat["pats"]]
            if callee.endswith(("as_simd_f64s", "as_mut_simd_f64s")):
                if aid in self.operand_of:
                    o = self.operand_of[aid]
                    self.split1[o] = self.split1.get(o, 0) + 1
                    self.prov[ids[0]] = (o, "head")
                    self.prov[ids[1]] = (o, "tail")
                else:
                    self.problems.append("as_simd_f64s applied to something that is not a kernel operand")
                return
            if callee.endswith(("as_arrays", "as_arrays_mut")):
                if aid in self.prov and self.prov[aid][1] == "head":
                    o = self.prov[aid][0]
                    self.split2[o] = self.split2.get(o, 0) + 1
                    self.prov[ids[0]] = (o, "arrays")
                    self.prov[ids[1]] = (o, "simd_tail")
                else:
                    self.problems.append("as_arrays applied to something that is not the SIMD head of an operand")
                return
        # reduction: value built from reduce_sum_f64s
        has_reduce = any(x.get("k") == "MethodCall" and x.get("method") == "reduce_sum_f64s" for x in hir_walk(ini))
        if has_reduce and pat.get("k") == "Binding":
            comps = {}
            if ini.get("k") == "Tup":
                for j, e in enumerate(ini["es"]):
                    comps[str(j)] = ev.ev(e)
            else:
                comps[None] = ev.ev(ini)
            self.reduction = (pat["id"], comps)
            ev.racc_roots[pat["id"]] = True
            return
        # accumulators: `let mut s = simd.splat_f64s(0.0)`
        if pat.get("k") == "Binding" and "Mut" in str(pat.get("mode", "")) and ini.get("k") == "MethodCall" and ini.get("method") == "splat_f64s":
            v = ev.ev(ini)
            self.accs[pat["id"]] = pat["name"]
            self.acc_init_ok[pat["id"]] = (v == {})
            ev.acc_ids.add(pat["id"])
            return
        if pat.get("k") == "Binding":
            ev.env[pat["id"]] = ev.ev(ini)

    def loop_stmt(self, e, ev):
        e = K.peel(e)
        if e.get("k") in ("Assign", "AssignOp"):
            ev.exec(e)     # step-wise reduction of the accumulators in the kernel body itself
            return
        e = K.for_each_view(e)      # `xs.for_each(|p| ..)` or `for p in xs { .. }`
        if e is None:
            return
        ops = []
        for x in hir_walk(e["recv"]):
            if x.get("k") == "Path":
                lid = K.local_id(x)
                if lid in self.prov:
                    ops.append(self.prov[lid])
                elif lid in self.operand_of:
                    ops.append((self.operand_of[lid], "whole"))
        clo = K.peel(e["args"][0]) if e.get("args") else None
        self.loops.append((ops, clo, e))


def lane_forms(ev, lanes, names=None):
    names = names or {}
    """Per lane: ({operand: poly}, [(acc id, poly)]) with this lane's inputs renamed to lane-free atoms; problems."""
    probs = []
    out = []
    for k in (range(lanes) if lanes else [None]):
        def ren(a, k=k):
            if a[0] == "in":
                return ("in", a[1])
            return a
        outs = {}
        for tgt, p in ev.outputs.items():
            if tgt[2] == k:
                foreign = [a for a in KN.patoms(p) if a[0] == "in" and a[2] != k]
                if foreign:
                    probs.append("output of operand %d in lane %s reads lane %s of operand %d" % (tgt[1], k, foreign[0][2], foreign[0][1]))
                outs[tgt[1]] = KN.prename(p, ren)
        accs = []
        for aid in ev.acc_order:
            p = ev.acc[aid]
            ins = [a for a in KN.patoms(p) if a[0] == "in"]
            lanes_used = {a[2] for a in ins}
            if k in lanes_used or (not ins and k in (0, None)):
                if len(lanes_used) > 1:
                    probs.append("accumulator update mixes lanes %s" % sorted(lanes_used, key=str))
                other = [a for a in KN.patoms(p) if a[0] == "acc" and a[1] != aid]
                if other:
                    probs.append("accumulator %s is updated from another accumulator (%s)" % (names.get(aid, "?"), names.get(other[0][1], "?")))
                if not any(a[0] == "acc" and a[1] == aid for a in KN.patoms(p)):
                    probs.append("accumulator %s is overwritten instead of accumulated" % names.get(aid, "?"))

                def ren2(a, aid=aid):
                    if a[0] == "in":
                        return ("in", a[1])
                    if a[0] == "acc" and a[1] == aid:
                        return ("self",)
                    return a
                accs.append((aid, KN.prename(p, ren2)))
        out.append((outs, accs))
    return out, probs


def check_kernel(F, R, b):
    name = (b.parent.get("self_adt") or b.path).split("::")[-1]
    site = "%s @%s" % (b.path, b.loc())
    km = KernelModel(F, b)
    nops = len(km.slice_fields)
    for p in km.problems:
        R.bad("C17-K1", "%s:parse:%s" % (name, p[:40]), site, p)
    # K1
    for o, f in enumerate(km.slice_fields):
        a, c = km.split1.get(o, 0), km.split2.get(o, 0)
        key = "%s:%s" % (name, f)
        if a == 1 and c == 1:
            R.ok("C17-K1", key, site, "operand `%s` split once into SIMD head / scalar tail and its head once into 4-arrays / SIMD tail" % f)
        else:
            R.bad("C17-K1", key, site, "operand `%s` is split %d times by as_simd_f64s and %d times by as_arrays (expected 1 and 1)" % (f, a, c))
    # K2
    kinds = []
    for (ops, clo, node) in km.loops:
        ks = {p for _o, p in ops}
        kind = list(ks)[0] if len(ks) == 1 else "mixed:" + ",".join(sorted(ks))
        kinds.append(kind)
    key = "%s:loops" % name
    if sorted(kinds) != ["arrays", "simd_tail", "tail"]:
        R.bad("C17-K2", key, site, "expected exactly three element loops over (arrays, simd_tail, tail) pieces, found %s" % kinds)
        return
    R.ok("C17-K2", key, site, "three element loops: %s" % kinds)
    by_kind = {}
    for kind, (ops, clo, node) in zip(kinds, km.loops):
        by_kind[kind] = (ops, clo, node)
        cover = sorted(o for o, _p in ops)
        k2 = "%s:%s:coverage" % (name, kind)
        if cover == list(range(nops)):
            R.ok("C17-K2", k2, site, "%s loop zips the %s piece of every operand exactly once" % (kind, kind))
        else:
            missing = [km.slice_fields[o] for o in range(nops) if o not in cover]
            dup = [km.slice_fields[o] for o in set(cover) if cover.count(o) > 1]
            R.bad("C17-K2", k2, site, "%s loop: operands missing %s, repeated %s (elements of a missing operand's piece are never touched)" % (kind, missing, dup))
    # evaluate loops in program order (the reduction sits between simd_tail and tail)
    forms = {}
    evs = {}
    for kind in ("arrays", "simd_tail", "tail"):
        ops, clo, node = by_kind[kind]
        if clo is None or clo.get("k") != "Closure":
            R.bad("C17-K3", "%s:%s:closure" % (name, kind), site, "loop body is not a closure literal")
            return
        ev = KN.Eval(outer_env=km.ev0.env)
        ev.acc_ids = set(km.accs)
        ev.racc_roots = dict(km.ev0.racc_roots)
        lanes, err = KN.bind_params(ev, clo, [o for o, _p in ops])
        if err:
            R.bad("C17-K3", "%s:%s:params" % (name, kind), site, err)
            return
        ev.exec(clo["body"])
        evs[kind] = (ev, lanes)
        lf, probs = lane_forms(ev, lanes, km.accs)
        forms[kind] = lf
        for p in probs + ev.notes:
            R.bad("C17-K3" if kind == "arrays" else ("C17-K4" if kind == "simd_tail" else "C17-K5"), "%s:%s:%s" % (name, kind, p[:50]), site, p)
    # K3 lanes
    ev_a, lanes = evs["arrays"]
    if lanes != 4:
        R.bad("C17-K3", "%s:lanes" % name, site, "unrolled body has %s lanes (expected 4, the as_arrays::<4> width)" % lanes)
        return
    ref_out, ref_acc = forms["arrays"][0]
    fam_of = {}
    for kk in range(4):
        outs, accs = forms["arrays"][kk]
        key = "%s:lane%d" % (name, kk)
        same_out = set(outs) == set(ref_out) and all(KN.pkey(outs[o]) == KN.pkey(ref_out[o]) for o in outs)
        same_acc = len(accs) == len(ref_acc) and all(KN.pkey(a[1]) == KN.pkey(r_[1]) for a, r_ in zip(accs, ref_acc))
        for j, (aid, _p) in enumerate(accs):
            fam_of[aid] = j
        if same_out and same_acc and (outs or accs):
            R.ok("C17-K3", key, site, "lane %d computes lane 0's polynomials (%d outputs, %d accumulators)" % (kk, len(outs), len(accs)))
        else:
            diff = []
            for o in set(outs) | set(ref_out):
                if o not in outs or o not in ref_out or KN.pkey(outs[o]) != KN.pkey(ref_out[o]):
                    diff.append("%s: %s vs lane0 %s" % (km.slice_fields[o], KN.pshow(outs.get(o, {})), KN.pshow(ref_out.get(o, {}))))
            for j in range(max(len(accs), len(ref_acc))):
                a = accs[j][1] if j < len(accs) else None
                r_ = ref_acc[j][1] if j < len(ref_acc) else None
                if a is None or r_ is None or KN.pkey(a) != KN.pkey(r_):
                    diff.append("accumulator #%d: %s vs lane0 %s" % (j, KN.pshow(a) if a is not None else "-", KN.pshow(r_) if r_ is not None else "-"))
            R.bad("C17-K3", key, site, "lane %d differs from lane 0: %s" % (kk, "; ".join(diff) or "no outputs"))
    # every accumulator updated in exactly one lane
    upd = [aid for kk in range(4) for aid, _p in forms["arrays"][kk][1]]
    for aid, nm in km.accs.items():
        key = "%s:acc:%s" % (name, nm)
        if upd.count(aid) == 1 and km.acc_init_ok.get(aid):
            R.ok("C17-K6", key, site, "accumulator %s starts at 0 and is updated in exactly one lane" % nm)
        else:
            R.bad("C17-K6", key, site, "accumulator %s: zero-initialised %s, updated in %d lanes of the unrolled body (expected 1)" % (nm, km.acc_init_ok.get(aid), upd.count(aid)))
    nfam = len(ref_acc)
    # K4 simd tail == lane 0
    outs, accs = forms["simd_tail"][0]
    okk = set(outs) == set(ref_out) and all(KN.pkey(outs[o]) == KN.pkey(ref_out[o]) for o in outs)
    fams = sorted(fam_of.get(aid, -1) for aid, _p in accs)
    okk = okk and fams == list(range(nfam)) and all(KN.pkey(p) == KN.pkey(ref_acc[fam_of[aid]][1]) for aid, p in accs)
    if okk:
        R.ok("C17-K4", "%s:simd_tail" % name, site, "SIMD tail computes lane 0's polynomials")
    else:
        R.bad("C17-K4", "%s:simd_tail" % name, site, "SIMD tail differs from the unrolled body: outputs %s vs %s; accumulators %s vs %s" % (
            {km.slice_fields[o]: KN.pshow(p) for o, p in outs.items()}, {km.slice_fields[o]: KN.pshow(p) for o, p in ref_out.items()},
            [KN.pshow(p) for _a, p in accs], [KN.pshow(p) for _a, p in ref_acc]))
    # K6 reduction
    comp_fam = {}
    if nfam:
        if km.reduction is None:
            R.bad("C17-K6", "%s:reduction" % name, site, "kernel has accumulators but no reduce_sum_f64s reduction")
        else:
            rid, comps = km.reduction
            for c, p in comps.items():
                accs_in = [a for a in KN.patoms(p) if a[0] == "acc"]
                fs = {fam_of.get(a[1]) for a in accs_in}
                want = {aid for aid, j in fam_of.items() if fs == {j}}
                key = "%s:reduction:%s" % (name, c)
                good = len(fs) == 1 and None not in fs and KN.pkey(p) == KN.pkey({(("acc", a),): 1 for a in want}) and len(want) == 4
                if good:
                    comp_fam[c] = list(fs)[0]
                    R.ok("C17-K6", key, site, "component %s sums the four accumulators of family %d exactly once each" % (c, list(fs)[0]))
                else:
                    R.bad("C17-K6", key, site, "reduction component %s = %s: not the sum of one accumulator family's four lanes, each once" % (c, KN.pshow(p)))
            if sorted(comp_fam.values()) != list(range(nfam)) and len(comp_fam) == len(comps):
                R.bad("C17-K6", "%s:reduction:families" % name, site, "reduction components use accumulator families %s, expected each of %s once" % (sorted(comp_fam.values()), list(range(nfam))))
    # K5 scalar tail
    ev_t, _l = evs["tail"]
    outs, accs = forms["tail"][0]
    okk = set(outs) == set(ref_out) and all(KN.pkey(outs[o]) == KN.pkey(ref_out[o]) for o in outs)
    msgs = []
    if not okk:
        msgs.append("outputs %s vs SIMD %s" % ({km.slice_fields[o]: KN.pshow(p) for o, p in outs.items()}, {km.slice_fields[o]: KN.pshow(p) for o, p in ref_out.items()}))
    if accs:
        msgs.append("scalar tail updates a SIMD accumulator after the reduction")
    if nfam:
        seen = set()
        for (rid, comp), p in ev_t.racc.items():
            def ren(a, rid=rid, comp=comp):
                if a[0] == "in":
                    return ("in", a[1])
                if a[0] == "racc" and a[1] == rid and a[2] == comp:
                    return ("self",)
                return a
            q = KN.prename(p, ren)
            j = comp_fam.get(comp)
            if j is None or KN.pkey(q) != KN.pkey(ref_acc[j][1]):
                msgs.append("result component %s is updated by %s, SIMD family %s by %s" % (comp, KN.pshow(q), j, KN.pshow(ref_acc[j][1]) if j is not None else "-"))
            seen.add(comp)
        if seen != set(comp_fam):
            msgs.append("scalar tail adds into components %s, reduction has %s" % (sorted(map(str, seen)), sorted(map(str, comp_fam))))
    if msgs:
        R.bad("C17-K5", "%s:tail" % name, site, "scalar tail differs from the SIMD body: " + "; ".join(msgs))
    else:
        R.ok("C17-K5", "%s:tail" % name, site, "scalar tail computes the same polynomials in scalar arithmetic")


def k7(F, R):
    R.rule("C17-K7", "each dispatch wrapper builds the kernel struct from its own slice parameters, one distinct parameter per operand (no re-slicing, no operand "
                     "passed twice)")
    for b in sorted(F.bodies.values(), key=lambda x: x.path):
        if b.kind != "fn" or not b.path.startswith("math::util::"):
            continue
        for bi, blk in enumerate(b.blocks):
            for st in blk["stmts"]:
                if st["k"] == "assign" and st["rv"]["k"] == "agg" and st["rv"]["ak"] == "adt" and st["rv"]["adt"].startswith("math::util::"):
                    adt = F.adts.get(st["rv"]["adt"])
                    if not adt:
                        continue
                    sl = [f["name"] for f in adt["variants"][0]["fields"] if "[f64]" in f["ty"]]
                    vals = {}
                    for fn, op in zip(st["rv"]["fields"], st["rv"]["ops"]):
                        if fn in sl:
                            vals[fn] = b.value(op)
                    key = "%s:%s" % (b.path, st["rv"]["adt"].split("::")[-1])
                    site = "%s @%s" % (b.path, loc(st["span"]))

                    def base(v):
                        while v[0] in ("ref", "deref"):
                            v = v[1]
                        return v
                    bases = [base(v) for v in vals.values()]
                    if all(x[0] == "arg" for x in bases) and len({x[1] for x in bases}) == len(bases) and len(bases) == len(sl):
                        R.ok("C17-K7", key, site, "operands = parameters %s" % [x[2] for x in bases])
                    else:
                        R.bad("C17-K7", key, site, "kernel operands are %s (expected one distinct slice parameter each)" % {k: vt_str(v) for k, v in vals.items()})
    R.floor("C17-K7", 10)


def _finite_kernel_delegation(F, b):
    """`array_all_finite` handing its whole slice to a math::util kernel whose per-element term is `x - x` (0 for a finite element, NaN
    otherwise - kept as `nanzero(x)` by the symbolic evaluator) and whose result is compared with 0: a per-element test in disguise.
    The lanes / tails / accumulators of that kernel are judged by K1..K6 like every other kernel."""
    calls = [t for _bb, t in b.calls() if (t["callee"].get("resolved") or t["callee"].get("path", "")).startswith("math::util::")]
    cands = [b] + [F.bodies.get(t["callee"].get("resolved") or t["callee"]["path"]) for t in calls]   # a new wrapper function is inlined into b
    kern = None
    nk = 0
    for ub in cands:
        if ub is None:
            continue
        for blk in ub.blocks:
            for st in blk["stmts"]:
                if st["k"] == "assign" and st["rv"]["k"] == "agg" and st["rv"].get("ak") == "adt":
                    for k_ in kernels(F):
                        if strip_generics(k_.parent.get("self_adt") or "") == strip_generics(st["rv"]["adt"]):
                            kern = k_
                            nk += 1
    if nk != 1:
        return None
    if kern is None or not kern.hir:
        return None
    km = KernelModel(F, kern)
    if km.problems or len(km.loops) != 3:
        return None
    for (ops, clo, node) in km.loops:
        if clo is None or clo.get("k") != "Closure":
            return None
        ev = KN.Eval(outer_env=km.ev0.env)
        ev.acc_ids = set(km.accs)
        ev.racc_roots = dict(km.ev0.racc_roots)
        lanes, err = KN.bind_params(ev, clo, [o for o, _p in ops])
        if err:
            return None
        ev.exec(clo["body"])
        upd = list(ev.acc.values()) + list(ev.racc.values())
        if not upd:
            return None
        for p_ in upd:
            nz = [a for a in KN.patoms(p_) if a[0] == "call" and a[1] == "nanzero"]
            if not nz:
                return None
    fin = K.peel(km.final) if km.final is not None else None
    if not (isinstance(fin, dict) and fin.get("k") == "Binary" and fin.get("op") == "==" and (K.num_lit(fin["b"]) == 0 or K.num_lit(fin["a"]) == 0)):
        return None
    return "delegates to the SIMD kernel %s: every element contributes x - x (0 iff finite, else NaN) and the total is compared with 0" % (
        (kern.parent.get("self_adt") or kern.path).split("::")[-1])


def k8(F, R):
    R.rule("C17-K8", "element loops of the CPU backend and of math::util iterate whole slices: none of %s occurs on a data path; f64::is_finite in a "
                     "boolean-valued Math method is evaluated per element inside the element closure, never on a reduction" % (BAD_ADAPTORS,))
    n = 0
    for b in sorted(F.bodies.values(), key=lambda x: x.path):
        if b.kind == "closure" or not b.hir:
            continue
        sa = b.parent.get("self_adt") or ""
        in_cpu = sa.startswith("math::cpu_math::CpuMath") or b.path.startswith("math::util::") or sa.startswith("math::util::")
        if not in_cpu:
            continue
        n += 1
        site = "%s @%s" % (b.path, b.loc())
        bad = sorted({x["method"] for x in hir_walk(b.hir["value"]) if x.get("k") == "MethodCall" and x["method"] in BAD_ADAPTORS})
        idx = [x for x in hir_walk(b.hir["value"]) if x.get("k") == "Index" and K.peel(x["i"]).get("k") in ("Struct", "Call", "MethodCall") and "Range" in str(K.peel(x["i"]).get("ty", ""))]
        key = "%s:whole-slices" % b.path
        if bad or idx:
            R.bad("C17-K8", key, site, "partial iteration of a vector: %s%s" % (bad, " + range indexing" if idx else ""))
        else:
            R.ok("C17-K8", key, site, "no truncating adaptor")
        # finiteness predicates
        out_ty = ""
        sig = b.r.get("sig") or {}
        if b.fn_name and "finite" in b.fn_name:
            fin = [x for x in hir_walk(b.hir["value"]) if x.get("k") == "MethodCall" and x["method"] == "is_finite"]
            in_closure = []
            for c in [x for x in hir_walk(b.hir["value"]) if x.get("k") == "Closure"]:
                for y in hir_walk(c["body"]):
                    if y.get("k") == "MethodCall" and y["method"] == "is_finite":
                        # receiver must be a closure parameter (an element), not an aggregate
                        rid = K.local_id(y["recv"])
                        pids = set()
                        for p in c.get("params", []):
                            for q in hir_walk(p):
                                if q.get("k") == "Binding":
                                    pids.add(q["id"])
                        if rid in pids:
                            in_closure.append(y)
            k2 = "%s:per-element-predicate" % b.path
            def _bool_fold(x):
                # `.fold(true, |ok, v| ok & pred(v))` accumulates booleans, not numbers: the predicate is still applied to each element
                a = x.get("args") or []
                return x["method"] == "fold" and len(a) == 2 and K.peel(a[0]).get("k") == "Lit" and K.peel(a[0])["lit"].get("lk") == "bool" and str(x.get("ty")) == "bool"
            reductions = [x["method"] for x in hir_walk(b.hir["value"]) if x.get("k") == "MethodCall" and x["method"] in ("sum", "product", "fold", "reduce", "max", "min")
                          and not _bool_fold(x)]
            deleg = _finite_kernel_delegation(F, b) if not fin else None
            if deleg:
                R.ok("C17-K8", k2, site, deleg)
            elif fin and len(in_closure) == len(fin) and not reductions:
                R.ok("C17-K8", k2, site, "is_finite applied to each element")
            else:
                R.bad("C17-K8", k2, site, "finiteness test is not per element: %d is_finite calls, %d of them on a closure element, reductions %s "
                      "(finite values whose sum overflows would be reported non-finite)" % (len(fin), len(in_closure), reductions))
        # sums of logarithms: ln is taken of each element, never of a product of elements (which leaves the f64 range long before the sum does)
        if b.fn_name and b.fn_name.endswith("_ln") and sa.startswith("math::cpu_math::CpuMath"):
            lns = [x for x in hir_walk(b.hir["value"]) if x.get("k") == "MethodCall" and x["method"] == "ln"]
            per_elem = 0
            for c in [x for x in hir_walk(b.hir["value"]) if x.get("k") == "Closure"]:
                pids = set()
                for p_ in c.get("params", []):
                    for q in hir_walk(p_):
                        if q.get("k") == "Binding":
                            pids.add(q["id"])
                for y in hir_walk(c["body"]):
                    if y.get("k") == "MethodCall" and y["method"] == "ln" and K.local_id(y["recv"]) in pids:
                        per_elem += 1
            prods = [x["method"] for x in hir_walk(b.hir["value"]) if x.get("k") == "MethodCall" and x["method"] in ("product", "fold", "reduce")]
            k3 = "%s:per-element-ln" % b.path
            if lns and per_elem == len(lns) and not prods:
                R.ok("C17-K8", k3, site, "ln applied to each element")
            else:
                R.bad("C17-K8", k3, site, "logarithm is not taken per element: %d ln calls, %d of them on a closure element, reductions %s "
                      "(a product of finite positive scales overflows or underflows although the sum of their logarithms is finite)" % (len(lns), per_elem, prods))
    R.floor("C17-K8", 40)


# fields of CpuMath that a kernel may write, confirmed by reading: one line of reason each
BACKEND_SCRATCH = {
    "lowrank_scratch": "scratch column of the low-rank application: resized and fully overwritten (beta = Replace matmul) before it is read in the same call",
    "logp_func": "the user's density object; what it remembers between calls is the user's business",
}


SIZED_SCRATCH = {"lowrank_scratch"}


def stateless_backend(F, R, rid="C17-K9"):
    """No value travels from one kernel call to the next through the backend object (shared with C02)."""
    from . import rel as Rl
    from .facts import vt_walk
    R.rule(rid, "the CPU backend is stateless between kernel calls: a method of `impl Math for CpuMath` writes a field of CpuMath only if it is a listed scratch "
                "buffer (%s) or a memo whose key is the unmodified input: the stored tuple holds parameters `p` themselves as keys, every other component is a "
                "function of those parameters only, and the store is guarded by `p != self.<memo>.<key>`" % ", ".join(sorted(BACKEND_SCRATCH)))
    adt = "cpu_math::CpuMath"
    methods = [b for b in F.bodies.values() if b.kind != "closure" and b.parent.get("trait") and path_ends(b.parent["trait"], "math::Math")
               and path_ends(b.parent.get("self_adt") or "", adt)]
    if len(methods) < 30:
        R.missing(rid, "methods of impl Math for CpuMath (found %d)" % len(methods))
    n_written = 0
    for b in sorted(methods, key=lambda x: x.path):
        bodies = [b] + K.all_closures_of(F, b.path)
        writes = {}
        for bx in bodies:
            for bi, blk in enumerate(bx.blocks):
                if blk["cleanup"]:
                    continue
                for st in blk["stmts"]:
                    if st["k"] != "assign":
                        continue
                    places = [("store", st["pl"])]
                    if st["rv"]["k"] in ("ref", "rawptr") and st["rv"].get("bk") in ("mut", "Mut"):
                        places.append(("borrow", st["rv"]["pl"]))
                    for how, pl in places:
                        fs = [e["n"] for e in pl["p"] if isinstance(e, dict) and "f" in e and path_ends(e.get("of") or "", adt)]
                        if how == "store" and not fs:
                            continue
                        if fs:
                            writes.setdefault(fs[0], []).append((bx, bi, st, how, pl))
        for f, ws in sorted(writes.items()):
            key = "%s:%s" % (b.path, f)
            site = "%s @%s" % (b.path, loc(ws[0][2]["span"]))
            if f in BACKEND_SCRATCH:
                n_written += 1
                R.ok(rid, key, site, "writes scratch field %s" % f)
                if f in SIZED_SCRATCH:
                    # the reason the scratch is harmless is that its *length* does not travel between calls either: a method that borrows it
                    # sizes it itself, from its own arguments (a length left behind by another call silently truncates zips / panics matmul)
                    sized = None
                    for (bx, bi, st, how, pl) in ws:
                        flds = [e for e in pl["p"] if isinstance(e, dict) and "f" in e]
                        if how == "store" and flds and flds[-1].get("n") == f and pl["p"][-1] is flds[-1]:
                            sized = ("whole-field store", bx, [st["rv"]["op"]] if st["rv"]["k"] == "use" else [])
                    for bx in bodies:
                        for bb, t in bx.calls():
                            if t["callee"].get("name") in ("resize_with", "resize", "truncate", "resize_default") and t["args"] and \
                                    f in bx.slice(t["args"][:1], control=False)["fields"]:
                                sized = (t["callee"]["name"], bx, t["args"][1:2])
                    only_store = all(how == "store" and pl["p"] and isinstance(pl["p"][-1], dict) and pl["p"][-1].get("n") == f for (_bx, _bi, _st, how, pl) in ws)
                    k2 = "%s:%s:sized-here" % (b.path, f)
                    if only_store:
                        R.ok(rid, k2, site, "replaces %s as a whole and does not read it" % f)
                    elif sized is None:
                        R.bad(rid, k2, site, "borrows the scratch buffer %s without sizing it in the same call: its length is whatever the last call (for another operand) left "
                              "behind - an iterator zip over it silently drops the trailing eigen-directions, a matmul panics" % f)
                    else:
                        sl = sized[1].slice(sized[2], control=False) if sized[2] else {"args": set(), "upvars": set(), "calls": set()}
                        if sl["args"] or sl["upvars"]:
                            R.ok(rid, k2, site, "%s sized in the same call (%s) from the call's own operands" % (f, sized[0]))
                        else:
                            R.bad(rid, k2, site, "%s is sized in this call (%s), but not from the call's operands" % (f, sized[0]))
                continue
            # memo?
            why = None
            for (bx, bi, st, how, pl) in ws:
                if how != "store" or bx is not b:
                    why = "field %s is %s" % (f, "mutably borrowed" if how == "borrow" else "written from a closure")
                    break
                last = [e for e in pl["p"] if isinstance(e, dict) and "f" in e]
                if not (last and last[-1].get("n") == f and st["rv"]["k"] == "agg" and st["rv"].get("ak") == "tuple"):
                    why = "field %s is not stored as one (key.., value..) tuple" % f
                    break
                comps = [b.value(o) for o in st["rv"]["ops"]]
                keys = {i: c for i, c in enumerate(comps) if c[0] == "arg"}
                key_args = {c[1] for c in keys.values()}
                if not keys:
                    why = "memo %s has no key that is an unmodified parameter (stored: %s)" % (f, ", ".join(vt_str(c)[:30] for c in comps))
                    break
                for i, c in enumerate(comps):
                    if i in keys:
                        continue
                    leaves = [x for x in vt_walk(c) if x[0] in ("arg", "local", "field", "upvar")]
                    if any(not (x[0] == "arg" and x[1] in key_args) for x in leaves):
                        why = "memo value %s does not depend on the key parameters only" % vt_str(c)[:60]
                        break
                if why:
                    break
                rels = Rl.edge_relations(b, bi)
                for i, c in keys.items():
                    guarded = False
                    for (o, l, r, _s) in rels:
                        if o != "Ne" or r is None:
                            continue
                        for (x, y) in ((l, r), (r, l)):
                            if x[0] == "arg" and x[1] == c[1] and y[0] == "field" and str(y[2]) == str(i) and y[1][0] == "field" and y[1][2] == f:
                                guarded = True
                    if not guarded:
                        why = "memo %s is refreshed under a condition other than `%s != self.%s.%d`" % (f, c[2], f, i)
                        break
                if why:
                    break
            n_written += 1
            if why:
                R.bad(rid, key, site, "kernel %s keeps state between calls: %s" % (b.fn_name, why))
            else:
                R.ok(rid, key, site, "identity-keyed memo %s" % f)
    R.ok(rid, "methods", "impl Math for CpuMath", "%d methods scanned, %d (method, field) writes" % (len(methods), n_written))
    R.floor(rid, 2)



def k10(F, R):
    """The CPU backend computes every vector operation itself: a trait default it inherits may only forward."""
    R.rule("C17-K10", "every method of the Math trait that CpuMath does not implement itself (it inherits the trait's default body) performs no floating-point "
                      "arithmetic of its own: it only forwards to other backend operations. A default that re-derives a result from other reductions "
                      "(`|x+y|^2 = x.x + 2 x.y + y.y`) is not the element-by-element formula and cancels where the element formula does not")
    tr = [v for k_, v in F.traits.items() if path_ends(k_, "math::Math")]
    if not tr:
        R.missing("C17-K10", "trait math::Math")
        return
    fns = [it["name"] for it in tr[0]["items"] if it.get("inputs") is not None]
    cpu = {b.fn_name for b in F.bodies.values() if b.kind != "closure" and b.parent.get("trait") and path_ends(b.parent["trait"], "math::Math")
           and path_ends(b.parent.get("self_adt") or "", "cpu_math::CpuMath")}
    if len(cpu) < 30:
        R.missing("C17-K10", "impl Math for CpuMath (found %d methods)" % len(cpu))
        return
    n = 0
    for name in sorted(set(fns) - cpu):
        db = [b for b in F.bodies.values() if b.kind != "closure" and b.parent.get("kind") == "trait" and b.fn_name == name and "math::Math" in b.path]
        key = "Math::%s:inherited" % name
        if not db:
            continue        # required method without body cannot be missing from the impl (the compiler checks)
        n += 1
        d = db[0]
        arith = []
        for bx in [d] + K.all_closures_of(F, d.path):
            for blk in bx.blocks:
                for st in blk["stmts"]:
                    if st["k"] == "assign" and st["rv"]["k"] in ("bin", "un") and st["rv"].get("op") in ("Add", "Sub", "Mul", "Div", "Rem", "Neg"):
                        tys = [bx.local_ty(o["pl"]["l"]) if o.get("k") in ("copy", "move") and not o["pl"]["p"] else (o.get("const") or {}).get("ty") for o in
                               ([st["rv"].get("a"), st["rv"].get("b")] if st["rv"]["k"] == "bin" else [st["rv"].get("a")]) if o]
                        if any(t_ in ("f64", "f32") for t_ in tys):
                            arith.append(loc(st["span"]))
        site = "%s @%s" % (d.path, d.loc())
        if arith:
            R.bad("C17-K10", key, site, "CpuMath uses the trait default of %s, which does floating-point arithmetic on the results of other operations (%s)" % (name, ", ".join(arith[:3])))
        else:
            R.ok("C17-K10", key, site, "inherited default of %s only forwards" % name)
    R.ok("C17-K10", "overrides", "impl Math for CpuMath", "%d of %d operations implemented by the backend itself, %d inherited" % (len(cpu & set(fns)), len(fns), n))
    R.floor("C17-K10", 2)



def k11(F, R):
    """The floating-point environment is the default one: the math backend contains no unsafe code / inline assembly."""
    R.rule("C17-K11", "the math backend (math::*) has no `unsafe` block or unsafe fn: nothing can change the floating-point environment (flush-to-zero / "
                      "denormals-are-zero, rounding mode) under the kernels, and nothing reads or writes vector memory outside the checked slice operations")
    n = 0
    hits = []
    for b in F.hir_bodies():
        sa = b.parent.get("self_adt") or ""
        if not (b.path.startswith(("math::", "<math::")) or sa.startswith("math::")) or not b.hir or K.is_std_derive(b):
            continue
        n += 1
        for x in hir_walk(b.hir["value"]):
            if x.get("k") == "Block" and x.get("unsafe") and not (x.get("span") or {}).get("exp"):
                hits.append((b, x.get("span")))
            if x.get("k") == "InlineAsm":
                hits.append((b, x.get("span")))
        if str(b.r.get("safety", "Safe")).lower().startswith("unsafe"):
            hits.append((b, b.span))
    for (b, sp) in hits:
        R.bad("C17-K11", "%s:unsafe" % b.path, "%s @%s" % (b.path, loc(sp or b.span)), "unsafe code in the math backend: the kernels' results can depend on state set here "
              "(e.g. MXCSR flush-to-zero makes subnormal elements vanish from every sum and product)")
    R.ok("C17-K11", "scan", "math::*", "%d function bodies of the math backend scanned, %d unsafe sites" % (n, len(hits)))
    if n < 60:
        R.missing("C17-K11", "bodies of the math backend (found %d)" % n)



CLAMP_BY_SPEC = ("array_update_var_inv_std_draw", "array_update_var_inv_std_draw_grad", "array_update_var_inv_std_grad", "array_update_variance")


def k12(F, R):
    R.rule("C17-K12", "the formulas are applied as they stand: apart from the scale-update kernels, whose specification clamps the variance, no method of the CPU "
                      "backend and no kernel of math::util applies min / max / clamp / abs / copysign to an f64 - `x.max(tiny)` silently replaces a NaN (f64::max "
                      "returns the other operand), `exp(-d).min(1.0)` changes the result for negative steps; either way the backend no longer agrees with scalar "
                      "arithmetic on special values")
    CL = ("min", "max", "clamp", "abs", "copysign", "signum", "rem_euclid")
    # ... and none branches on the class of a float (`if !norm.is_normal() { return 0.0 }` turns a NaN / inf input into a regular result: the
    # non-finite value was the only way the fault reached the energy test); the two finiteness predicates of the Math trait are what they are
    CLASSIFY = ("is_nan", "is_finite", "is_infinite", "is_normal", "is_subnormal", "classify", "is_sign_negative", "is_sign_positive")
    FINITE_PREDICATES = ("array_all_finite", "array_all_finite_and_nonzero")
    n = 0
    hits = []
    for b in sorted(F.hir_bodies(), key=lambda x: x.path):
        if not b.hir:
            continue
        sa = b.parent.get("self_adt") or ""
        in_cpu = (sa.startswith("math::cpu_math::CpuMath") and b.parent.get("trait") and path_ends(b.parent["trait"], "math::Math")) or b.path.startswith("math::util::")
        if not in_cpu or ".tests" in b.path or "::tests::" in b.path or b.kind == "closure":
            continue
        if b.fn_name in CLAMP_BY_SPEC:
            continue
        n += 1
        for x in hir_walk(b.hir["value"]):
            if x.get("k") == "MethodCall" and x.get("method") in CL and ("f64" in str(x.get("callee")) or str(x.get("recv_ty")) in ("f64", "&f64")):
                hits.append((b, x))
            if x.get("k") == "MethodCall" and x.get("method") in CLASSIFY and b.fn_name not in FINITE_PREDICATES \
                    and ("f64" in str(x.get("callee")) or str(x.get("recv_ty")) in ("f64", "&f64")):
                hits.append((b, x))
    for (b, x) in hits:
        R.bad("C17-K12", "%s:%s" % (b.path, x["method"]), "%s @%s" % (b.path, loc(x["span"])), "`%s` applied to an f64 in a formula kernel: the result differs from the scalar formula "
              "for NaN / negative / out-of-range operands" % x["method"] if x["method"] in CL else
              "`%s` on an f64 in a formula kernel: the kernel treats special values apart instead of letting them propagate, so a non-finite input can "
              "come out as a regular result" % x["method"])
    if not hits:
        R.ok("C17-K12", "scan", "math::cpu_math, math::util", "%d functions, no min / max / clamp / abs on an f64 outside the %d scale-update kernels" % (n, len(CLAMP_BY_SPEC)))
    if n < 20:
        R.missing("C17-K12", "CPU backend methods (found %d)" % n)



def forwarded_scalars(F, R, rid="C17-K13"):
    """The CPU backend hands the caller's scalars to the math::util kernels as they are (shared with C02)."""
    R.rule(rid, "adapter transparency: where a method of `impl Math for CpuMath` delegates to a math::util kernel, every f64 argument of that call is one of the "
                "method's own f64 parameters, unmodified (or a literal): the Math trait's scalar (a step size, an axpy factor) means the same thing on both "
                "sides of the backend boundary - no halving, negation or rescaling in between")
    adt = "cpu_math::CpuMath"
    n = 0
    for b in sorted(F.bodies.values(), key=lambda x: x.path):
        if b.kind == "closure" or not b.parent.get("trait") or not path_ends(b.parent["trait"], "math::Math") \
                or not path_ends(b.parent.get("self_adt") or "", adt):
            continue
        for bb, t in b.calls():
            c = t["callee"]
            p = c.get("resolved") or c.get("path") or ""
            if "math::util::" not in p:
                continue
            for i, a in enumerate(t["args"]):
                ty = b.local_ty(a["pl"]["l"]) if a.get("pl") else a.get("ty")
                if ty != "f64":
                    continue
                v = b.value(a)
                key = "%s:%s#%d" % (b.path, p.split("::")[-1], i)
                site = "%s @%s" % (b.path, loc(t["span"]))
                n += 1
                if v[0] == "arg" or v[0] == "const":
                    R.ok(rid, key, site, "scalar argument %d of %s is the parameter `%s`" % (i, p.split("::")[-1], vt_str(v)))
                else:
                    R.bad(rid, key, site, "scalar argument %d of %s is `%s`, not the method's own parameter: the backend rescales the caller's scalar on the way "
                          "to the kernel" % (i, p.split("::")[-1], vt_str(v)[:80]))
    R.floor(rid, 3)     # axpy, axpy_out and at least one flow kernel take the caller's scalar


DATA_MOVEMENT = ("new_array", "new_eig_vectors", "new_eig_values", "read_from_slice", "write_to_slice", "copy_into", "fill_array", "eigs_as_array")


def k14(F, R):
    import json as _json
    R.rule("C17-K14", "nothing is computed on the way in or out: (a) the data-movement methods of the CPU backend (%s) contain no floating-point arithmetic - what the "
                      "caller hands over (eigenvectors, eigenvalues, a slice) is what the kernels later read; (b) a method that delegates to a math::util kernel does "
                      "nothing else: one call of a K7-validated dispatch wrapper, no second kernel, no closure handed to Arch::dispatch, no f64 arithmetic of its "
                      "own - the arithmetic of such a method is exactly the kernel K1-K6 model" % ", ".join(DATA_MOVEMENT))
    adt = "cpu_math::CpuMath"
    # (a)
    n_a = 0
    for b in sorted(F.hir_bodies(), key=lambda x: x.path):
        if b.kind == "closure" or not b.hir or not (b.parent.get("self_adt") or "").startswith("math::cpu_math::CpuMath") or b.fn_name not in DATA_MOVEMENT:
            continue
        if not (b.parent.get("trait") and path_ends(b.parent["trait"], "math::Math")):
            continue
        n_a += 1
        ops = []
        for x in hir_walk(b.hir["value"]):
            k = x.get("k")
            lty = str((x.get("l") or {}).get("ty")) if isinstance(x.get("l"), dict) else ""
            if k in ("Binary", "AssignOp") and ("f64" in str(x.get("ty")) or "f64" in lty):
                ops.append("%s %s" % (k, x.get("op")))
            if k == "MethodCall" and str(x.get("recv_ty")) in ("f64", "&f64", "&mut f64"):
                ops.append("f64::%s" % x.get("method"))
        key = "%s:data-movement" % b.path
        site = "%s @%s" % (b.path, b.loc())
        if ops:
            R.bad("C17-K14", key, site, "%s computes on the data it stores (%s): the kernels no longer see the caller's values" % (b.fn_name, ", ".join(sorted(set(ops)))))
        else:
            R.ok("C17-K14", key, site, "no floating-point arithmetic")
    if n_a < 8:
        R.missing("C17-K14", "data-movement methods of CpuMath (found %d)" % n_a)
    # (b)
    wrappers = set()
    for b in F.bodies.values():
        if b.kind == "fn" and b.path.startswith("math::util::"):
            for blk in b.blocks:
                for st in blk["stmts"]:
                    if st["k"] == "assign" and st["rv"]["k"] == "agg" and st["rv"].get("ak") == "adt" and st["rv"]["adt"].startswith("math::util::"):
                        wrappers.add(strip_generics(b.path))
    n_b = 0
    for b in sorted(F.bodies.values(), key=lambda x: x.path):
        if b.kind == "closure" or not b.parent.get("trait") or not path_ends(b.parent["trait"], "math::Math") or not path_ends(b.parent.get("self_adt") or "", adt):
            continue
        utils, closures, dispatch = [], [], 0
        for bb, t in b.calls():
            p = strip_generics(t["callee"].get("resolved") or t["callee"].get("path") or "")
            if "math::util::" in p:
                utils.append(p)
            closures += list(t["callee"].get("closures") or [])
            if p.endswith("Arch::dispatch"):
                dispatch += 1
        if not utils:
            continue
        n_b += 1
        arith = sum(1 for blk in b.blocks if not blk["cleanup"] for st in blk["stmts"]
                    if st["k"] == "assign" and st["rv"]["k"] == "bin" and "f64" in _json.dumps(st["rv"]))
        why = []
        if len(utils) != 1:
            why.append("%d math::util calls (%s)" % (len(utils), ", ".join(u.split("::")[-1] for u in utils)))
        why += ["calls %s, which is not a K7-validated dispatch wrapper" % u.split("::")[-1] for u in utils if u not in wrappers]
        if dispatch or closures:
            why.append("hands a closure to %s" % ("Arch::dispatch" if dispatch else "a call"))
        if arith:
            why.append("%d f64 operation(s) of its own" % arith)
        key = "%s:delegation" % b.path
        site = "%s @%s" % (b.path, b.loc())
        if why:
            R.bad("C17-K14", key, site, "%s delegates to a kernel but also computes: %s" % (b.fn_name, "; ".join(why)))
        else:
            R.ok("C17-K14", key, site, "one call of %s, nothing else" % utils[0].split("::")[-1])
    if n_b < 8:
        R.missing("C17-K14", "delegating methods of CpuMath (found %d)" % n_b)

def run(F, R, config=None):
    R.rule("C17-K1", "each slice operand of a kernel is split exactly once by S::as_(mut_)simd_f64s and its head exactly once by pulp::as_arrays(_mut)::<4>")
    R.rule("C17-K2", "exactly three element loops (unrolled body, SIMD tail, scalar tail); each zips the corresponding piece of every operand exactly once")
    R.rule("C17-K3", "unrolled body: lane k reads only lane-k inputs and its own accumulators and computes the same polynomial as lane 0")
    R.rule("C17-K4", "SIMD tail computes lane 0's polynomial(s) and updates one accumulator of each family")
    R.rule("C17-K5", "scalar tail computes the same polynomial(s) in scalar arithmetic (fma = a*b+c) and adds into the reduced result")
    R.rule("C17-K6", "every accumulator starts at splat(0), is updated in exactly one lane, and occurs exactly once in the final reduce_sum tree of its family")
    ks = kernels(F)
    if len(ks) < 10:
        R.missing("C17-K1", "impl WithSimd kernels in math::util (found %d, expected 10)" % len(ks))
    for b in ks:
        check_kernel(F, R, b)
    k7(F, R)
    k8(F, R)
    stateless_backend(F, R)
    k10(F, R)
    k11(F, R)
    k12(F, R)
    forwarded_scalars(F, R)
    k14(F, R)
    R.floor("C17-K1", 25)
    R.floor("C17-K2", 40)
    R.floor("C17-K3", 40)
    R.floor("C17-K4", 10)
    R.floor("C17-K5", 10)
    R.floor("C17-K6", 12)
    R.assume("pulp::Simd::as_simd_f64s and pulp::as_arrays::<4> return (head, tail) that partition the input slice in order")
    R.assume("SIMD intrinsics compute the lane-wise real-arithmetic operation their name says (mul_add = a*b+c)")


CONFIGS = ["all", "nodefault"]
SELFTEST = True

"""C01 - NUTS transition reversible: structural necessary conditions (DESIGN section 4, C01)."""
from .facts import (path_ends, loc, vt_walk, vt_str, hir_walk, hir_find, strip_generics)
from .sib import canon, Subst, show
from . import common as K
from . import rel as Rl

LEVEL = ("Static necessary conditions of reversibility, decided on the resolved program (HIR/MIR): fair and fresh "
         "direction draw per doubling, mirror symmetry of every direction-dependent construct, U-turn pair set closed "
         "under left/right mirroring with order normalisation, tree-weight writers and acceptance-branch inputs, "
         "momentum refresh at trajectory start, symmetry f(a,b)=f(b,a) of the tree-weight merge function on its whole decision tree (R8). Detailed balance itself (values of energies and probabilities) is not decided."
         " Added during seeding: the gate of the U-turn criterion (options.check_turning or a flag parameter) depends on check_turning / depth / mindepth only and is handed down unchanged to sub-trees (R7); initial_energy is a snapshot of energy() after the last write of what energy() reads (R9)."
         " Added (round 4): the acceptance of the new half's draw inside a sub-tree is decided path-sensitively with is_main assumed false - the new weight is compared with the merged weight only and gated by random_bool(exp(other - merged)) (R11); no U-turn test inside the loop that builds the new half (R12); the no-check options are selected exactly on the paths that passed tree.depth < mindepth, whatever shape the selection has (R7 by path enumeration)."
         " Added (round 5): per kinetic-energy kind the new point's energy is its own and both velocity half-steps read the same fields (R13 = C02-R11 analysis)."
         " Added (round 6): every write of a transformation is followed by the id increment, so a tree's start point is never left in the coordinates of the previous transformation (R14 = C02-R5); the CPU backend carries no state from one kernel call to the next (R15 = C17-K9)."
         " Added (round 7): inside extend() no option other than check_turning takes part in the conditions that lead to is_turning() - mindepth is decided in the doubling loop only (R7 gate-options-only).")
EXPLANATION = ("Rules C01-R1..R6 evaluated on every matching site of the all-features build; each rule instance is a "
               "(rule, site) obligation. What is established: the structural clauses listed in level_text hold at every site; "
               "what is not: the Metropolis/multinomial formulas as numbers.")
TRUSTED = ["rustc nightly front end / MIR construction", "nutsfacts extractor", "rules/c01.py",
           "rand: RngExt::random::<bool>() is a fair coin; StandardNormal is N(0,1)"]

MIRROR_FIELDS = {"left": "right", "right": "left"}
M1 = Subst(fields=MIRROR_FIELDS, defs={"Forward": "Backward", "Backward": "Forward"}, keep_local_names=True)
IDK = Subst(keep_local_names=True)

FAIR_IDIOMS = "random::<bool>(), random_bool(0.5), random_ratio(1, 2)"


def is_fair_bool_draw(n):
    """HIR node is a fair boolean draw on an rng."""
    if n.get("k") == "Unary" and n.get("op") == "!":
        return is_fair_bool_draw(n["a"])
    if n.get("k") != "MethodCall":
        return False
    callee = strip_generics(n.get("callee") or "")
    name = callee.split("::")[-1]
    if not callee.startswith("rand::"):
        return False
    if name == "random" and n.get("ty") == "bool":
        return True
    if name == "random_bool" and len(n["args"]) == 1:
        a = n["args"][0]
        return a.get("k") == "Lit" and float(a["lit"]["v"]) == 0.5
    if name == "random_ratio" and len(n["args"]) == 2:
        a, b = n["args"]
        try:
            return a["k"] == "Lit" and b["k"] == "Lit" and int(b["lit"]["v"]) == 2 * int(a["lit"]["v"]) and int(a["lit"]["v"]) > 0
        except (ValueError, KeyError):
            return False
    return False


def variant_of(n):
    """HIR expr that is a path to an enum variant -> (enum path, variant name)."""
    n = K.peel(n)
    if n.get("k") == "Path":
        r = n["res"]
        if r.get("dk", "").startswith("Ctor") and r.get("enum"):
            return (r["enum"], r["name"])
        if r.get("dk") == "Variant":
            return (r["enum"], r["name"])
    return None


def r1(F, R):
    R.rule("C01-R1", "direction operand of every top-level extend() is a fresh fair draw from the function's RNG in the same loop; "
                     "Distribution<Direction>::sample is one fair boolean draw returning both variants once (accepted: %s)" % FAIR_IDIOMS)
    # (a) callers of NutsTree::extend other than extend itself
    callers = []
    for b in F.bodies.values():
        if b.kind == "closure" or b.fn_name == "extend" and path_ends(b.parent.get("self_adt"), "NutsTree"):
            continue
        cs = b.calls_to(lambda c: path_ends(c["path"], "NutsTree::extend"))
        if cs:
            callers.append((b, cs))
    if not callers:
        R.missing("C01-R1", "caller of NutsTree::extend")
    for b, cs in callers:
        loops = b.natural_loops()
        for bb, t in cs:
            site = "%s @%s" % (b.path, loc(t["span"]))
            key = "%s:extend-call#%d" % (b.path, cs.index((bb, t)))
            # the Direction-typed argument
            dargs = [a for a in t["args"] if a["k"] in ("copy", "move") and path_ends(a["pl"]["ty"], "Direction")]
            if len(dargs) != 1:
                R.bad("C01-R1", key, site, "extend() call without exactly one Direction operand that is a variable (constant direction?): %s" % [vt_str(b.value(a)) for a in t["args"]])
                continue
            d = dargs[0]
            l = d["pl"]["l"]
            defs = b.defs().get(l, [])
            rc = K.resolve_call_def(b, l)
            if rc is None:
                v = b.local_value(l)
                R.bad("C01-R1", key, site, "direction is %s, not the result of one RNG draw" % vt_str(v))
                continue
            dbb, dterm = rc
            if not K.direction_draw_callee(F, dterm["callee"], dterm, b):
                R.bad("C01-R1", key, site, "direction defined by call of %s, not an RNG draw of Direction from the function's rng parameter" % dterm["callee"].get("path"))
            elif not (any(dbb in body and b.dominates(h, bb) for h, body in loops.items()) and b.dominates(dbb, bb)):
                R.bad("C01-R1", key, site, "direction drawn outside the doubling loop (one draw reused for all doublings)")
            else:
                R.ok("C01-R1", key, site, "direction = rng.random::<Direction>() inside the loop")
    # (b) the sampler of Direction
    samplers = [b for b in F.trait_method_impls("Distribution", "sample")
                if any(path_ends(a, "Direction") for a in K.impl_trait_args(F, b))]
    if not samplers:
        R.missing("C01-R1", "impl Distribution<Direction>::sample")
    for b in samplers:
        site = "%s @%s" % (b.path, b.loc())
        leaves = K.tail_leaves(b.hir["value"])
        conds = [c for (cs, _e) in leaves for c in cs]
        variants = [variant_of(e) for (_c, e) in leaves]
        draws = [n for n in hir_walk(b.hir["value"]) if n.get("k") == "MethodCall" and strip_generics(n.get("callee") or "").startswith("rand::")]
        if len(leaves) != 2 or None in variants or {v[1] for v in variants} != {"Forward", "Backward"}:
            R.bad("C01-R1", b.path + ":variants", site, "sample() does not return each Direction variant exactly once: %s" % variants)
        elif len(draws) != 1 or not is_fair_bool_draw(draws[0]):
            R.bad("C01-R1", b.path + ":fair", site, "sample() is not exactly one fair boolean draw (accepted idioms: %s)" % FAIR_IDIOMS)
        elif not all(len(cs) == 1 and K.peel(cs[0][0]) is K.peel(draws[0]) or (len(cs) == 1 and is_fair_bool_draw(cs[0][0])) for (cs, _e) in leaves):
            R.bad("C01-R1", b.path + ":branch", site, "the two variants are not selected by the fair draw")
        else:
            R.ok("C01-R1", b.path + ":fair", site, "one fair boolean draw selects Forward/Backward")


def direction_matches(F):
    out = []
    for b in F.hir_bodies():
        if b.kind == "closure" or not b.hir or K.is_std_derive(b):
            continue
        for n in hir_walk(b.hir["value"]):
            if n.get("k") == "Match" and path_ends(n.get("scrut_adt"), "Direction") and path_ends(n.get("scrut_adt"), "hamiltonian::Direction"):
                out.append((b, n))
    return out


def mirror_ok(fw, bw):
    """Forward arm body vs Backward arm body: which mirror map relates them?"""
    a = canon(fw, M1)
    c = canon(bw, IDK)
    if canon(fw, IDK) == c:
        return None  # identical arms: the direction has no effect here
    if a == c:
        return "M1"
    # M2: M1 + reversal of a tuple
    fw_p, bw_p = K.peel(fw), K.peel(bw)
    if fw_p.get("k") == "Tup" and bw_p.get("k") == "Tup" and len(fw_p["es"]) == len(bw_p["es"]):
        ca = tuple(canon(e, M1) for e in reversed(fw_p["es"]))
        cb = tuple(canon(e, IDK) for e in bw_p["es"])
        if ca == cb:
            return "M2"
    # M3: numeric negation of a literal
    la, lb = K.num_lit(fw_p), K.num_lit(bw_p)
    if la is not None and lb is not None and la == -lb and la != 0:
        return "M3"
    return None


def r2(F, R):
    R.rule("C01-R2", "every match on Direction (outside the step-size search, C07-R5) has arms that are mirror images: "
                     "M1 left<->right, M2 = M1 + reversed tuple, M3 = negated numeric literal")
    n_found = 0
    for b, m in direction_matches(F):
        if path_ends(b.parent.get("self_adt") or "", "stepsize::adapt::Strategy") or "stepsize" in b.path:
            continue
        n_found += 1
        idx = sum(1 for (b2, m2) in direction_matches(F) if b2 is b and m2["span"]["line"] < m["span"]["line"])
        key = "%s:match#%d" % (b.path, idx)
        site = "%s @%s" % (b.path, loc(m["span"]))
        arms = {}
        wild = False
        for a in m["arms"]:
            v = K.pat_variant(a["pat"])
            if v is None:
                wild = True
            else:
                arms[v] = a
        if wild or set(arms) != {"Forward", "Backward"} or any(a.get("guard") for a in m["arms"]):
            R.bad("C01-R2", key, site, "Direction match is not a plain two-arm Forward/Backward match")
            continue
        how = mirror_ok(arms["Forward"]["body"], arms["Backward"]["body"])
        if how:
            R.ok("C01-R2", key, site, "arms are mirror images under %s" % how)
        else:
            R.bad("C01-R2", key, site, "Forward arm %s and Backward arm %s are not mirror images under M1/M2/M3" % (
                show(canon(arms["Forward"]["body"], IDK)), show(canon(arms["Backward"]["body"], IDK))))
    # if-let / matches! on Direction are not an accepted idiom (they hide asymmetry): report
    for b in F.hir_bodies():
        if not b.hir or "stepsize" in b.path:
            continue
        for n in hir_walk(b.hir["value"]):
            if n.get("k") == "LetExpr" and path_ends(n["init"].get("ty", "").lstrip("&"), "hamiltonian::Direction"):
                R.bad("C01-R2", "%s:iflet" % b.path, "%s @%s" % (b.path, loc(n["span"])),
                      "one-sided test of a Direction (if let / matches!) - mirror symmetry cannot be established")
    R.floor("C01-R2", 4)


def _tree_field(v):
    """`&self.left` / `&other.right` as a MIR value tree -> (owner, field); owner is `self` for the receiver, `other` for any other tree"""
    if v[0] == "ref":
        v = v[1]
    if v[0] == "field" and v[2] in MIRROR_FIELDS:
        root = v[1]
        while root[0] in ("deref", "ref"):
            root = root[1]
        if root[0] == "arg" and root[1] == 1:
            return ("self", v[2])
        return ("other", v[2])
    return None


def _pairs_from_array_loop(b, ops):
    """State operands that are the elements of an array literal of pairs iterated by a `for` loop: the pairs of that literal."""
    sl = b.slice(list(ops), control=False)
    if not any(strip_generics(c).endswith("Iterator::next") for c in sl["calls"]):
        return []
    out = []
    for l in sl["locals"]:
        for d in b.defs().get(l, []):
            if d[0] == "stmt" and d[3]["k"] == "assign" and not d[3]["pl"]["p"] and d[3]["rv"]["k"] == "agg" and d[3]["rv"].get("ak") == "array":
                elems = []
                for o in d[3]["rv"]["ops"]:
                    v = b.value(o)
                    if v[0] == "agg" and str(v[1]) == "tuple" and len(v[2]) == 2:
                        fs = [_tree_field(x) for x in v[2]]
                        if None not in fs:
                            elems.append(tuple(fs))
                            continue
                    elems = None
                    break
                if elems:
                    out.extend(elems)
    return out


def r3(F, R):
    R.rule("C01-R3", "U-turn checks in extend(): the set of (a, b) argument pairs is closed under left<->right; "
                     "every impl of is_turning orders its two states by index_in_trajectory before any other use")
    ext = [b for b in F.inherent_methods("NutsTree", "extend")]
    if not ext:
        R.missing("C01-R3", "NutsTree::extend")
    for b in ext:
        # on the MIR of extend (helpers outside the baseline decomposition are inlined): the two state operands of every is_turning call
        pairs = []
        whole = 0
        for _bb, t in b.calls_to(lambda c: path_ends(c["path"], "Hamiltonian::is_turning")):
            fs = [_tree_field(b.value(a)) for a in t["args"][-2:]]
            if None in fs:
                lp = _pairs_from_array_loop(b, t["args"][-2:])
                if lp:
                    pairs.extend(lp)      # `for (a, b) in [(&self.right, &other.right), ..] { is_turning(a, b) }`
                else:
                    whole += 1
            else:
                pairs.append(tuple(fs))
        site = "%s @%s" % (b.path, b.loc())
        if whole < 1:
            R.bad("C01-R3", b.path + ":whole", site, "no U-turn check over the whole new trajectory (first, last)")
        else:
            R.ok("C01-R3", b.path + ":whole", site, "%d whole-trajectory check(s)" % whole)
        mirrored = {tuple((o, MIRROR_FIELDS.get(f, f)) for (o, f) in p) for p in pairs}
        norm = lambda s: {frozenset(p) for p in s}
        if not pairs:
            R.bad("C01-R3", b.path + ":cross", site, "no sub-tree cross U-turn checks")
        elif norm(mirrored) != norm(set(pairs)):
            R.bad("C01-R3", b.path + ":cross", site, "U-turn pair set %s is not closed under left<->right" % sorted(pairs))
        else:
            R.ok("C01-R3", b.path + ":cross", site, "pair set %s closed under mirror" % sorted(pairs))
    impls = F.trait_method_impls("Hamiltonian", "is_turning")
    if not impls:
        R.missing("C01-R3", "impl Hamiltonian::is_turning")
    for b in impls:
        site = "%s @%s" % (b.path, b.loc())
        params = K.param_bindings(b)
        if len(params) < 4:
            R.bad("C01-R3", b.path + ":order", site, "unexpected parameter list")
            continue
        p1, p2 = params[-2], params[-1]
        found = None
        for n in hir_walk(b.hir["value"]):
            if n.get("k") != "If":
                continue
            c = K.peel(n["cond"])
            if c.get("k") != "Binary" or c["op"] not in ("<", ">", "<=", ">="):
                continue
            sides = [K.index_call_on(c["a"]), K.index_call_on(c["b"])]
            if set(sides) != {p1[0], p2[0]}:
                continue
            t, e = K.peel(n["then"]), K.peel(n["else"]) if n.get("else") else None
            if e is None or t.get("k") != "Tup" or e.get("k") != "Tup":
                continue
            tl = [K.local_id(x) for x in t["es"]]
            el = [K.local_id(x) for x in e["es"]]
            if tl == list(reversed(el)) and set(tl) == {p1[0], p2[0]}:
                found = n
        if not found:
            R.bad("C01-R3", b.path + ":order", site, "no order normalisation `if s1.index < s2.index {(s1,s2)} else {(s2,s1)}`")
            continue
        # no other use of the raw parameters
        inside = {id(x) for x in hir_walk(found)}
        stray = [n for n in hir_walk(b.hir["value"]) if n.get("k") == "Path" and id(n) not in inside and K.local_id(n) in (p1[0], p2[0])]
        if stray:
            R.bad("C01-R3", b.path + ":order", site, "state parameter used outside the order normalisation at %s" % loc(stray[0]["span"]))
        else:
            R.ok("C01-R3", b.path + ":order", site, "states ordered by index_in_trajectory before use")


def r4(F, R):
    R.rule("C01-R4", "writers of NutsTree.log_size are: constant 0 (initial tree), -energy_error of the new end point (single step), "
                     "logaddexp of both operand trees (merge); the branch assigning NutsTree.draw in the merge depends on both "
                     "trees' log_size, is_main and the RNG")
    writers = K.field_writers(F, "nuts::NutsTree", "log_size")
    if not writers:
        R.missing("C01-R4", "writers of NutsTree.log_size")
    for (b, bb, st, v, how) in writers:
        site = "%s @%s" % (b.path, loc(st["span"]))
        key = "%s:log_size<-%s" % (b.path, how)
        s = vt_str(v)
        if v[0] == "const" and v[2] is not None and float(v[2]) == 0.0:
            R.ok("C01-R4", key, site, "constant 0")
        elif v[0] == "un" and v[1] == "Neg" and v[2][0] == "call" and path_ends(v[2][1], "Point::energy_error"):
            R.ok("C01-R4", key, site, "-energy_error(end)")
        elif v[0] == "bin" and v[1] == "Sub" and v[2][0] == "call" and path_ends(v[2][1], "Point::initial_energy") and v[3][0] == "call" and path_ends(v[3][1], "Point::energy"):
            R.ok("C01-R4", key, site, "initial_energy - energy")
        elif v[0] == "call" and path_ends(v[1], "logaddexp"):
            fields = [(vt_str(a)) for a in v[2]]
            roots = set()
            for a in v[2]:
                if a[0] == "field" and a[2] == "log_size":
                    roots.add(vt_str(a[1]))
            if len(roots) == 2:
                R.ok("C01-R4", key, site, "logaddexp(%s)" % ", ".join(fields))
            else:
                R.bad("C01-R4", key, site, "merge weight is logaddexp(%s), not of the two trees' log_size" % ", ".join(fields))
        else:
            R.bad("C01-R4", key, site, "unexpected value stored in log_size: %s" % s)
    R.floor("C01-R4", 3)
    # acceptance branch
    for (b, bb, st, v, how) in K.field_writers(F, "nuts::NutsTree", "draw"):
        if how != "assign":
            continue
        site = "%s @%s" % (b.path, loc(st["span"]))
        key = "%s:draw-accept" % b.path
        sl = b.slice([], control=True, start_bb=bb)
        need_fields = {"log_size", "is_main"}
        rng_calls = [c for c in sl["calls"] if strip_generics(c).startswith("rand::")]
        log_roots = {a for (a, names) in sl["roots"] if "log_size" in names}      # the trees (parameters or locals) whose weight is read
        miss = []
        if not need_fields <= sl["fields"]:
            miss.append("fields %s" % sorted(need_fields - sl["fields"]))
        if len(log_roots) < 2:
            miss.append("log_size of both trees")
        if not rng_calls:
            miss.append("an RNG draw")
        extra = sl["fields"] - {"log_size", "is_main", "left", "right", "depth", "0", "1", "draw"}
        if miss:
            R.bad("C01-R4", key, site, "acceptance branch does not depend on %s" % "; ".join(miss))
        elif extra:
            R.bad("C01-R4", key, site, "acceptance branch depends on unexpected state %s" % sorted(extra))
        else:
            R.ok("C01-R4", key, site, "acceptance depends on log_size(self, other), is_main, rng")


def r6(F, R):
    R.rule("C01-R6", "nuts::draw starts every trajectory with initialize_trajectory(.., resample=true, rng); under that flag the velocity "
                     "is written by array_gaussian(rng, velocity, ones); ones is only ever fill_array(_, 1.0); CpuMath::array_gaussian draws StandardNormal per element")
    callers = [b for b in F.bodies.values() if b.kind != "closure" and b.calls_to(lambda c: path_ends(c["path"], "NutsTree::extend"))
               and not (b.fn_name == "extend")]
    for b in callers:
        cs = b.calls_to(lambda c: path_ends(c["path"], "Hamiltonian::initialize_trajectory"))
        site = "%s @%s" % (b.path, b.loc())
        if not cs:
            R.bad("C01-R6", b.path + ":init", site, "no initialize_trajectory call before the doubling loop")
            continue
        ext_bbs = [bb for bb, _ in b.calls_to(lambda c: path_ends(c["path"], "NutsTree::extend"))]
        for bb, t in cs:
            flag = b.value(t["args"][3]) if len(t["args"]) > 3 else None
            dom_all = all(b.dominates(bb, e) for e in ext_bbs)
            if flag and flag[0] == "const" and flag[2] == "true" and dom_all:
                R.ok("C01-R6", b.path + ":init", "%s @%s" % (b.path, loc(t["span"])), "initialize_trajectory(.., true, rng) dominates every extend()")
            else:
                R.bad("C01-R6", b.path + ":init", "%s @%s" % (b.path, loc(t["span"])), "momentum not resampled: flag=%s dominates_all_extend=%s" % (vt_str(flag) if flag else None, dom_all))
    for b in F.trait_method_impls("Hamiltonian", "initialize_trajectory"):
        site = "%s @%s" % (b.path, b.loc())
        gs = b.calls_to(lambda c: path_ends(c["path"], "Math::array_gaussian"))
        good = False
        for bb, t in gs:
            dest = b.value(t["args"][2])
            scale = b.value(t["args"][3])
            cds = b.control_deps_trans(bb)
            flag_dep = any(vt_str(b.value(b.blocks[a]["term"]["discr"])) .startswith(("resample", "resaple")) or
                           b.value(b.blocks[a]["term"]["discr"])[0] == "arg" for (a, _s) in cds if b.blocks[a]["term"]["k"] == "switch")
            if "velocity" in vt_str(dest) and vt_str(scale).endswith(".ones") and flag_dep:
                good = True
                R.ok("C01-R6", b.path + ":gaussian", "%s @%s" % (b.path, loc(t["span"])), "velocity <- array_gaussian(rng, ., self.ones) under the resample flag")
        if not good:
            R.bad("C01-R6", b.path + ":gaussian", site, "no array_gaussian(rng, velocity, self.ones) under the resample flag")
        # ones written only by fill_array(_, 1.0) in the constructor
        adt = b.parent.get("self_adt")
        for (wb, wbb, st, v, how) in K.field_writers(F, adt, "ones"):
            wsite = "%s @%s" % (wb.path, loc(st["span"]))
            fills = wb.calls_to(lambda c: path_ends(c["path"], "Math::fill_array"))
            okfill = False
            for fb, ft in fills:
                val = wb.value(ft["args"][2])
                src = st["rv"]["ops"][st["rv"]["fields"].index("ones")] if how == "agg" else None
                if val[0] == "const" and val[2] is not None and float(val[2]) == 1.0 and src is not None and \
                        K.root_local(wb, ft["args"][1]) == K.root_local(wb, src):
                    okfill = True
            if okfill:
                R.ok("C01-R6", wb.path + ":ones", wsite, "ones = fill_array(new_array(), 1.0)")
            else:
                R.bad("C01-R6", wb.path + ":ones", wsite, "`ones` is not filled with the constant 1.0")
        mut = K.field_mut_borrows(F, adt, "ones")
        for (wb, st) in mut:
            R.bad("C01-R6", wb.path + ":ones-mut", "%s @%s" % (wb.path, loc(st["span"])), "`ones` is mutably borrowed outside the constructor")
    # CpuMath::array_gaussian
    for b in F.trait_method_impls("Math", "array_gaussian"):
        site = "%s @%s" % (b.path, b.loc())
        bodies = [b] + F.closures_of(b.path)
        samples = []
        for bx in bodies:
            for bb, t in bx.calls():
                c = t["callee"]
                if "path" in c and (path_ends(c["path"], "RngExt::sample") or path_ends(c["path"], "Distribution::sample") or path_ends(c["path"], "Rng::sample")):
                    samples.append((bx, bb, t, c))
        good = [s for s in samples if any("StandardNormal" in g for g in s[3].get("gargs", []))]
        if len(samples) == 1 and good:
            bx, bb, t, c = good[0]
            inloop = any(bb in body for body in bx.natural_loops().values()) or bx.kind == "closure"
            if inloop:
                R.ok("C01-R6", b.path + ":normal", site, "one StandardNormal draw per element")
            else:
                R.bad("C01-R6", b.path + ":normal", site, "StandardNormal draw is not per element")
        else:
            R.bad("C01-R6", b.path + ":normal", site, "array_gaussian does not draw exactly one StandardNormal per element (%d sample calls)" % len(samples))
    R.floor("C01-R6", 4)


def cond_fields(b, discr):
    """Fields a branch condition depends on; `tree.depth` reads are taken as the field itself (not the history of the tree)."""
    out = set()
    ops = [discr]
    if discr["k"] in ("copy", "move") and not discr["pl"]["p"]:
        ds = b.defs().get(discr["pl"]["l"], [])
        if len(ds) == 1 and ds[0][0] == "stmt" and ds[0][3]["rv"]["k"] == "bin":
            ops = [ds[0][3]["rv"]["a"], ds[0][3]["rv"]["b"]]
        elif len(ds) == 1 and ds[0][0] == "stmt" and ds[0][3]["rv"]["k"] == "un":
            return cond_fields(b, ds[0][3]["rv"]["a"])
    for o in ops:
        v = b.value(o)
        if v[0] == "field" and v[1][0] in ("local", "arg", "deref") and any(
                path_ends(b.locals[x[1]].get("adt"), "NutsTree") for x in vt_walk(v[1]) if x[0] in ("local", "arg")):
            out.add(v[2])
        else:
            out |= b.slice([o], control=False)["fields"]
    return out


def extend_gate(F, R):
    """What decides inside extend() whether the U-turn criterion is evaluated: ('options', arg) for `options.check_turning`,
    ('flag', arg) for a boolean parameter; the recursive call must hand the same gate down unchanged."""
    ext = F.inherent_methods("NutsTree", "extend")
    if not ext:
        return None, None
    b = ext[0]
    gates = set()
    for bb, t in b.calls_to(lambda c: path_ends(c["path"], "Hamiltonian::is_turning")):
        for (o, l, r, _s) in Rl.edge_relations(b, bb):
            if r is None and o == "True":
                if l[0] == "field" and l[2] == "check_turning":
                    root = l[1]
                    while root[0] in ("deref", "ref"):
                        root = root[1]
                    if root[0] == "arg":
                        gates.add(("options", root[1]))
                elif l[0] == "arg" and b.local_ty(l[1]) == "bool":
                    gates.add(("flag", l[1]))
    site = "%s @%s" % (b.path, b.loc())
    # nothing else of the options takes part in the gate: extend() also builds every sub-tree, and there `self.depth` is the sub-tree's own depth, not the
    # number of doublings of the trajectory - `mindepth` / `maxdepth` are the doubling loop's business (C01-R7 on the caller), not the tree builder's
    extra = set()
    for bb, t in b.calls_to(lambda c: path_ends(c["path"], "Hamiltonian::is_turning")):
        for (o, l, r, _s) in Rl.edge_relations(b, bb):
            for side in (l, r):
                if side is None:
                    continue
                for x in vt_walk(side):
                    if x[0] == "field" and str(x[2]) != "check_turning":
                        root = x[1]
                        while root[0] in ("deref", "ref"):
                            root = root[1]
                        if root[0] == "arg" and "NutsOptions" in b.local_ty(root[1]):
                            extra.add(str(x[2]))
    if extra:
        R.bad("C01-R7", b.path + ":gate-options-only", site, "inside extend() the U-turn criterion also depends on options.%s: in a sub-tree the tree's own depth is compared, so "
              "balanced sub-trajectories below that depth are never tested and doubling stops later than the criterion says" % "/".join(sorted(extra)))
    elif gates:
        R.ok("C01-R7", b.path + ":gate-options-only", site, "no option other than check_turning takes part in the conditions that lead to is_turning()")
    if len(gates) != 1:
        if gates:
            R.bad("C01-R7", b.path + ":gate", site, "the U-turn criterion in extend() is gated by several conditions: %s" % sorted(gates))
        return None, None
    kind, idx = next(iter(gates))
    for bb, t in b.calls_to(lambda c: path_ends(c["path"], "NutsTree::extend")):
        a = t["args"][idx - 1] if idx - 1 < len(t["args"]) else None
        v = b.value(a) if a is not None else None
        while v is not None and v[0] in ("ref", "deref"):
            v = v[1]
        if v is not None and v[0] == "arg" and v[1] == idx:
            R.ok("C01-R7", b.path + ":gate-recursive", "%s @%s" % (b.path, loc(t["span"])), "sub-trees are built under the same U-turn gate as their parent")
        else:
            R.bad("C01-R7", b.path + ":gate-recursive", "%s @%s" % (b.path, loc(t["span"])), "the recursive extend() receives %s as U-turn gate, not the caller's" % (vt_str(v) if v else None))
    return kind, idx


def gate_deps(b, o, ctx_bb):
    """Names a boolean operand depends on. Leaves: named struct fields (a tree's own fields are not traced into the tree's history),
    parameters, named non-boolean variables (`mindepth`), callee names. Boolean variables and temporaries are expanded through all their
    definitions and through the conditions that choose between those definitions (`a && b` is control flow in MIR)."""
    ctx = {a for (a, _s) in b.control_deps_trans(ctx_bb)}
    seen = set()
    out = set()

    def operand(x):
        if x["k"] in ("copy", "move"):
            place(x["pl"])

    def place(pl):
        named = [e["n"] for e in pl["p"] if isinstance(e, dict) and "f" in e and e.get("n") and not str(e["n"]).isdigit()]
        for e in pl["p"]:
            if isinstance(e, dict) and "idx" in e:
                local(e["idx"])
        if named:
            out.add(named[-1])
            return
        local(pl["l"])

    def rvalue(rv):
        k = rv["k"]
        if k in ("use", "cast", "repeat"):
            operand(rv["op"])
        elif k == "bin":
            operand(rv["a"])
            operand(rv["b"])
        elif k == "un":
            operand(rv["a"])
        elif k in ("ref", "rawptr", "discr"):
            place(rv["pl"])
        elif k == "agg":
            for x in rv["ops"]:
                operand(x)

    def local(l):
        if l in seen:
            return
        seen.add(l)
        name = b.local_name(l)
        if b.is_arg(l):
            out.add(str(name or "arg%d" % l))
            return
        if name and b.local_ty(l) != "bool":
            out.add(str(name))
            return
        ds = b.defs().get(l, [])
        if not ds:
            out.add(str(name or "_%d" % l))
        for d in ds:
            if d[0] == "stmt":
                if d[3]["k"] == "assign":
                    rvalue(d[3]["rv"])
            else:
                out.add(str(d[3]["callee"].get("name")))
                for a in d[3]["args"]:
                    operand(a)
            for (a, _s) in b.control_deps_trans(d[1]):
                tt = b.blocks[a]["term"]
                if a not in ctx and tt["k"] == "switch":
                    operand(tt["discr"])
                    if "enum_place" in tt:
                        place(tt["enum_place"])
    operand(o)
    return out


def r7(F, R):
    R.rule("C01-R7", "the doubling loop disables U-turn checks (passes the no-check options copy to extend) only as a function of "
                     "`tree.depth < mindepth`: the selection depends on NutsTree.depth and options.mindepth and on nothing else "
                     "(not on maxdepth / extra_doublings)")
    gate_kind, gate_idx = extend_gate(F, R)
    callers = [b for b in F.bodies.values() if b.kind != "closure" and b.fn_name != "extend" and
               b.calls_to(lambda c: path_ends(c["path"], "NutsTree::extend"))]
    for b in callers:
        loops = b.natural_loops()
        n = 0
        for bb, t in b.calls_to(lambda c: path_ends(c["path"], "NutsTree::extend")):
            site = "%s @%s" % (b.path, loc(t["span"]))
            key = "%s:extend-options#%d" % (b.path, n)
            if gate_kind == "flag":
                # extend(.., check: bool): the flag itself is the gate of the U-turn criterion
                n += 1
                if gate_idx - 1 >= len(t["args"]):
                    R.bad("C01-R7", key, site, "extend() call without the U-turn flag argument")
                    continue
                fo = t["args"][gate_idx - 1]
                if fo["k"] == "const":
                    R.ok("C01-R7", key, site, "extend() with a constant U-turn flag (%s)" % fo["const"].get("v"))
                    continue
                ctrl = gate_deps(b, fo, bb)
                if "depth" in ctrl and "mindepth" in ctrl and not ({"maxdepth", "extra_doublings"} & ctrl):
                    R.ok("C01-R7", key, site, "U-turn flag depends on %s" % sorted(ctrl))
                else:
                    R.bad("C01-R7", key, site, "U-turn checks are switched off depending on %s; only `tree.depth < mindepth` is a legal reason" % sorted(ctrl))
                continue
            oargs = [a for a in t["args"] if a["k"] in ("copy", "move") and path_ends(a["pl"]["ty"].replace("&", "").strip(), "NutsOptions")]
            if len(oargs) != 1:
                continue
            l = oargs[0]["pl"]["l"]
            # look through reborrow / move temporaries to the user variable
            for _ in range(8):
                ds = b.defs().get(l, [])
                if len(ds) == 1 and ds[0][0] == "stmt" and ds[0][3]["k"] == "assign" and not b.local_name(l):
                    rv = ds[0][3]["rv"]
                    if rv["k"] == "use" and rv["op"]["k"] in ("copy", "move") and not rv["op"]["pl"]["p"]:
                        l = rv["op"]["pl"]["l"]
                        continue
                    if rv["k"] == "ref" and rv["pl"]["p"] == ["*"]:
                        l = rv["pl"]["l"]
                        continue
                break
            defs = b.defs().get(l, [])
            n += 1
            if len(defs) <= 1:
                v = b.local_value(l)
                if any(x[0] == "arg" for x in vt_walk(v)):
                    R.ok("C01-R7", key, site, "extend() always receives the caller's options")
                else:
                    # constant no-check copy: only legal outside the main doubling sequence (extra doublings)
                    inner = [h for h, body in loops.items() if bb in body]
                    R.ok("C01-R7", key, site, "extend() with the fixed no-check copy (extra doublings after a U-turn)")
                continue
            ctrl = set()
            per_def = []
            for d in defs:
                m = {}
                for (a, s_) in b.control_deps_trans(d[1]):
                    m.setdefault(a, set()).add(s_)
                per_def.append(m)
            switches = set().union(*[set(m) for m in per_def])
            for a in switches:
                edge_sets = [frozenset(m.get(a, ())) for m in per_def]
                if len(set(edge_sets)) > 1:
                    tt = b.blocks[a]["term"]
                    if tt["k"] == "switch":
                        ctrl |= cond_fields(b, tt["discr"])
            if not ctrl:
                # the selection is made through a value computed elsewhere (`match bounds.next(depth) { Unchecked => &no_check, Checked => options, .. }`):
                # walk the paths of one iteration to this call; the no-check copy is chosen exactly on the paths that passed `tree.depth < mindepth`
                inner = [(h, body) for h, body in loops.items() if bb in body]
                verdict = None
                if inner:
                    h, body = max(inner, key=lambda x: len(x[1]))
                    hits, _ex = K.iter_paths(b, h, [bb], within=body)
                    defblocks = {d[1]: d for d in defs}
                    wrong = []
                    for (_tb, cs, path) in (hits or []):
                        last = [x for x in path if x in defblocks]
                        if not last:
                            wrong.append("no definition of the options on a path")
                            continue
                        d = defblocks[last[-1]]
                        dv = b.rvalue_value(d[3]["rv"]) if d[0] == "stmt" else ("unknown",)
                        root_ = dv
                        while root_[0] in ("ref", "deref"):
                            root_ = root_[1]
                        is_caller_options = root_[0] == "arg"
                        rels = {K.depth_relation(b, sw, val) for (sw, val) in cs}
                        below = ("Lt", "mindepth") in rels
                        above = ("Ge", "mindepth") in rels
                        if is_caller_options and not above:
                            wrong.append("the caller's options are used on a path that has not passed `tree.depth >= mindepth`")
                        if not is_caller_options and not below:
                            wrong.append("the no-check copy is used on a path that has not passed `tree.depth < mindepth`")
                    if hits:
                        verdict = sorted(set(wrong))
                if verdict is None:
                    R.bad("C01-R7", key, site, "cannot find the condition selecting between the options and the no-check copy")
                elif verdict:
                    R.bad("C01-R7", key, site, "; ".join(verdict))
                else:
                    R.ok("C01-R7", key, site, "on every path of an iteration the no-check copy is selected exactly where tree.depth < mindepth was established (%d paths)" % len(hits))
            elif "depth" in ctrl and "mindepth" in ctrl and not ({"maxdepth", "extra_doublings"} & ctrl):
                R.ok("C01-R7", key, site, "selection depends on %s" % sorted(ctrl))
            else:
                R.bad("C01-R7", key, site, "U-turn checks are switched off depending on %s; only `tree.depth < mindepth` is a legal reason" % sorted(ctrl))
    R.floor("C01-R7", 2)


def r8(F, R):
    R.rule("C01-R8", "tree weights combine symmetrically: the function that merges the log-weights of two sub-trees (the callee whose result is stored into "
                     "NutsTree.log_size in the merge) satisfies f(a, b) == f(b, a) on its whole decision tree - the weight of a trajectory must not depend on "
                     "which half was built first")
    from . import symm
    from . import kernel as KN
    TREE_ = "nuts::NutsTree"
    merged = set()
    for (wb, bb, st, v, how) in K.field_writers(F, TREE_, "log_size"):
        for n in vt_walk(v):
            if n[0] == "call" and len(n[2]) == 2:
                tgt = n[3].get("resolved") or n[3].get("path")
                if tgt in F.bodies:
                    args = [vt_str(x) for x in n[2]]
                    if all("log_size" in a for a in args):
                        merged.add(tgt)
    if not merged:
        R.missing("C01-R8", "binary workspace function combining two log_size values")
        return
    for tgt in sorted(merged):
        b = F.bodies[tgt]
        pb = [(bid, nm) for (bid, nm) in K.param_bindings(b)]
        site = "%s @%s" % (b.path, b.loc())
        if len(pb) != 2 or not b.hir:
            R.bad("C01-R8", tgt + ":shape", site, "weight-merge function does not have two simple parameters")
            continue
        ok_, t, l0, l1 = symm.check_symmetric(b.hir["value"], pb)
        if ok_:
            R.ok("C01-R8", tgt + ":symmetric", site, "%d leaves of the decision tree, invariant under exchanging %s and %s" % (len(l0), pb[0][1], pb[1][1]))
        else:
            only = sorted(l0 - l1, key=repr)[:2]
            desc = []
            for conds, val in t.leaves:
                desc.append("[%s] -> %s" % (", ".join("%s in %s" % (KN.pshow(p_), "/".join(sorted(s_))) for p_, s_ in conds[-2:]), KN.pshow(val)))
            R.bad("C01-R8", tgt + ":symmetric", site, "weight merge is not symmetric in its arguments (%d of %d leaves have no mirror image%s): e.g. %s" % (
                len(l0 - l1), len(l0), "; notes: %s" % t.notes if t.notes else "", "; ".join(d for d in desc if True)[:400]))
    R.floor("C01-R8", 1)


def _weight_atoms(v, self_base, other_base):
    """Weights a value tree reads, outside of a logaddexp call: 'own' (the receiving tree's log_size), 'other' (the merged-in tree's), 'merged'
    (a logaddexp result), 'unknown:<x>' for a log_size of something else."""
    out = set()

    def rec(x):
        if not isinstance(x, tuple):
            return
        if x[0] == "call" and path_ends(x[1], "logaddexp"):
            out.add("merged")
            return
        if x[0] == "field" and x[2] == "log_size":
            b_ = vt_str(x[1])
            out.add("own" if b_ == self_base else "other" if b_ == other_base else "unknown:" + b_)
            return
        for y in x[1:]:
            if isinstance(y, tuple):
                rec(y)
            elif isinstance(y, list):
                for z in y:
                    rec(z)
    rec(v)
    return out


def r12(F, R):
    R.rule("C01-R12", "U-turn tests only between complete halves: in extend() (helpers inlined) no Hamiltonian::is_turning call lies inside the loop that "
                      "builds the new half (the loop around the recursive extend call) - a test that spans the old half and a partially built new half "
                      "depends on the side the tree was started from, so the set of tests is not the same for a trajectory and its mirror image")
    ext = [b for b in F.inherent_methods("NutsTree", "extend")]
    if not ext:
        R.missing("C01-R12", "NutsTree::extend")
    for b in ext:
        site = "%s @%s" % (b.path, b.loc())
        rec = [bb for bb, t in b.calls_to(lambda c: path_ends(c["path"], "NutsTree::extend"))]
        loops = b.natural_loops()
        build = [(h, body) for h, body in loops.items() if any(x in body for x in rec)]
        if not rec or not build:
            R.missing("C01-R12", "loop around the recursive extend call in %s" % b.path)
            continue
        body = set().union(*[bd for _h, bd in build])
        inside = [(bb, t) for bb, t in b.calls_to(lambda c: path_ends(c["path"], "Hamiltonian::is_turning")) if bb in body]
        if inside:
            R.bad("C01-R12", b.path + ":partial-half", "%s @%s" % (b.path, loc(inside[0][1]["span"])),
                  "a U-turn test is made while the new half is still being built (inside the sub-tree loop): the tested span is not a node of the balanced tree")
        else:
            n_ = len(b.calls_to(lambda c: path_ends(c["path"], "Hamiltonian::is_turning")))
            R.ok("C01-R12", b.path + ":partial-half", site, "%d is_turning call(s), none inside the loop that builds the new half" % n_)
    R.floor("C01-R12", 1)


def _alternatives(b, v, blocks, depth=0):
    """A multiply defined local (`p = if c {1.0} else {exp(..)}`) stands for each of its definitions inside `blocks`."""
    if not (isinstance(v, tuple) and v[0] == "local") or depth > 3:
        return [v]
    out = []
    for d in b.defs().get(v[1], []):
        if d[1] not in blocks:
            continue
        if d[0] == "stmt" and d[3]["k"] == "assign" and not d[3]["pl"]["p"]:
            out += _alternatives(b, b.rvalue_value(d[3]["rv"]), blocks, depth + 1)
        elif d[0] == "call" and not d[3]["dest"]["p"]:
            c = d[3]["callee"]
            out.append(("call", c.get("path", "?"), [b.value(a) for a in d[3]["args"]], c))
    return out or [v]


def r11(F, R):
    R.rule("C01-R11", "progressive sampling inside a sub-tree is uniform (path-sensitive on is_main): with `is_main == false` assumed, every condition on the "
                      "way to `self.draw = other.draw` that reads the new half's weight compares it with the merged weight logaddexp(own, other) - never with "
                      "the old half's weight alone (that is the biased rule, valid only for the tree that contains the initial point) - the acceptance is "
                      "gated by random_bool(exp(other - merged)), and the draw cannot be adopted on a path that passes neither that gate nor such a comparison")
    n = 0
    for (b, A, st, v, how) in K.field_writers(F, "nuts::NutsTree", "draw"):
        if how != "assign" or not (v[0] == "field" and v[2] == "draw"):
            continue
        n += 1
        site = "%s @%s" % (b.path, loc(st["span"]))
        pl = st["pl"]
        self_pl = {"l": pl["l"], "p": pl["p"][:-1], "ty": ""}
        self_base = vt_str(b.place_value(self_pl))
        other_base = vt_str(v[1])
        self_root = K.root_local(b, {"k": "copy", "pl": {"l": pl["l"], "p": [], "ty": ""}})

        def mk_oracle(val):
            def oracle(q):
                if q["p"] and isinstance(q["p"][-1], dict) and q["p"][-1].get("n") == "is_main" and q["p"][-1].get("of") == "nuts::NutsTree":
                    if vt_str(b.place_value({"l": q["l"], "p": q["p"][:-1], "ty": ""})) == self_base:
                        return val
                return None
            return oracle
        for case, val in (("sub-tree", False), ("main", True)):
            key = "%s:%s" % (b.path, case)
            FB = b.reach_feasible(0, oracle=mk_oracle(val))
            if A not in FB:
                if not val:
                    R.bad("C01-R11", key, site, "with is_main == false the assignment of the new draw is unreachable: sub-trees never adopt a draw of their later half")
                else:
                    R.bad("C01-R11", key, site, "with is_main == true the assignment of the new draw is unreachable")
                continue
            pred = b.pred_map()
            can = {A}
            stk = [A]
            while stk:
                x = stk.pop()
                for y in pred[x]:
                    if y in FB and y not in can:
                        can.add(y)
                        stk.append(y)
            gates = set()
            bad = []
            rand_ok = False
            with b.restricted(FB):
                for x in sorted(can):
                    t = b.blocks[x]["term"]
                    if t["k"] == "call" and strip_generics(t["callee"].get("path", "")).endswith(("random_bool", "gen_bool")):
                        pv = b.value(t["args"][1]) if len(t["args"]) > 1 else ("unknown",)
                        alts = _alternatives(b, pv, FB)
                        at = set().union(*[_weight_atoms(a_, self_base, other_base) for a_ in alts])
                        pv = next((a_ for a_ in alts if any(n_[0] == "call" and str(n_[1]).endswith("exp") for n_ in vt_walk(a_))), pv)
                        # the switch on the result is the gate
                        for y in FB:
                            t2 = b.blocks[y]["term"]
                            if t2["k"] == "switch" and t2["discr"]["k"] in ("copy", "move") and K.root_local(b, t2["discr"]) == t["dest"]["l"]:
                                gates.add(y)
                        gates.add(x)
                        if not val:
                            if "own" in at:
                                bad.append("random_bool(%s): the acceptance probability of a sub-tree is computed against the old half's weight alone" % vt_str(pv)[:120])
                            elif at >= {"other", "merged"} and any(n_[0] == "call" and str(n_[1]).endswith("exp") for n_ in vt_walk(pv)):
                                rand_ok = True
                        else:
                            if "other" in at and (("own" in at) or ("merged" in at)):
                                rand_ok = True
                    if t["k"] == "switch":
                        dv = b.value(t["discr"])
                        if dv[0] == "bin" and dv[1] in ("Ge", "Gt", "Le", "Lt"):
                            at = _weight_atoms(dv, self_base, other_base)
                            if "other" in at:
                                if not val and "own" in at:
                                    bad.append("`%s`: in a sub-tree the new half's weight is compared with the old half's weight alone" % vt_str(dv)[:120])
                                elif ("merged" in at) or (val and "own" in at):
                                    gates.add(x)
            if bad:
                R.bad("C01-R11", key, site, "; ".join(sorted(set(bad))) + " (biased progressive sampling is valid only for the tree containing the initial point)")
                continue
            if not rand_ok:
                R.bad("C01-R11", key, site, "no random_bool(exp(other.log_size - %s)) on the way to the draw assignment" % ("logaddexp(own, other)" if not val else "reference weight"))
                continue
            free = A in b.reach_from(0, avoid=sorted(gates), succ_filter=lambda a_, c_: c_ in FB) if 0 not in gates else False
            if free:
                R.bad("C01-R11", key, site, "the new draw can be adopted on a path that passes neither the random gate nor a comparison of the weights")
            else:
                R.ok("C01-R11", key, site, "%s case: %d feasible blocks, %d gate blocks; every path to the draw assignment passes a weight comparison or the random gate" % (case, len(FB), len(gates)))
    if n == 0:
        R.missing("C01-R11", "assignment `self.draw = other.draw` in the merge")
    R.floor("C01-R11", 2)


def run(F, R, config="all"):
    r8(F, R)
    r1(F, R)
    r2(F, R)
    r3(F, R)
    r4(F, R)
    r6(F, R)
    r7(F, R)
    r11(F, R)
    r12(F, R)
    from . import c03
    c03.snapshot(F, R, "C01-R9")
    # the refreshed momentum has the distribution the kinetic energy assumes: N(0, I) for Euclidean and ExactNormal, the unit sphere only for Microcanonical
    from . import c18
    K.borrow_rule(R, lambda sub: c18.r1(F, sub), "C01-R10", "momentum refresh per kinetic-energy kind: the velocity written by array_gaussian in initialize_trajectory is "
                  "renormalised exactly on the Microcanonical paths (C18-R1 analysis); normalising it for another kind changes the invariant distribution",
                  only_rules={"C18-R1"})
    # detailed balance needs the tree weights exp(-H) of every kind and a reversible step: decided per kinetic-energy kind by the C02-R11 analysis
    from . import c02
    K.borrow_rule(R, lambda sub: c02.r11(F, sub), "C01-R13", "for every kinetic-energy kind the new point's energy is its own (kinetic energy recomputed, or carried along "
                  "by the ESH update) and the two velocity half-steps read the same fields of the point (C02-R11 analysis, path-sensitive on the kind)", only_rules={"C02-R11"})
    # reversibility of the step map: forward-then-backward returns to the start only if (a) every point of one tree is expressed in one and the same
    # transformation (a changed transformation bumps the id, so the start point is re-whitened: C02-R5 analysis) and (b) a kernel's result depends on
    # its arguments only, not on which call came before (C17-K9 analysis)
    K.borrow_rule(R, lambda sub: c02.r5(F, sub), "C01-R14", "every write of a transformation's scales / mean / low-rank part is followed by the id increment on every "
                  "path, so the tree's start point is never left in the coordinates of the previous transformation (C02-R5 analysis)", only_rules={"C02-R5"})
    from . import c17
    c17.stateless_backend(F, R, rid="C01-R15")
    R.assume("rand's RngExt::random::<bool>() returns true with probability 1/2")
    R.assume("MIR at -Zmir-opt-level=0 is a faithful control-flow model of the source")
